"""python3-vt tools_validate.py : validate MANIFEST.json and evidence/*.json"""
import glob, json, sys
import jsonschema
ok = True
ms = json.load(open('/root/.vp/MANIFEST.schema.json'))
es = json.load(open('/root/.vp/EVIDENCE.schema.json'))
try:
    jsonschema.validate(json.load(open('MANIFEST.json')), ms)
    print('MANIFEST ok')
except Exception as e:
    ok = False; print('MANIFEST INVALID', e)
for p in sorted(glob.glob('evidence/*.json')):
    try:
        jsonschema.validate(json.load(open(p)), es)
    except Exception as e:
        ok = False; print(p, 'INVALID', str(e)[:300])
print('evidence checked:', len(glob.glob('evidence/*.json')))
sys.exit(0 if ok else 1)
