#!/venv/bin/python
"""tools_seedrecord.py <Cxx> <seed-name> : copy the outcome of tools_seedtest.sh into seeded/<name>/meta.json"""
import json, sys, os, re
cid, name = sys.argv[1], sys.argv[2]
out = '/verif/.work/seedruns/%s-seed-%s/stdout.txt' % (cid, name)
txt = [l for l in open(out).read().splitlines() if not l.startswith('WARNING')]
viol = [l for l in txt if l.startswith('VIOLATION')]
first = ''
for i, l in enumerate(txt):
    if l.startswith('VIOLATION') and i + 1 < len(txt):
        first = txt[i + 1].strip()[:300]
        break
last = txt[-1] if txt else ''
p = '/verif/seeded/%s/meta.json' % name
m = json.load(open(p))
m.setdefault('checks_run', []).append({
    'command': 'VERIF_REPO=<worktree with the change> ./check %s --tier quick' % cid,
    'exit': 1 if viol else (2 if 'INCONCLUSIVE' in ' '.join(txt) else 0),
    'violation_lines': len(viol), 'first_violation': first, 'summary_line': last[:200]})
m['caught'] = bool(viol) or m.get('caught', False)
json.dump(m, open(p, 'w'), indent=1)
print(name, 'caught' if viol else 'MISSED', '|', first[:120])
