"""C31 regex automata accept exactly the expression's language; scan = longest match (DESIGN 4, C31).

Refuting events: the DFA tables returned by ``ppci.lang.tools.regex.compile`` (run with ppci's own
``pick_transition``) accept a string that ``re.fullmatch(pattern, s, re.DOTALL)`` rejects or the
other way round; ``scan`` / ``Scanner.scan`` split a text differently from "repeatedly take the
longest prefix that fullmatches"; ``parse``/``compile`` raise on a well-formed expression; for the
enumerated ASTs (<= 6 nodes, where every construction needs < 1000 derivative steps) the DFA
construction does not finish within 60000 derivative steps (bounded liveness, counted by a hook
on the ``derivative`` methods - wall clock is never used).  For random larger expressions no bound
of a legitimate construction is known (similarity of derivatives is not language equivalence; the
DFA can be hundreds of times larger than the minimal one), so a construction that exceeds the
budget there is discarded and counted, not judged; a shard in which more than 5% of the
constructions are discarded that way is inconclusive.

Every expression is an AST (vlib/rxref.py) that is handed to ppci on two routes:
  parse   the pattern text, rendered with the minimal parentheses Python's re needs  -> compile(str)
  direct  the same AST built with ppci's public constructors (Symbol, SymbolSet, Kleene, +, |,
          optional())                                                                -> compile(Regex)
The direct route keeps the derivative engine, the DFA builder and the scanner under observation
for the whole AST space while the parser finding is open.

Oracle: ``re.fullmatch`` as the property says.  Python's backtracking matcher needs exponential
time on stacked quantifiers (``(((a*)+)+)+`` does not finish on 6 characters), so expressions with
three or more nested postfix operators are judged by the second reference alone: a Glushkov
position automaton built from the AST (textbook first/last/follow construction).  Both references
are computed for every other expression and must agree, otherwise the case is inconclusive (oracle
self-check), never a verdict about ppci.

Guards (outside ppci's documented syntax, never generated): ``[^..]``, anchors, ``{m,n}``,
backreferences, lazy quantifiers / stacked postfix operators without parentheses, empty
alternatives and empty groups, ``[a-a]``, class items ``-`` at the border, ``\\`` followed by a letter
or digit (ppci reads ``\\n`` as ``n``), characters above 255.  Empty tokens: a nullable expression makes
``scan`` yield ``""`` forever (so does the literal reading of "repeatedly take the longest prefix");
both token streams are compared up to the first empty token.
"""
import itertools

from vlib.core import rng, h
from vlib import rxref

PROPERTY = "C31"
ATOMS = [["lit", "a"], ["lit", "b"], ["dot"], ["cls", ["a", "b"]], ["cls", [["b", "c"]]], ["lit", "."]]
K_PARSER = "parser-concatenation-only-at-top-level"
K_KEYERR = "compile-keyerror-when-no-dead-state"
K_DIVERGE = "dfa-construction-diverges-alternation-not-aci"
K_EXPLODE = "dfa-state-explosion-alternation-order-sensitive"

RULE = ("exhaustive: every AST with <= N nodes (quick N=5, thorough N=6) over atoms a, b, '.', [ab], [b-c], '\\.' "
        "with unary * + ? and binary concatenation / alternation, rendered with minimal parentheses, on two routes "
        "(pattern text -> parse -> compile; same AST built with ppci's constructors -> compile) x every string "
        "over {a,b,c} up to length 6 and over {a,b,c,.} up to length 4 (1313 strings): DFA acceptance and the "
        "scan() token split; token-set scanners (2-3 expressions) via make_scanner and via ExpressionVector; "
        "regrouping pairs: one flat sequence of 2-4 leaves with binary operators and postfix operators is grouped in "
        "two different ways ((xy)* / x(y*), (x|y)z / x|(yz), (xy)? / x(y?) ...) and the two variants are combined "
        "under alternation, concatenation and repetition and as token sets, all 1313 strings; "
        "random expressions of 6..14 nodes with escaped metacharacters, multi-item classes and redundant groups "
        "x strings sampled from the expression's automaton, their mutations and random strings.  Non-trivial = "
        "the expression has an operator and the string set contains accepted and rejected strings; distinct by "
        "hash of (route, AST)")
ASSUMPTIONS = ["Python re.fullmatch with re.DOTALL decides membership correctly (it is skipped, and the Glushkov reference "
               "alone judges, for expressions with >= 3 nested postfix operators where re backtracks exponentially)",
               "vlib/rxref.py Glushkov automaton is a correct second reference; it must agree with re wherever both are computed",
               "the DFA is run with ppci's own pick_transition over the returned (transitions, accepts, error) tables",
               "generated expressions stay inside the syntax both ppci and Python's re give the same meaning (see module docstring guards)"]
MANIFEST_ENTRY = {
    "text": "for all regular expressions up to a bounded AST size over a small alphabet and all strings up to a bounded "
            "length, the compiled DFA accepts exactly what re.fullmatch accepts and scan()/Scanner.scan() produce the "
            "longest-match token split; parse/compile neither raise nor diverge",
    "note": "while findings are open the pattern-text route is restricted to expressions whose concatenations are all at top "
            "level, expressions whose automaton has no dead state and prefix-ambiguous starred expressions are skipped "
            "(see known_findings.d/C31.json); the direct-construction route covers the rest of the engine",
    "technique": "runtime monitoring: re.fullmatch + Glushkov automaton oracle over exhaustive small ASTs x all short strings and random larger expressions",
}
SHARD_TIMEOUT = {"quick": 1500, "thorough": 4 * 3600}
BUDGET_SMALL = 60000      # derivative calls; the largest terminating compile of an AST <= 6 nodes needs ~700
BUDGET_RANDOM = 400000
BUDGET_REGROUP = 150000


def EXHAUSTIVE(tier):
    return True


def max_size(tier):
    return 5 if tier == "quick" else 6


def plan(tier, seed, avoid):
    specs = []
    N = max_size(tier)
    for n in range(1, N + 1):
        total = rxref.count_asts(n, len(ATOMS))
        k = max(1, min(64, total // 700))
        if n == N:
            k = max(k, 12)
        specs += [{"part": "exh", "size": n, "slice": i, "of": k} for i in range(k)]
    nt = 8 if tier == "quick" else 16
    specs += [{"part": "tokens", "n": 400 if tier == "quick" else 1500, "shard": i} for i in range(nt)]
    nr = 8 if tier == "quick" else 16
    specs += [{"part": "random", "n": 1500 if tier == "quick" else 3200, "shard": i} for i in range(nr)]
    ng = 16 if tier == "quick" else 32
    specs += [{"part": "regroup", "n": 50 if tier == "quick" else 300, "shard": i} for i in range(ng)]
    return specs


def floors(tier):
    # quick tier on the unchanged tree (3 findings open) observes about 3x these numbers
    return {"evaluations": 8000000, "distinct_nontrivial": 5000,
            "observed.route.direct": 3000, "observed.route.parse": 2000,
            "observed.scan.compared": 5000000, "observed.scan.kind.error": 1000000,
            "observed.scan.kind.end": 500000, "observed.scan.kind.empty-token": 1000000,
            "observed.scan.multi_token": 1000000,
            "observed.tokens.scanners": 1000, "observed.tokens.texts": 150000,
            "observed.tokens.texts_with_two_token_kinds": 30000,
            "observed.tokens.route_parse": 300, "observed.tokens.route_direct": 500,
            "observed.regroup.pairs": 600, "observed.regroup.pairs_with_different_language": 200,
            "observed.regroup.combined_expressions": 2000, "observed.regroup.token_sets": 600,
            "observed.regroup.postfix_scope_pairs": 300, "observed.regroup.binary_regrouping_pairs": 50,
            "observed.random.expressions": 6000, "observed.random.with_escaped_metachar": 3000,
            "observed.random.with_redundant_group": 1500,
            "observed.oracle.re_and_glushkov_agree": 3000,
            "observed.ops.alt": 2500, "observed.ops.cat": 2500, "observed.ops.star": 2000,
            "observed.ops.plus": 2000, "observed.ops.opt": 2500, "observed.ops.cls": 2500,
            "observed.ops.dot": 1500, "observed.ops.lit": 5000, "observed.ops.grp": 600}


# ---- strings -----------------------------------------------------------------------

def string_space():
    """prefix- and substring-closed: {a,b,c}^<=6 plus {a,b,c,.}^<=4, ordered by length"""
    out = []
    for n in range(0, 7):
        for p in itertools.product("abc.", repeat=n):
            if "." in p and n > 4:
                continue
            out.append("".join(p))
    return out


# ---- ppci side -----------------------------------------------------------------------

class Budget(BaseException):
    pass


class Engine:
    """imports ppci's regex package and installs the derivative-step counter"""

    def __init__(self):
        from ppci.lang.tools import regex as R
        from ppci.lang.tools.regex import regex as RR
        from ppci.lang.tools.regex import scanner as SC

        self.R, self.RR, self.SC = R, RR, SC
        self.steps = [0]
        self.limit = [BUDGET_SMALL]
        steps, limit = self.steps, self.limit
        for cls in (RR.Epsilon, RR.SymbolSet, RR.Kleene, RR.Concatenation, RR.LogicalOr, RR.LogicalAnd,
                    RR.ExpressionVector):
            orig = cls.__dict__["derivative"]

            def derivative(self, symbol, _orig=orig):
                steps[0] += 1
                if steps[0] > limit[0]:
                    raise Budget()
                return _orig(self, symbol)

            cls.derivative = derivative

    def build(self, t):
        """the AST through ppci's public constructors"""
        R, RR = self.R, self.RR
        k = t[0]
        if k == "lit":
            return R.Symbol(t[1])
        if k == "dot":
            return RR.SIGMA
        if k == "eps":
            return R.EPSILON
        if k == "cls":
            return R.SymbolSet([ord(i) if isinstance(i, str) else (ord(i[0]), ord(i[1])) for i in t[1]])
        if k == "grp":
            return self.build(t[1])
        if k == "star":
            return self.build(t[1]).kleene()
        if k == "plus":
            e = self.build(t[1])
            return e + R.Kleene(e)
        if k == "opt":
            return self.build(t[1]).optional()
        if k == "cat":
            return self.build(t[1]) + self.build(t[2])
        if k == "alt":
            return self.build(t[1]) | self.build(t[2])
        raise ValueError(k)

    def compile(self, what, budget):
        """-> ("ok", prog) | ("raised", text) | ("budget", steps)"""
        self.steps[0] = 0
        self.limit[0] = budget
        try:
            return "ok", self.R.compile(what)
        except Budget:
            return "budget", budget
        except Exception as e:  # noqa
            import re

            return "raised", "%s: %s" % (type(e).__name__, re.sub(r" at 0x[0-9a-f]+", "", str(e))[:200])
        finally:
            self.limit[0] = 1 << 60

    def run_dfa(self, prog, strs):
        """state after every string (prefixes are shared); None = pick_transition raised on the way"""
        trans = prog[0]
        pick = self.SC.pick_transition
        st = {"": 0}

        def state_of(s):
            if s in st:
                return st[s]
            p = state_of(s[:-1])
            if p is None:
                st[s] = None
            else:
                try:
                    st[s] = pick(trans, p, ord(s[-1]))
                except Exception:  # noqa
                    st[s] = None
            return st[s]

        for s in strs:
            state_of(s)
        return st

    def accepts(self, prog, s):
        state = 0
        for ch in s:
            state = self.SC.pick_transition(prog[0], state, ord(ch))
        return bool(prog[1][state])

    def scan(self, gen_factory, text):
        """-> (tokens before the first empty token, kind) with kind end | error | empty-token | raised:..."""
        toks = []
        try:
            it = gen_factory()
            for _ in range(len(text) + 2):
                try:
                    tok = next(it)
                except StopIteration:
                    return toks, "end"
                txt = tok if isinstance(tok, str) else tok[1]
                if txt == "":
                    return toks, "empty-token"
                toks.append(tok if isinstance(tok, str) else [tok[0], tok[1]])
            return toks, "too-many-tokens"
        except ValueError as e:
            if str(e) == "No match!":
                return toks, "error"
            return toks, "raised:ValueError: %s" % e
        except Exception as e:  # noqa
            return toks, "raised:%s: %s" % (type(e).__name__, str(e)[:100])


# ---- references ------------------------------------------------------------------

class Oracle:
    """membership of strings in the language of one AST: re.fullmatch, cross-checked with Glushkov"""

    def __init__(self, t, mon):
        import re

        self.t = t
        self.pattern = rxref.render(t)
        self.g = rxref.Glushkov(t)
        self.use_re = rxref.quant_depth(t) < 3
        self.rx = re.compile(self.pattern, re.DOTALL) if self.use_re else None
        self.memo = {}
        self.mon = mon
        self.disagree = None
        mon.bump("oracle", "re_used" if self.use_re else "re_skipped_nested_quantifiers")

    def member(self, s):
        v = self.memo.get(s)
        if v is None:
            gv = self.g.accepts(s)
            if self.use_re:
                v = self.rx.fullmatch(s) is not None
                if v != gv:
                    self.disagree = s
            else:
                v = gv
            self.memo[s] = v
        return v


def ref_scan(member_fns, text):
    """longest-match split.  member_fns: [(name, member)].  -> (token texts, kind, winners per token)"""
    pos, toks, winners = 0, [], []
    n = len(text)
    while True:
        best, who = -1, []
        for k in range(n - pos, -1, -1):
            sub = text[pos:pos + k]
            who = [name for name, m in member_fns if m(sub)]
            if who:
                best = k
                break
        if best > 0:
            toks.append(text[pos:pos + best])
            winners.append(who)
            pos += best
            continue
        if best == 0:
            return toks, "empty-token", winners
        return toks, ("end" if pos == n else "error"), winners


# ---- monitor ------------------------------------------------------------------------

class Mon:
    def __init__(self, spec):
        self.spec = spec
        self.avoid = set(spec.get("avoid", []))
        self.evals = 0
        self.obs = {}
        self.disc = {}
        self.viol = []
        self.samples = []
        self.hashes = []
        self.inconclusive = []
        self.compiles = 0
        self.budget_discards = 0

    def bump(self, group, name, n=1):
        d = self.obs.setdefault(group, {})
        d[name] = d.get(name, 0) + n

    def bump2(self, group, sub, name, n=1):
        d = self.obs.setdefault(group, {}).setdefault(sub, {})
        d[name] = d.get(name, 0) + n

    def discard(self, why):
        self.disc[why] = self.disc.get(why, 0) + 1

    def violation(self, summary, case):
        if len(self.viol) < 6:
            rs = {"part": "case", "asts": case.get("asts") or [case["ast"]], "texts": case.get("texts") or [case.get("text", "")],
                  "route": case.get("route", "both"), "enumerated": case.get("enumerated", False)}
            self.viol.append({"summary": summary, "case": case, "replay_spec": rs})

    def result(self):
        if self.budget_discards > 3 and self.budget_discards * 20 > self.compiles:
            self.inconclusive.append("%d of %d constructions outside the enumerated space hit the step budget and were not judged" % (
                self.budget_discards, self.budget_discards + self.compiles))
        return {"evaluations": self.evals, "nontrivial_hashes": self.hashes, "observed": self.obs,
                "discarded": self.disc, "samples": self.samples[:2], "violations": self.viol,
                "inconclusive": self.inconclusive[:5]}


def op_stats(mon, t):
    k = t[0]
    mon.bump("ops", k)
    for c in t[1:]:
        if isinstance(c, list) and k not in ("lit", "cls"):
            op_stats(mon, c)


def diverge_risk(t, g, enumerated):
    """Input-side superset of the expressions on which the open divergence finding strikes.
    enumerated=True (ASTs of the exhaustive space over ATOMS, <= 6 nodes): the expression has * or +
    and its position automaton is prefix-ambiguous (two different runs on one string end in the same
    position); on that finite space this was checked to cover every diverging AST (size <= 5: 912
    flagged, 288 of them diverge; size 6: 10504 flagged, 2544 diverge; none unflagged).  Concatenation
    and alternation are associative for the automaton, so the parse route (left-nested) is covered too.
    Elsewhere (random expressions): everything outside the class rxref.surely_terminates()."""
    if enumerated:
        return rxref.has(t, ("star", "plus")) and g.prefix_ambiguous()
    return not rxref.surely_terminates(t)


def avoided(mon, t, g, route, enumerated):
    """the trigger constructs of the open findings are not handed to ppci"""
    if K_KEYERR in mon.avoid and not g.has_dead_state():
        return "avoid:" + K_KEYERR
    if K_DIVERGE in mon.avoid and diverge_risk(t, g, enumerated):
        return "avoid:" + K_DIVERGE
    if route == "parse" and K_PARSER in mon.avoid and not rxref.concat_only_at_top(t):
        return "avoid:" + K_PARSER
    return None


def check_single(mon, eng, t, strs, table_fn, member, routes, budget, seen_patterns=None, scan_strs=None,
                 enumerated=False):
    """one expression on the requested routes against a string list.
    table_fn() -> {s: bool} (or None: oracle disagreement)"""
    orc = Oracle(t, mon)
    pattern = orc.pattern
    tab = None
    nontrivial = False
    for route in routes:
        why = avoided(mon, t, orc.g, route, enumerated)
        if why:
            mon.discard(why + ":" + route)
            continue
        if route == "parse" and seen_patterns is not None:
            if pattern in seen_patterns:
                mon.discard("same-pattern-text-as-earlier-ast")
                continue
            seen_patterns.add(pattern)
        if tab is None:
            tab = table_fn(orc)
            if tab is None:
                mon.inconclusive.append("oracle self-check: re and Glushkov disagree on %r for %r" % (orc.disagree, pattern))
                return
            acc = sum(1 for s in strs if tab[s])
            nontrivial = 0 < acc < len(strs) and t[0] not in ("lit", "dot", "cls")
        case = {"ast": t, "pattern": pattern, "route": route, "enumerated": enumerated}
        what = pattern if route == "parse" else None
        if route == "direct":
            try:
                what = eng.build(t)
            except Exception as e:  # noqa
                mon.evals += 1
                mon.violation("building %r with ppci's constructors raised %s: %s" % (pattern, type(e).__name__, e), case)
                continue
        status, prog = eng.compile(what, budget)
        mon.bump("route", route)
        if status == "raised":
            mon.evals += 1
            mon.violation("compile(%r) [%s route] raised %s" % (pattern, route, prog), case)
            continue
        if status == "budget":
            if not enumerated:
                # Outside the enumerated space there is no known bound for a legitimate construction:
                # similarity-based derivatives may need hundreds of times more states than the minimal
                # DFA (seen: 9862 states for a 33-state language).  Not judged, only counted.
                mon.discard("step-budget-exceeded:" + route)
                mon.budget_discards += 1
                continue
            mon.evals += 1
            mon.violation("compile(%r) [%s route]: DFA construction not finished after %d derivative steps "
                          "(an AST of <= 6 nodes needs < 1000; reference automaton has %d positions)" % (
                              pattern, route, prog, orc.g.n), case)
            continue
        nstates = len(prog[0])
        mon.compiles += 1
        mon.bump("dfa_states", str(min(nstates, 12)) if nstates < 12 else "12+")
        steps = eng.steps[0]
        mon.bump("derivative_steps_enumerated" if enumerated else "derivative_steps_random", "<1k" if steps < 1000 else "<10k" if steps < 10000 else "<60k" if steps < 60000 else ">=60k")
        ref = orc.g.subset_states() + 1
        mon.bump("states_vs_reference_subset_dfa", "<=1x" if nstates <= ref else "<=2x" if nstates <= 2 * ref
                 else "<=4x" if nstates <= 4 * ref else "<=10x" if nstates <= 10 * ref else ">10x")
        op_stats(mon, t)
        # acceptance
        states = eng.run_dfa(prog, strs)
        bad = None
        for s in strs:
            st = states[s]
            got = None if st is None else bool(prog[1][st])
            mon.evals += 1
            if got is not tab[s]:
                bad = (s, got)
                break
        if bad is not None:
            s, got = bad
            mon.violation("%r [%s route]: DFA %s %r, re.fullmatch %s it" % (
                pattern, route, "failed (pick_transition raised) on" if got is None else ("accepts" if got else "rejects"),
                s, "accepts" if tab[s] else "rejects"), dict(case, text=s, dfa=got, reference=tab[s]))
            continue
        # longest-match scanning
        fns = [("t", member)] if member else [("t", tab.__getitem__)]
        for s in (scan_strs if scan_strs is not None else strs):
            want_toks, want_kind, _ = ref_scan(fns, s)
            got_toks, got_kind = eng.scan(lambda: eng.R.scan(prog, s), s)
            mon.evals += 1
            mon.bump("scan", "compared")
            mon.bump2("scan", "kind", want_kind)
            if len(want_toks) > 1:
                mon.bump("scan", "multi_token")
            if got_toks != want_toks or got_kind != want_kind:
                mon.violation("%r [%s route]: scan(%r) gives %r then %s; longest match gives %r then %s" % (
                    pattern, route, s, got_toks, got_kind, want_toks, want_kind),
                    dict(case, text=s, got=[got_toks, got_kind], reference=[want_toks, want_kind]))
                break
        if nontrivial:
            mon.hashes.append(h([route, t]))
        if len(mon.samples) < 2 and nontrivial and route == "parse" and not tab[""] and \
                rxref.has(t, ("alt",)) and rxref.has(t, ("star", "plus")) and rxref.size(t) >= 5:
            ex = [s for s in strs if tab[s]][:4]
            multi = [s for s in strs if len(s) >= 4 and len(ref_scan(fns, s)[0]) > 1][-1:] or [strs[-1]]
            mon.samples.append({"pattern": pattern, "ast": t, "dfa_states": nstates, "accepted_examples": ex,
                                "scan_example": [multi[0], ref_scan(fns, multi[0])[:2]]})


# ---- shards ------------------------------------------------------------------------

def run_exh(mon, eng, spec):
    strs = string_space()
    asts = rxref.enumerate_asts(spec["size"], ATOMS)
    seen = set()
    for t in asts[spec["slice"]::spec["of"]]:
        check_single(mon, eng, t, strs, lambda orc: table_for(orc, strs), None, ("direct", "parse"), BUDGET_SMALL, seen,
                     enumerated=True)


def table_for(orc, strs):
    """membership table over string_space(); Glushkov side walks the same space"""
    g = orc.g
    gt = {}
    cur = {"": frozenset([0])}
    for s in strs:
        if s:
            p = cur[s[:-1]]
            cur[s] = g.step(p, s[-1]) if p else p
        gt[s] = bool(cur[s]) and g.accepting(cur[s])
    if not orc.use_re:
        orc.memo = gt
        return gt
    fm = orc.rx.fullmatch
    tab = {s: fm(s) is not None for s in strs}
    for s in strs:
        if tab[s] != gt[s]:
            orc.disagree = s
            return None
    orc.memo = tab
    orc.mon.bump("oracle", "re_and_glushkov_agree")
    return tab


# random expressions ---------------------------------------------------------------

LITS = ["a", "b", "c", "a", "b", "*", "+", "?", "|", "(", ")", "[", "]", ".", "\\", "-", "=", " ", "0"]
CLS_ITEMS = ["a", "b", "c", "0", "9", "]", "-", "\\", "^", "[", "x", "="]
CLS_RANGES = [["a", "b"], ["a", "c"], ["b", "c"], ["0", "9"], ["a", "z"], ["b", "x"]]


def rand_atom(r):
    k = r.random()
    if k < 0.5:
        return ["lit", r.choice(LITS)]
    if k < 0.62:
        return ["dot"]
    items = []
    for _ in range(r.randint(1, 3)):
        items.append(r.choice(CLS_RANGES) if r.random() < 0.45 else r.choice(CLS_ITEMS))
    if items[0] == "^":          # a leading ^ must be escaped: render does so, keep it away from slot 0 anyway
        items.append("a")
        items.reverse()
    if items[0] == "^":
        items[0] = "a"
    return ["cls", items]


def rand_ast(r, n, groups=True):
    if n <= 1:
        return rand_atom(r)
    k = r.random()
    if groups and k < 0.08:
        return ["grp", rand_ast(r, n - 1)]
    if k < 0.35:
        return [r.choice(rxref.UN), rand_ast(r, n - 1)]
    left = r.randint(1, n - 2) if n > 2 else 1
    if n == 2:
        return [r.choice(rxref.UN), rand_ast(r, 1)]
    return [r.choice(["cat", "cat", "alt"]), rand_ast(r, left), rand_ast(r, n - 1 - left)]


def alphabet_of(g):
    named = set()
    for s in g.sym[1:]:
        if s is not None:
            named |= set(sorted(s)[:4])
    return sorted(named | {"c", "z"})


def sample_strings(r, g, n):
    alpha = alphabet_of(g)
    out = set([""])
    for _ in range(n):
        cur, s = 0, ""
        while len(s) < 10:
            nxt = sorted(g.follow[cur])
            if not nxt or ((cur in g.last or (cur == 0 and g.nullable)) and r.random() < 0.3):
                break
            cur = r.choice(nxt)
            sym = g.sym[cur]
            s += r.choice(alpha) if sym is None else r.choice(sorted(sym))
        out.add(s)
        m = list(s)
        if m and r.random() < 0.8:
            i = r.randrange(len(m))
            k = r.random()
            if k < 0.33:
                del m[i]
            elif k < 0.66:
                m[i] = r.choice(alpha)
            else:
                m.insert(i, r.choice(alpha))
            out.add("".join(m)[:10])
        out.add("".join(r.choice(alpha) for _ in range(r.randint(0, 7))))
        if s and r.random() < 0.5:   # concatenations make multi-token texts
            out.add((s + s)[:10])
    return sorted(out)


def run_random(mon, eng, spec):
    for i in range(spec["n"]):
        r = rng(spec["seed"], PROPERTY, "random/%d/%d" % (spec["shard"], i))
        t = rand_ast(r, r.randint(6, 14))
        g = rxref.Glushkov(t)
        strs = sample_strings(r, g, 14)
        mon.bump("random", "expressions")
        mon.bump("random", "strings", len(strs))
        if rxref.has(t, ("grp",)):
            mon.bump("random", "with_redundant_group")
        if any(c in rxref.render(t) for c in ("\\*", "\\|", "\\(", "\\[", "\\.", "\\\\", "\\+", "\\?", "\\)")):
            mon.bump("random", "with_escaped_metachar")
        holder = {}

        def table_fn(orc):
            holder["orc"] = orc
            tab = {}
            for s in strs:
                tab[s] = orc.member(s)
            if orc.disagree is not None:
                return None
            orc.mon.bump("oracle", "re_and_glushkov_agree")
            return tab

        def member(s):
            return holder["orc"].member(s)

        check_single(mon, eng, t, strs, table_fn, member, ("direct", "parse"), BUDGET_RANDOM, None)
        orc = holder.get("orc")
        if orc is not None and orc.disagree is not None and not mon.inconclusive:
            mon.inconclusive.append("oracle self-check: re and Glushkov disagree on %r for %r" % (orc.disagree, orc.pattern))


# regrouping pairs -----------------------------------------------------------------------

RG_LEAVES = [["lit", "a"], ["lit", "b"], ["lit", "c"], ["lit", "a"], ["lit", "b"], ["dot"], ["cls", ["a", "b"]],
             ["cls", [["b", "c"]]], ["lit", "."]]


def flat_sequence(r):
    """leaves, binary operators between neighbours, an optional postfix operator after each leaf"""
    while True:
        k = r.choice([2, 2, 2, 3, 3, 4])
        leaves = [r.choice(RG_LEAVES) for _ in range(k)]
        ops = [r.choice(["cat", "cat", "alt"]) for _ in range(k - 1)]
        post = [r.choice([None, None, "star", "star", "plus", "opt"]) for _ in range(k)]
        if any(post[1:]) or len(set(ops)) > 1 or k > 2:
            return leaves, ops, post


def grouping(r, leaves, ops, post):
    """one way to put parentheses into the flat sequence: any binary operator may be the root of a
    span, and the postfix operator written after the last leaf of a span may apply to the leaf, to
    the whole span or to anything in between"""

    def build(i, j, apply_last):
        p = post[j] if apply_last else None
        if i == j:
            return [p, leaves[i]] if p else leaves[i]
        if p and r.random() < 0.5:
            return [p, build(i, j, False)]
        s = r.randrange(i, j)
        return [ops[s], build(i, s, True), build(s + 1, j, apply_last)]

    return build(0, len(leaves) - 1, True)


def kinds_of_difference(v1, v2):
    """coarse tag: do the variants differ in the scope of a postfix operator or only in binary grouping"""
    def shape(t):
        if t[0] in rxref.UN:
            return (t[0], rxref.size(t[1]))
        return None

    def posts(t, acc):
        if t[0] in rxref.UN:
            acc.append(shape(t))
            posts(t[1], acc)
        elif t[0] in ("cat", "alt"):
            posts(t[1], acc)
            posts(t[2], acc)
        return acc

    return "postfix_scope_pairs" if sorted(posts(v1, [])) != sorted(posts(v2, [])) else "binary_regrouping_pairs"


def run_regroup(mon, eng, spec):
    strs = string_space()
    for i in range(spec["n"]):
        r = rng(spec["seed"], PROPERTY, "regroup/%d/%d" % (spec["shard"], i))
        v1 = v2 = None
        for _ in range(30):
            leaves, ops, post = flat_sequence(r)
            v1 = grouping(r, leaves, ops, post)
            for _ in range(10):
                v2 = grouping(r, leaves, ops, post)
                if v2 != v1:
                    break
            if v2 != v1:
                break
        if v1 == v2:
            mon.discard("regroup:no-second-grouping")
            continue
        mon.bump("regroup", "pairs")
        mon.bump("regroup", kinds_of_difference(v1, v2))
        g1, g2 = rxref.Glushkov(v1), rxref.Glushkov(v2)
        if any(g1.accepts(x) != g2.accepts(x) for x in strs if len(x) <= 4):
            mon.bump("regroup", "pairs_with_different_language")
        e, f = r.choice(RG_LEAVES), r.choice(RG_LEAVES)
        both, both_r = ["alt", v1, v2], ["alt", v2, v1]
        combos = [both, both_r, ["cat", e, both], ["cat", both_r, e], ["star", both], ["plus", both_r],
                  ["cat", ["alt", ["alt", e, v1], v2], f], ["alt", ["alt", v2, e], v1], ["cat", v1, v2],
                  ["cat", ["opt", v2], v1], ["alt", ["cat", v1, e], ["cat", v2, f]], ["opt", ["cat", both, both_r]],
                  ["star", ["cat", e, both_r]], ["alt", ["star", v1], ["plus", v2]]]
        for t in [both, both_r] + r.sample(combos[2:], 3):
            mon.bump("regroup", "combined_expressions")
            check_single(mon, eng, t, strs, lambda orc: table_for(orc, strs), None, ("direct", "parse"), BUDGET_REGROUP, None)
        texts = r.sample([x for x in strs if len(x) <= 6], 200) + [""]
        for asts in ([v1, v2], [v2, v1, e]):
            mon.bump("regroup", "token_sets")
            check_tokens(mon, eng, asts, ["t%d" % j for j in range(len(asts))], texts, ("direct", "parse"))
        if len(mon.samples) < 2 and i % 7 == 3:
            mon.samples.append({"flat_sequence": [rxref.render(x) for x in leaves], "operators": ops, "postfix": post,
                                "variant_1": rxref.render(v1), "variant_2": rxref.render(v2),
                                "combined": [rxref.render(both), rxref.render(combos[2]), rxref.render(combos[4])]})


# token-set scanners -----------------------------------------------------------------

def run_tokens(mon, eng, spec):
    pool = []
    for n in (1, 2, 3, 4):
        pool += rxref.enumerate_asts(n, ATOMS)
    strs_all = [s for s in string_space() if len(s) <= 5]
    for i in range(spec["n"]):
        r = rng(spec["seed"], PROPERTY, "tokens/%d/%d" % (spec["shard"], i))
        k = r.choice([2, 2, 3])
        asts, enum = [], []
        for _ in range(k):
            enum.append(r.random() < 0.8)
            asts.append(r.choice(pool) if enum[-1] else rand_ast(r, r.randint(3, 7), groups=False))
        names = ["t%d" % j for j in range(k)]
        texts = r.sample(strs_all, 150) + [""]
        check_tokens(mon, eng, asts, names, texts, ("direct", "parse"), enum)


def joint_dead_state(gs):
    """is there a string that is a prefix of no word of any of the languages?"""
    reps = sorted(set(itertools.chain.from_iterable(g.char_classes() for g in gs)))
    start = tuple(frozenset([0]) for _ in gs)
    seen, todo = {start}, [start]
    while todo:
        cur = todo.pop()
        for ch in reps:
            nxt = tuple(g.step(c, ch) if c else c for g, c in zip(gs, cur))
            if not any(nxt):
                return True
            if nxt not in seen:
                seen.add(nxt)
                todo.append(nxt)
    return False


def check_tokens(mon, eng, asts, names, texts, routes, enumerated=None):
    orcs = [Oracle(t, mon) for t in asts]
    pats = [o.pattern for o in orcs]
    for route in routes:
        why = None
        if K_KEYERR in mon.avoid and not joint_dead_state([o.g for o in orcs]):
            why = "avoid:" + K_KEYERR
        for j, (t, o) in enumerate(zip(asts, orcs)):
            if why is None and K_DIVERGE in mon.avoid and diverge_risk(t, o.g, bool(enumerated and enumerated[j])):
                why = "avoid:" + K_DIVERGE
            if why is None and route == "parse" and K_PARSER in mon.avoid and not rxref.concat_only_at_top(t):
                why = "avoid:" + K_PARSER
        if why:
            mon.discard(why + ":tokens-" + route)
            continue
        case = {"asts": asts, "patterns": pats, "route": route, "enumerated": list(enumerated or [])}
        eng.steps[0] = 0
        eng.limit[0] = BUDGET_RANDOM
        try:
            if route == "parse":
                scanner = eng.R.make_scanner(dict(zip(names, pats)))
            else:
                vec = eng.RR.ExpressionVector([(n, eng.build(t)) for n, t in zip(names, asts)])
                scanner = eng.SC.Scanner(eng.R.compile(vec))
        except Budget:  # not judged, see check_single
            mon.discard("step-budget-exceeded:tokens-" + route)
            mon.budget_discards += 1
            continue
        except Exception as e:  # noqa
            mon.evals += 1
            mon.violation("scanner for %r [%s route] raised %s: %s" % (pats, route, type(e).__name__, str(e)[:200]), case)
            continue
        finally:
            eng.limit[0] = 1 << 60
        mon.compiles += 1
        mon.bump("tokens", "scanners")
        mon.bump("tokens", "route_" + route)
        fns = [(n, o.member) for n, o in zip(names, orcs)]
        ok = True
        for text in texts:
            want_toks, want_kind, winners = ref_scan(fns, text)
            if any(o.disagree is not None for o in orcs):
                mon.inconclusive.append("oracle self-check: re and Glushkov disagree for one of %r" % (pats,))
                return
            got, got_kind = eng.scan(lambda: scanner.scan(text), text)
            mon.evals += 1
            mon.bump("tokens", "texts")
            mon.bump2("tokens", "kind", want_kind)
            got_txt = [g[1] for g in got]
            names_ok = len(got) == len(winners) and all(g[0] in w for g, w in zip(got, winners))
            if got_txt != want_toks or got_kind != want_kind or not names_ok:
                mon.violation("token set %r [%s route]: scan(%r) gives %r then %s; longest match gives %r then %s "
                              "(admissible names %r)" % (pats, route, text, got, got_kind, want_toks, want_kind, winners),
                              dict(case, text=text, got=[got, got_kind], reference=[want_toks, want_kind, winners]))
                ok = False
                break
            if len(want_toks) > 1:
                mon.bump("tokens", "multi_token_texts")
            if len(set(g[0] for g in got)) > 1:
                mon.bump("tokens", "texts_with_two_token_kinds")
            for g, w in zip(got, winners):
                if len(w) > 1:
                    mon.bump("tokens", "ties_first_listed_wins" if g[0] == w[0] else "ties_other_wins")
        if ok and any(rxref.size(t) > 1 for t in asts):
            mon.hashes.append(h(["tokens", route, asts]))
        if ok and len(mon.samples) < 1 and route == "parse":
            mon.samples.append({"token_set": dict(zip(names, pats)), "text": texts[0],
                                "tokens": ref_scan(fns, texts[0])[:2]})


def run_case(mon, eng, spec):
    """replay: one expression (or token set) on explicit texts"""
    asts, texts = spec["asts"], spec["texts"]
    routes = ("direct", "parse") if spec.get("route", "both") == "both" else (spec["route"],)
    enum = spec.get("enumerated", False)
    if len(asts) > 1:
        check_tokens(mon, eng, asts, ["t%d" % j for j in range(len(asts))], texts, routes, enum or None)
        return
    t = asts[0]
    space = string_space()
    strs = space if all(x in set(space) for x in texts) else sorted(set(texts) | {""})
    holder = {}

    def table_fn(orc):
        holder["orc"] = orc
        if strs is space:
            return table_for(orc, strs)
        tab = {s: orc.member(s) for s in strs}
        return None if orc.disagree is not None else tab

    check_single(mon, eng, t, strs, table_fn, (lambda s: holder["orc"].member(s)), routes, BUDGET_RANDOM, None,
                 enumerated=bool(enum))


def run_shard(spec):
    mon = Mon(spec)
    eng = Engine()
    part = spec["part"]
    if part == "exh":
        run_exh(mon, eng, spec)
    elif part == "random":
        run_random(mon, eng, spec)
    elif part == "tokens":
        run_tokens(mon, eng, spec)
    elif part == "regroup":
        run_regroup(mon, eng, spec)
    elif part == "case":
        run_case(mon, eng, spec)
    return mon.result()


# ---- probes of the open findings ----------------------------------------------------

def probe_parser():
    eng = Engine()
    out = []
    st, prog = eng.compile("ab|cd", BUDGET_SMALL)
    if st != "ok":
        out.append("compile('ab|cd') %s %s" % (st, prog))
    else:
        got = {s: eng.accepts(prog, s) for s in ("ab", "cd", "acd", "abd")}
        if got != {"ab": True, "cd": True, "acd": False, "abd": False}:
            out.append("'ab|cd' is read as 'a(b|c)d': accepts %s, rejects %s" % (
                [s for s in got if got[s]], [s for s in got if not got[s]]))
    st, prog = eng.compile("(ab)c", BUDGET_SMALL)
    if st != "ok":
        out.append("compile('(ab)c') %s %s" % (st, prog))
    elif not eng.accepts(prog, "abc"):
        out.append("'(ab)c' rejects 'abc'")
    return "; ".join(out) or None


def probe_keyerror():
    eng = Engine()
    st, prog = eng.compile(".*", BUDGET_SMALL)
    if st != "ok":
        return "compile('.*') %s %s (the error state is looked up although no string leads to it)" % (st, prog)
    return None if eng.accepts(prog, "xyz") and eng.accepts(prog, "") else "'.*' rejects 'xyz' or ''"


def probe_diverge():
    eng = Engine()
    st, prog = eng.compile("a*a*", 200000)
    if st == "budget":
        return "compile('a*a*') creates ever larger states (r|s)|s, ((r|s)|s)|s ...: not finished after 200000 derivative steps"
    if st != "ok":
        return "compile('a*a*') %s %s" % (st, prog)
    return None if eng.accepts(prog, "aaa") and not eng.accepts(prog, "ab") else "'a*a*' wrong on 'aaa'/'ab'"


EXPLODE_WITNESS = ["plus", ["plus", ["cat", ["cat", ["cat", ["cls", ["a", "b"]], ["cls", ["b", "x"]]], ["opt", ["lit", "b"]]], ["dot"]]]]


def probe_explode():
    eng = Engine()
    pattern = rxref.render(EXPLODE_WITNESS)          # (([ab][bx]b?.)+)+
    ref = rxref.Glushkov(EXPLODE_WITNESS).subset_states() + 1
    st, prog = eng.compile(pattern, 5000000)
    if st != "ok":
        return "compile(%r) %s %s" % (pattern, st, prog)
    n = len(prog[0])
    if n > 4 * ref:
        return ("compile(%r) builds %d states in %d derivative steps, the subset construction of the same expression "
                "has %d (r|s and s|r, (rs)t and r(st) are different states)" % (pattern, n, eng.steps[0], ref - 1))
    return None


PROBES = {K_PARSER: probe_parser, K_KEYERR: probe_keyerror, K_DIVERGE: probe_diverge, K_EXPLODE: probe_explode}
