"""C37 C3 front-end computes the values C3 semantics prescribe (DESIGN C37).

Abstract programs of vlib.c3gen are rendered as C3 and as C.  The C3 text goes
through ``ppci.api.c3_to_ir`` (arch x86_64 for even case numbers, arm for odd
ones) and every entry function is executed by vlib.refinterp (ptr_size 8 / 4)
on 4 argument vectors; the C text of a whole batch of programs is compiled
once with ``gcc -O0 -fsanitize=undefined -fno-sanitize-recover=all`` and run
natively.  Observables compared per (function, vector): return value, the
packed bytes of every global after the call, the ordered arguments of the
external procedure ``put``.

Refuting events: a difference in an observable; the compiled IR leaves the
defined IR semantics or does not terminate within 2000 x ticks + 50000 steps
while the C program ran clean; c3_to_ir raising anything (an internal error,
and -- the statement quantifies over every program of the language, and the
generator only combines constructs of the documentation and the test-suite --
also a diagnostic: a valid program that is rejected computes nothing); an
ill-formed module (vlib.irwf, or an initial value that is not bytes).  Cases
in which the C side flags a zero divisor, MIN / -1 or a shift count outside the type (helper functions set a
flag instead of executing UB) are discarded, as is everything after a UBSan
abort (never observed).

Narrowed w.r.t. DESIGN: no pointer arithmetic, no mixed-type operands, no
sizeof of aggregates, no float/double; operator precedence is not judged
(everything is parenthesised).
"""
import io
import os
import subprocess

from vlib.core import rng, h

PROPERTY = "C37"
RULE = ("vlib.c3gen abstract programs (int/byte/bool/intN_t/uintN_t scalars, structs incl. nested and with array members, "
        "arrays, pointers to scalars and structs incl. pointer parameters, consts, globals with initial values, "
        "if/while/for/switch, and/or/not incl. calls with side effects in conditions, + - * / % << >> & | ^ unary minus on "
        "same-typed operands, explicit casts between all integer types, compound assignment, recursion, calls of later "
        "functions) rendered as C3 and C; c3_to_ir output (x86_64 and arm alternating) run by vlib.refinterp on 4 argument "
        "vectors per entry function vs gcc -O0 + UBSan native run of the C rendering: return value, bytes of every "
        "global, put() trace; non-trivial = compared run with >= 30 IR instructions and >= 1 branch, distinct by "
        "(C3 source, arch, function, arguments)")
ASSUMPTIONS = ["gcc 12 -O0 on x86-64 implements C99 for the UB-free C rendering (all arithmetic in uint64_t + cast, "
               "guarded / % << >>; conversions to signed types are modular, >> of negative values arithmetic: gcc's "
               "documented implementation-defined choices)",
               "vlib.refinterp implements IR semantics (cross-checked by C24/C02/C38)",
               "the C rendering expresses C3 semantics as documented: fixed-width wrapping arithmetic in the operand "
               "type, left-to-right short-circuit conditions, switch without fall-through"]
MANIFEST_ENTRY = {
    "text": "Differential execution of generated C3 programs: c3_to_ir output under the reference IR interpreter against "
            "the gcc-native run of an equivalent C rendering (return value, global memory, external call trace), on two "
            "target architectures; c3_to_ir must accept every generated (valid) program and produce well-formed IR.",
    "note": "Same-typed operands with explicit casts only (undocumented mixed-type rules are not judged), no pointer "
            "arithmetic, no floats; constructs of open findings are switched off (known_findings.d/C37.json).",
    "technique": "runtime monitoring: gcc-compiled C rendering as oracle over generated C3 programs run through c3_to_ir + refinterp",
}
SHARD_TIMEOUT = {"quick": 1200, "thorough": 3 * 3600}
NVEC = 4
BATCH = 10
ARCHS = (("x86_64", 8), ("arm", 4))


def plan(tier, seed, avoid):
    n, per = (520, 20) if tier == "quick" else (15000, 250)
    return [{"start": s, "count": per} for s in range(0, n, per)]


def floors(tier):
    return {"evaluations": 1500, "distinct_nontrivial": 700, "observed.programs_compiled": 350,
            "observed.arch.x86_64": 150, "observed.arch.arm": 150,
            "observed.tags.stmt:switch": 40, "observed.tags.stmt:for": 60, "observed.tags.stmt:while": 60,
            "observed.tags.stmt:ptr": 40, "observed.tags.stmt:agg": 40, "observed.tags.op:and": 50,
            "observed.tags.op:not": 30, "observed.tags.op:/": 30, "observed.tags.op:>>": 30,
            "observed.tags.cond:call": 15, "observed.tags.global:initialised": 100,
            "observed.tags.leaf:pmember": 5, "observed.tags.leaf:deref": 20, "observed.tags.leaf:index": 50}


# --------------------------------------------------------------------------
# the C side: one compile + run per batch

def run_c_batch(items, tag):
    """items: [(pre, program, [(case_id, fn, vec)])] -> {case_id: dict(ret, globals, trace, ub, ticks)} , problems"""
    from vlib import c3gen
    tmp = os.environ.get("VERIF_TMP") or os.getcwd()
    parts = [c3gen.C_PRELUDE]
    lines = []
    ncases = 0
    for pre, prog, cases in items:
        parts.append(c3gen.render_c(prog, pre))
        for cid, fn, vec in cases:
            lines.append(c3gen.c_case(prog, pre, fn, vec, cid))
            ncases = max(ncases, cid + 1)
    parts.append(c3gen.c_main(lines, ncases))
    cfile = os.path.join(tmp, "batch_%s.c" % tag)
    exe = os.path.join(tmp, "batch_%s.bin" % tag)
    with open(cfile, "w") as f:
        f.write("\n".join(parts))
    try:
        cp = subprocess.run(["gcc", "-O0", "-w", "-fsanitize=undefined", "-fno-sanitize-recover=all", "-o", exe, cfile],
                            capture_output=True, text=True, timeout=300)
    except subprocess.TimeoutExpired:
        return {}, ["gcc timed out"]
    if cp.returncode != 0:
        return {}, ["gcc rejected the C rendering: " + cp.stderr[:600]]
    results = {}
    problems = []
    start = 0
    rounds = 0
    while start < ncases and rounds < 50:
        rounds += 1
        try:
            rp = subprocess.run([exe, str(start)], capture_output=True, text=True, timeout=120)
        except subprocess.TimeoutExpired:
            problems.append("C batch timed out")
            break
        cur = None
        last_started = None
        for line in rp.stdout.splitlines():
            kind, _, rest = line.partition(" ")
            if kind == "C":
                cur = {"trace": [], "globals": {}, "ret": None, "ub": None, "ticks": None}
                last_started = int(rest)
            elif cur is None:
                continue
            elif kind == "T":
                cur["trace"].append(int(rest))
            elif kind == "R":
                cur["ret"] = None if rest == "void" else int(rest)
            elif kind == "G":
                name, _, hx = rest.partition(" ")
                cur["globals"][name] = hx
            elif kind == "U":
                cur["ub"] = int(rest)
            elif kind == "K":
                cur["ticks"] = int(rest)
                results[last_started] = cur
                cur = None
        if rp.returncode == 0:
            break
        # abnormal end inside case last_started: drop it and go on behind it
        why = "too long" if rp.returncode == 7 else "rc=%s %s" % (rp.returncode, rp.stderr.strip()[:200])
        results[last_started if last_started is not None else start] = {"aborted": why}
        start = (last_started if last_started is not None else start) + 1
    try:
        os.unlink(exe)
        os.unlink(cfile)
    except OSError:
        pass
    return results, problems


# --------------------------------------------------------------------------

def compile_c3(src, arch):
    """-> (module, None) | (None, ('diagnostic'|'internal', text))"""
    from ppci.api import c3_to_ir
    from ppci.common import CompilerError
    from ppci.build.tasks import TaskError
    import contextlib
    import re
    buf = io.StringIO()

    def messages(first):
        # c3_to_ir prints its diagnostics; the exception only says "Errors occurred"
        found = re.findall(r"Error: \('([^']*)'", buf.getvalue())
        texts = [m for m in found if m != "Errors occurred"] or [first]
        return "; ".join(sorted(set(texts)))[:160]
    try:
        with contextlib.redirect_stdout(buf):
            return c3_to_ir([io.StringIO(src)], [], arch), None
    except TaskError as e:
        if isinstance(e.__cause__, CompilerError):
            return None, ("diagnostic", messages(str(e.__cause__.msg)))
        return None, ("internal", "TaskError without diagnostic: %s" % e)
    except CompilerError as e:
        return None, ("diagnostic", messages(str(e.msg)))
    except Exception as e:  # noqa
        import traceback
        return None, ("internal", "%s: %s\n%s" % (type(e).__name__, str(e)[:200], traceback.format_exc()[-1200:]))


def module_problems(module):
    from vlib import irwf
    problems = list(irwf.check_module(module))
    for v in module.variables:
        if v.value is not None:
            for part in v.value:
                ok = isinstance(part, (bytes, bytearray)) or (isinstance(part, tuple) and len(part) == 2)
                if not ok:
                    problems.append("initial value of %s contains %r" % (v.name, part))
    return problems


def new_mon():
    return {"evals": 0, "nontrivial": set(), "viol": [], "disc": {}, "samples": [], "obs": {"tags": {}, "arch": {}}, "inc": []}


def bump(d, k, n=1):
    d[k] = d.get(k, 0) + n


def check_batch(entries, mon, tag):
    """entries: [dict(case, arch, ptr, prog, src, vecs={fname: [vec]})]"""
    from vlib import c3gen
    from vlib.refinterp import Interp

    items = []
    cases = {}
    cid = 0
    compiled = []
    for k, e in enumerate(entries):
        module, err = compile_c3(e["src"], e["arch"])
        if err:
            mon["evals"] += 1
            if err[0] == "diagnostic":
                # every generated program is valid C3 by construction: a diagnostic is a refuting event
                bump(mon["obs"], "programs_rejected_with_diagnostic")
                mon["viol"].append({"summary": "c3_to_ir(%s) rejects a valid program: %s" % (e["arch"], err[1][:200]),
                                    "case": dict(e["case"], arch=e["arch"], c3=e["src"], diagnostic=err[1])})
            else:
                mon["viol"].append({"summary": "c3_to_ir(%s) raised %s" % (e["arch"], err[1].splitlines()[0][:200]),
                                    "case": dict(e["case"], arch=e["arch"], c3=e["src"], traceback=err[1])})
            continue
        bump(mon["obs"], "programs_compiled")
        bump(mon["obs"]["arch"], e["arch"])
        mon["evals"] += 1
        probs = module_problems(module)
        if probs:
            mon["viol"].append({"summary": "c3_to_ir(%s) produced an ill-formed module: %s" % (e["arch"], probs[0][:200]),
                                "case": dict(e["case"], arch=e["arch"], c3=e["src"], problems=probs[:8])})
            continue
        pre = "P%d_" % k
        mine = []
        for f in e["prog"].funcs:
            for vec in e["vecs"].get(f.name, []):
                mine.append((cid, f, vec))
                cases[cid] = (e, module, f, vec, pre)
                cid += 1
        items.append((pre, e["prog"], mine))
        compiled.append(e)
    if not items:
        return
    cres, problems = run_c_batch(items, tag)
    for pb in problems:
        mon["inc"].append("%s (%s)" % (pb, tag))
    interps = {}
    failed_programs = set()
    for cid in sorted(cases):
        e, module, f, vec, pre = cases[cid]
        if id(e) in failed_programs:
            continue
        c = cres.get(cid)
        if c is None:
            bump(mon["disc"], "no C result")
            continue
        if "aborted" in c:
            bump(mon["disc"], "C side aborted: " + c["aborted"][:30])
            continue
        if c["ub"]:
            bump(mon["disc"], "C side flags division/shift outside the defined range")
            continue
        if c["ticks"] > 3000:
            bump(mon["disc"], "more than 3000 ticks")
            continue
        it = interps.get(id(e))
        if it is None:
            it = interps[id(e)] = Interp(module, ptr_size=e["ptr"])
        budget = 2000 * c["ticks"] + 50000
        ref = it.run("m_" + f.name, vec, max_steps=budget, max_depth=300)
        mon["evals"] += 1
        diff = None
        if ref.status == "timeout":
            diff = "compiled IR still runs after %d steps (%s); C finished after %d ticks" % (budget, ref.reason, c["ticks"])
        elif ref.status == "undefined":
            diff = "compiled IR leaves the defined semantics (%s); the C rendering runs clean and returns %r" % (
                ref.reason, c["ret"])
        else:
            if ref.retval != c["ret"]:
                diff = "returns %r, C returns %r" % (ref.retval, c["ret"])
            else:
                for name, t, _ in e["prog"].globals:
                    items_ = ref.globals.get("m_" + name)
                    got = "".join(x for x in items_ if isinstance(x, str)) if items_ is not None else None
                    if got != c["globals"].get(name):
                        diff = "global %s ends as %s, C %s" % (name, got, c["globals"].get(name))
                        break
                if diff is None:
                    got_trace = [a[0] for n, a in ref.trace]
                    if got_trace != c["trace"]:
                        k = 0
                        while k < min(len(got_trace), len(c["trace"])) and got_trace[k] == c["trace"][k]:
                            k += 1
                        diff = "put() trace differs at call %d: %r, C %r (lengths %d / %d)" % (
                            k, got_trace[k:k + 1], c["trace"][k:k + 1], len(got_trace), len(c["trace"]))
        if ref.status == "ok" and ref.steps >= 30 and ref.branches >= 1:
            mon["nontrivial"].add(h([e["src"], e["arch"], f.name, vec]))
        if diff:
            failed_programs.add(id(e))
            if len(mon["viol"]) < 25:
                from vlib.optmon import module_text
                mon["viol"].append({
                    "summary": "%s %s%r: %s" % (e["arch"], f.name, tuple(vec), diff[:260]),
                    "case": dict(e["case"], arch=e["arch"], c3=e["src"], c=c3gen.render_c(e["prog"], pre), function=f.name,
                                 args=vec, c_result=c,
                                 refinterp={"status": ref.status, "reason": ref.reason, "ret": ref.retval,
                                            "globals": ref.globals, "trace": ref.trace[:20], "steps": ref.steps},
                                 ir=module_text(module)[:14000])})
        elif len(mon["samples"]) < 2 and ref.steps > 200 and len(e["src"]) < 1800:
            mon["samples"].append({"case": e["case"], "arch": e["arch"], "c3": e["src"], "function": f.name, "args": vec,
                                   "result": c["ret"], "globals": c["globals"], "ir_steps": ref.steps})


def run_shard(spec):
    from vlib import c3gen
    mon = new_mon()
    entries = []
    last = spec["start"] + spec["count"] - 1
    for idx in range(spec["start"], spec["start"] + spec["count"]):
        r = rng(spec["seed"], PROPERTY, idx)
        arch, ptr = ARCHS[idx % 2]
        prog = c3gen.gen_program(r, spec["avoid"])
        for t, n in prog.tags.items():
            bump(mon["obs"]["tags"], t, n)
        vecs = {f.name: c3gen.gen_args(r, f, NVEC) for f in prog.funcs if f.entry}
        entries.append({"case": {"id": "c3gen/%s/%d" % (spec["seed"], idx), "index": idx}, "arch": arch, "ptr": ptr,
                        "prog": prog, "src": c3gen.render_c3(prog), "vecs": vecs})
        if len(entries) == BATCH or idx == last:
            check_batch(entries, mon, "%d" % idx)
            entries = []
    return {"evaluations": mon["evals"], "nontrivial_hashes": sorted(mon["nontrivial"]), "observed": mon["obs"],
            "discarded": mon["disc"], "violations": mon["viol"], "samples": mon["samples"], "inconclusive": mon["inc"][:3]}


# ---- witnesses of known findings --------------------------------------------------

def _probe(src, fname, args, expect_ret, expect_globals=None):
    """compile on both archs and run: returns None when the result is the expected one"""
    def run():
        from vlib.refinterp import Interp
        for arch, ptr in ARCHS:
            module, err = compile_c3(src, arch)
            if err:
                return "c3_to_ir(%s): %s" % (arch, err[1].splitlines()[0][:200])
            probs = module_problems(module)
            if probs:
                return "c3_to_ir(%s): %s" % (arch, probs[0][:200])
            res = Interp(module, ptr_size=ptr).run(fname, args)
            if res.status != "ok":
                return "%s: %s %s" % (arch, res.status, res.reason)
            if res.retval != expect_ret:
                return "%s: %s%r returns %r, C semantics give %r" % (arch, fname, tuple(args), res.retval, expect_ret)
        return None
    return run


W_CONST_OPS = """module m;
var int g0 = 7 / 2;
var int g1 = (0 - 7) % 3;
var int g2 = 1 << 4;
var int g3 = (12 & 10) | (1 ^ 3);
function int f(int n)
{
  return (((g0 * 1000) + (g1 * 100)) + g2) + g3;
}
"""
# 3*1000 + (-1)*100 + 16 + (8 | 2) = 2926
W_CONST_CAST = """module m;
var int64_t g0 = 5;
var uint16_t g1 = 70000;
var int8_t g2 = cast<int8_t>(200);
function int f(int n)
{
  return (cast<int>(g0) + cast<int>(g1)) + cast<int>(g2);
}
"""
# 5 + (70000 mod 65536 = 4464) + (200 as int8 = -56) = 4413
W_BOOL_INIT = """module m;
var bool g0 = true;
var bool g1 = false;
function int f(int n)
{
  if (g0 and not g1) { return 1; }
  return 0;
}
"""

W_STRUCT_TWICE = """module m;
type struct { int a; } S0;
type struct { S0 x; S0 y; } S1;
var S1 g0;
function int f(int n)
{
  g0.x.a = n;
  g0.y.a = 7;
  return g0.x.a + g0.y.a;
}
"""

PROBES = {
    "struct-type-used-twice-reported-recursive": _probe(W_STRUCT_TWICE, "m_f", [5], 12),
    "const-eval-operator-table": _probe(W_CONST_OPS, "m_f", [0], 2926),
    "const-eval-cast-only-int-byte": _probe(W_CONST_CAST, "m_f", [0], 4413),
    "global-bool-initial-value-dropped": _probe(W_BOOL_INIT, "m_f", [0], 1),
}
