"""C15 IR text format round trip (DESIGN 4, C15).

For every well-formed module M (verify_module and vlib.irwf both accept it):
``read_module(print_module(M))`` must not raise, the re-read module must be
well-formed, must print identically, must be structurally equal to M
(vlib.ircmp.describe with names: every field that carries meaning -- types,
operators, constants, literal data, volatile flags, initial values of
globals, operands by position) and must behave identically under
vlib.refinterp (return value, final globals, external-call trace).

The structural comparison stands in for "behaves identically" where the
reference interpreter cannot observe an attribute (volatile); it compares
nothing that is without meaning for the compiled program.

Workload: vlib.irgen in kind-coverage mode, a fixed front-end corpus (C, C3,
Python snippets, each at -O0 and -O2) and hand-built directed modules
(vlib.irrt).  Narrowed against DESIGN: the front-end modules come from the
fixed corpus (vlib.irrt_corpus), not from cgen/c3gen/pygen; only functions
whose parameters are all integers or floats are executed (pointer and blob
parameters: text + structure only); inline assembly is never executed.  Constructs of OPEN findings are kept out of the sweep (irgen
dials, ``#ifdef`` alternatives of the corpus, vlib.irrt.neutralise); the
thorough tier also runs the unrestricted workload with
neutralise-and-retest.  The evidence lists every instruction class,
operator, type, constant class seen; one missing -> inconclusive.
"""
import io

PROPERTY = "C15"
RULE = ("irgen kind-coverage modules (every instruction class, operator, type, constant class 0/+-1/min/max/>2^63/"
        "tiny/huge/negative/exponent/inf/nan/-0.0, initialised globals incl. pointer relocations, volatile, literal "
        "data, function pointers, undefined, memcpy, inline asm, forward references) + 23 C/C3/Python snippets at "
        "-O0/-O2 + directed modules (forward reference per operand slot and type, constant matrix, operator matrix, "
        "keyword-like names); each printed, re-read, re-printed, compared as text, as structure and by reference "
        "execution of every scalar function on 2 argument vectors; non-trivial = compared module with >= 10 "
        "instructions, distinct by structural hash")
ASSUMPTIONS = ["vlib.refinterp implements IR semantics (cross-checked by C24 against ir2py)",
               "vlib.irwf and vlib.ircmp.describe read ppci.ir object fields correctly",
               "well-formed = accepted by ppci.irutils.verify_module and by vlib.irwf"]
MANIFEST_ENTRY = {
    "text": "Every generated, front-end produced and directed IR module is printed by print_module, parsed back by "
            "read_module and compared with the original as text, field by field and by reference execution.",
    "note": "Constructs of open findings (see known_findings.d/C15.json) are rewritten away in the quick sweep; the "
            "thorough tier runs them under neutralise-and-retest. Inline assembly is never executed (structure only).",
    "technique": "runtime monitoring: text identity + structural comparison + reference IR interpreter over "
                 "print_module/read_module on generated and front-end modules",
}

# finding key -> trigger constructs (vlib.irrt.scan), irgen dials, corpus defines
TRIGGERS = {
    "text-initial-value-not-printed": ["init-value"],
    "text-volatile-not-printed": ["volatile"],
    "text-complement-unreadable": ["unop~"],
    "text-rotate-unreadable": ["rotate"],
    "text-float-spelling-unreadable": ["float-spelling"],
    "text-undefined-unreadable": ["undefined"],
    "text-memcpy-unreadable": ["memcpy"],
    "text-inline-asm-unreadable": ["inline-asm"],
    "text-forward-reference-typed-i32": ["fwd-conflict-text"],
    "text-underscore-name-unreadable": ["uscore-name"],
    "parameter-name-not-reserved": ["param-clash"],
}
DIALS = {
    "text-initial-value-not-printed": {"init_globals": False},
    "text-volatile-not-printed": {"volatile": False},
    "text-complement-unreadable": {"kinds_off": ["unop~"]},
    "text-rotate-unreadable": {"rotates": False},
    "text-float-spelling-unreadable": {"kinds_off": ["float-exp", "float-inf", "float-nan"]},
    "text-undefined-unreadable": {"undefined": False, "kinds_off": ["undefined-used"]},
    "text-inline-asm-unreadable": {"kinds_off": ["inline-asm"]},
    "text-forward-reference-typed-i32": {"rpo": True},
}
DEFINES = {
    "text-complement-unreadable": ["NO_TILDE"],
    "text-float-spelling-unreadable": ["NO_FLOATEXP"],
    "text-memcpy-unreadable": ["NO_MEMCPY"],
    "text-inline-asm-unreadable": ["NO_ASM"],
    "text-underscore-name-unreadable": ["NO_USCORE"],
    "parameter-name-not-reserved": ["NO_PARAMCLASH"],
}

SHARD_TIMEOUT = {"quick": 900, "thorough": 3 * 3600}


def plan(tier, seed, avoid):
    if tier == "quick":
        n, per, nraw = 1500, 50, 0
    else:
        n, per, nraw = 40000, 500, 6000
    specs = [{"part": "gen", "start": s, "count": per} for s in range(0, n, per)]
    specs += [{"part": "corpus"}, {"part": "directed"}]
    if nraw and avoid:
        specs += [{"part": "gen", "start": 1000000 + s, "count": per, "raw": True} for s in range(0, nraw, per)]
        specs += [{"part": "corpus", "raw": True}, {"part": "directed", "raw": True}]
    return specs


def floors(tier):
    from vlib import core, irrt

    avoid = core.open_keys(PROPERTY)
    trig = set()
    for k in avoid:
        trig |= set(TRIGGERS.get(k, ()))
    fl = {"evaluations": 3000, "distinct_nontrivial": 1000, "observed.origin.irgen": 1200,
          "observed.origin.corpus": 36, "observed.origin.directed": 80, "observed.behaviour_runs": 1500,
          "observed.kinds.fwdref.Binop": 1}
    for k in irrt.required_kinds(trig, text=True):
        fl["observed.kinds." + k] = 1
    return fl


def roundtrip(m):
    """-> (re-read module or None, [(stage, detail)], printed text)"""
    from ppci.irutils import print_module, read_module, verify_module
    from vlib import ircmp, irwf

    fails = []
    f = io.StringIO()
    try:
        print_module(m, file=f)
    except Exception as e:  # noqa
        return None, [("print_module raised", "%s: %s" % (type(e).__name__, str(e)[:200]))], f.getvalue()
    t1 = f.getvalue()
    try:
        m2 = read_module(io.StringIO(t1))
    except Exception as e:  # noqa
        import traceback

        tb = traceback.extract_tb(e.__traceback__)
        where = "%s:%d" % (tb[-1].name, tb[-1].lineno) if tb else "?"
        return None, [("read_module raised", "%s: %s (in %s)" % (type(e).__name__, str(e)[:200], where))], t1
    try:
        verify_module(m2)
    except Exception as e:  # noqa
        fails.append(("re-read module rejected by verify_module", "%s: %s" % (type(e).__name__, str(e)[:200])))
    problems = irwf.check_module(m2)
    if problems:
        fails.append(("re-read module is not well-formed", "; ".join(problems[:3])))
    f2 = io.StringIO()
    try:
        print_module(m2, file=f2, verify=False)
        t2 = f2.getvalue()
        if t2 != t1:
            a, b = t1.splitlines(), t2.splitlines()
            k = next((i for i, (x, y) in enumerate(zip(a, b)) if x != y), min(len(a), len(b)))
            fails.append(("second print differs", "line %d: %r became %r" % (
                k + 1, a[k] if k < len(a) else None, b[k] if k < len(b) else None)))
    except Exception as e:  # noqa
        fails.append(("printing the re-read module raised", "%s: %s" % (type(e).__name__, str(e)[:200])))
    d = ircmp.diff(ircmp.describe(m, names=True), ircmp.describe(m2, names=True))
    if d:
        fails.append(("structure differs", d[:300]))
    return m2, fails, t1


def table():
    from vlib import irrt

    return irrt.Table(PROPERTY, TRIGGERS, DIALS, DEFINES, roundtrip, behaviour=True, identifier_syntax=True)


def run_shard(spec):
    from vlib import irrt

    return irrt.run_shard(spec, table())


# ---- witnesses of the findings ------------------------------------------------

def _probe(build, ptr_size=8):
    def run():
        from vlib import irrt
        from vlib.core import rng

        m = build()
        why = irrt.well_formed(m)
        if why:
            return None if False else "witness module is not well-formed: " + why
        mon = irrt.Mon()
        fails, _ = irrt.attempt(table(), m, ptr_size, rng(0, PROPERTY, "probe"), mon, False)
        if fails:
            return "%s: %s" % (fails[0][0], fails[0][1][:200])
        return None
    return run


def _one(ret, ptys, body):
    """module with one function f(p0..) whose single block is filled by body(ir, f, params, block)"""
    def build():
        from ppci import ir

        m = ir.Module("w")
        f = ir.Function("f", ir.Binding.GLOBAL, ret(ir))
        m.add_function(f)
        ps = []
        for i, t in enumerate(ptys(ir)):
            p = ir.Parameter("p%d" % i, t)
            f.add_parameter(p)
            ps.append(p)
        b = ir.Block("f_b")
        f.add_block(b)
        f.entry = b
        body(ir, m, f, ps, b)
        return m
    return build


def _w_init(ir, m, f, ps, b):
    g = ir.Variable("g", ir.Binding.GLOBAL, 4, 4, value=b"\x01\x02\x03\x04")
    m.add_variable(g)
    v = ir.Load(g, "v", ir.i32)
    b.add_instruction(v)
    b.add_instruction(ir.Return(v))


def _w_volatile(ir, m, f, ps, b):
    g = ir.Variable("g", ir.Binding.GLOBAL, 4, 4)
    m.add_variable(g)
    v = ir.Load(g, "v", ir.i32, volatile=True)
    b.add_instruction(v)
    b.add_instruction(ir.Return(v))


def _w_tilde(ir, m, f, ps, b):
    t = ir.Unop("~", ps[0], "t", ir.i32)
    b.add_instruction(t)
    b.add_instruction(ir.Return(t))


def _w_rol(ir, m, f, ps, b):
    t = ir.Binop(ps[0], "rol", ps[0], "t", ir.i32)
    b.add_instruction(t)
    b.add_instruction(ir.Return(t))


def _w_float(which):
    def body(ir, m, f, ps, b):
        c = ir.Const(which, "c", ir.f64)
        b.add_instruction(c)
        b.add_instruction(ir.Return(c))
    return body


def _w_undefined(ir, m, f, ps, b):
    u = ir.Undefined("und_x", ir.i32)
    b.add_instruction(u)
    b.add_instruction(ir.Return(ps[0]))


def _w_memcpy(ir, m, f, ps, b):
    a1 = ir.Alloc("a1", 4, 4)
    b.add_instruction(a1)
    p1 = ir.AddressOf(a1, "q1")
    b.add_instruction(p1)
    a2 = ir.Alloc("a2", 4, 4)
    b.add_instruction(a2)
    p2 = ir.AddressOf(a2, "q2")
    b.add_instruction(p2)
    b.add_instruction(ir.Store(ps[0], p1))
    b.add_instruction(ir.CopyBlob(p2, p1, 4))
    v = ir.Load(p2, "v", ir.i32)
    b.add_instruction(v)
    b.add_instruction(ir.Return(v))


def _w_asm(ir, m, f, ps, b):
    asm = ir.InlineAsm("nop", ["r0"])
    asm.add_input_variable(ps[0])
    b.add_instruction(asm)
    b.add_instruction(ir.Return(ps[0]))


def _w_uscore(ir, m, f, ps, b):
    g = ir.Variable("__txt_const_0", ir.Binding.LOCAL, 4, 4)
    m.add_variable(g)
    v = ir.Load(g, "v", ir.i32)
    b.add_instruction(v)
    b.add_instruction(ir.Return(v))


def _w_forward():
    from ppci import ir
    from vlib import irrt

    return irrt.directed_forward("binop", ir.u8)


def _w_forward_unop():
    from ppci import ir
    from vlib import irrt

    return irrt.directed_forward("unop", ir.i32)


def _w_forward_mixed():
    from ppci import ir
    from vlib import irrt

    return irrt.directed_mixed_forward(ir.i32)


def _w_forward_selfphi():
    from ppci import ir
    from vlib import irrt

    return irrt.directed_selfphi_forward(ir.u8)


def _w_paramclash():
    from ppci import api

    return api.c_to_ir(io.StringIO("int clash(int tmp, int alloca) { int z = tmp + alloca; return z * 2 + tmp; }"), "x86_64")


def _both(*probes):
    def run():
        for p in probes:
            r = p()
            if r:
                return r
        return None
    return run


_i32 = (lambda ir: ir.i32)
_f64 = (lambda ir: ir.f64)
_p_i32 = (lambda ir: [ir.i32])
_p_none = (lambda ir: [])

PROBES = {
    "text-initial-value-not-printed": _probe(_one(_i32, _p_none, _w_init)),
    "text-volatile-not-printed": _probe(_one(_i32, _p_none, _w_volatile)),
    "text-complement-unreadable": _probe(_one(_i32, _p_i32, _w_tilde)),
    "text-rotate-unreadable": _probe(_one(_i32, _p_i32, _w_rol)),
    "text-float-spelling-unreadable": _both(_probe(_one(_f64, _p_none, _w_float(1e30))),
                                            _probe(_one(_f64, _p_none, _w_float(1.5e-07))),
                                            _probe(_one(_f64, _p_none, _w_float(float("inf")))),
                                            _probe(_one(_f64, _p_none, _w_float(float("-inf")))),
                                            _probe(_one(_f64, _p_none, _w_float(float("nan"))))),
    "text-undefined-unreadable": _probe(_one(_i32, _p_i32, _w_undefined)),
    "text-memcpy-unreadable": _probe(_one(_i32, _p_i32, _w_memcpy)),
    "text-inline-asm-unreadable": _probe(_one(_i32, _p_i32, _w_asm)),
    "text-forward-reference-typed-i32": _both(_probe(_w_forward), _probe(_w_forward_unop), _probe(_w_forward_mixed),
                                              _probe(_w_forward_selfphi)),
    "text-underscore-name-unreadable": _probe(_one(_i32, _p_none, _w_uscore)),
    "parameter-name-not-reserved": _probe(_w_paramclash),
}
