"""C13 linker relaxation (RISC-V rvc) preserves program behaviour (DESIGN 4, C13).

Every case is linked twice from freshly built objects: once as ppci does it (relaxed) and once with
``Linker.do_relaxations`` replaced by a no-op *in this worker process only* (the reference link,
itself trusted only as far as C11 has checked relocation application).  Two oracles judge the pair:

structural (independent of the linker's hole bookkeeping)
    Both images of every section that carries instruction relocations are decoded instruction by
    instruction with ``vlib.rv32emu.decode`` (linear sweep; the instruction boundaries and branch
    targets of both sweeps are cross-checked against llvm-objdump-14 at the end of the shard - a
    disagreement there is inconclusive, never a verdict).  The relaxed stream must be the unrelaxed
    stream in which some 4-byte ``jal x0``/``jal ra`` at a cb_imm11/cbl_imm11 site became a 2-byte
    ``c.j``/``c.jal``; every other instruction must be byte-identical unless it is a relocation site
    (sites are taken from the *unrelaxed* output's relocation list), where mnemonic and registers
    must still agree.  The walk yields the offset map psi (unrelaxed offset -> relaxed offset) of
    every section.  Then
      * every relocation site is decoded in the relaxed image and must designate
        relaxed address of (symbol) = relaxed section address + psi(symbol offset)   [branches, jal,
        c.j, c.jal, c.beqz/c.bnez targets; %hi/%lo and %pcrel_hi/%pcrel_lo parts; absaddr32 words];
      * every symbol of the relaxed symbol table has value psi(unrelaxed value), same section;
      * every relocation record moved to psi(offset) (type bc_imm11 where shrunk);
      * the number of removed bytes of a section = 2 x relaxations seen by the decoder;
      * relaxed section addresses: multiple of the section alignment, inside the memory the layout
        put them in, no overlap, same order; data sections byte-identical outside relocation sites.
behavioural
    both images are loaded into ``vlib.rv32emu`` machines (same stack, same arguments) and run with
    a step budget: status, a0, the number of retired instructions and the final contents of all
    non-code sections (outside relocation sites) must agree.  Cases whose *unrelaxed* run does not
    return normally are discarded (not the relaxation's business).
A relaxed link that raises although the reference link succeeds is a violation.

Workload
    (i) "maze" objects: instruction objects of the rvc code-generator classes CB/CBl (the only
    producers of the relaxable cb_imm11/cbl_imm11) plus B, Bl, Beq/Bne, CJ, CBeqz/CBnez, Adru/Adrl,
    Adrurel/Adrlrel/Loadlrel, Dcd2 are emitted through BinaryOutputStream together with raw filler
    instructions: a DAG of blocks (entry ... exit) that mix an accumulator, read tables, call leaf
    subroutines (``jal rd`` with rd = ra, and - dial - rd = t0), jump directly, conditionally on the
    input, through address materialisation or through a jump table; physically shuffled over 1-3
    objects and the sections code/code2, separated by never-executed filler so that jump distances
    fall around the +-2 KiB shrink boundary (2040..2054, -2054..-2040 are aimed at explicitly);
    layouts with one or two code images, data before/after code in the same image or in its own.
    (ii) C programs from a small 32-bit generator in this file (loops, if/switch, calls across two
    translation units, global tables), compiled with ``ppci.api.cc(..., "riscv:rvc")``, linked with the
    runtime, executed through the ppci calling convention (arguments in a2.., result in a0).

Narrowed: ppci's riscv target is RV32 only, so "c.jal on RV64" cannot occur and is dropped;
debug information is not linked; partial links are not relaxed by ppci and not generated.
"""
import io

from vlib.core import rng, h

PROPERTY = "C13"
RULE = ("(i) generated maze objects (6-28 blocks, 0-4 leaf subroutines, 1-3 objects, sections code/code2/data, "
        "filler so that direct jumps sit around the +-2 KiB c.j boundary, one or two code images) and (ii) generated "
        "C programs compiled for riscv:rvc in two translation units; each linked with and without relaxation; "
        "non-trivial = pair in which the relaxed link shortened >= 1 jump and the program executed >= 1 shortened "
        "jump or call on some input; distinct by hash of the case")
ASSUMPTIONS = ["vlib.rv32emu decodes and executes RV32IMC correctly (own self-test; instruction boundaries and "
               "branch targets of every judged image are cross-checked against llvm-objdump-14 in the run)",
               "the unrelaxed link (Linker.do_relaxations = no-op in the worker) applies relocations correctly "
               "(C11); its sites are re-read with the same formulas and a mismatch is a discard",
               "RISC-V unprivileged spec: c.j = jal x0, c.jal = jal ra (RV32), immediates of J/B/CJ/CB/I/U formats"]
MANIFEST_ENTRY = {
    "text": "For every generated rvc program and object set, the relaxed link is the unrelaxed link with some jal "
            "replaced by c.j/c.jal and nothing else changed: every branch, call, address pair, data pointer, "
            "symbol and relocation record designates the same logical target through an address map derived by "
            "decoding both images, section addresses stay aligned and inside their memories, and both images "
            "compute the same results on the RV32IMC reference emulator.",
    "note": "RV32 only (no RV64 c.jal). Known findings switch off the constructs listed in known_findings.d/C13.json.",
    "technique": "runtime monitoring: differential link (relaxation on/off) + decoded address map + emulated execution",
}

F_RD = "jal-with-other-link-register-shrunk-to-c-jal"
F_ALIGN = "following-section-misaligned-after-relaxation"
F_CODEDATA = "aligned-data-in-relaxed-section-misaligned"
F_XIMG = "cross-image-jump-out-of-range-after-shrinking"

SHARDS = {"quick": 24, "thorough": 64}
MAZES = {"quick": 42, "thorough": 500}
CPROGS = {"quick": 5, "thorough": 40}


def EXHAUSTIVE(tier):
    return False


def plan(tier, seed, avoid):
    n = SHARDS.get(tier, 24)
    return [{"slice": s, "of": n, "mazes": MAZES.get(tier, 42), "cprogs": CPROGS.get(tier, 5)} for s in range(n)]


def floors(tier):
    return {"evaluations": 50000, "distinct_nontrivial": 300, "observed.relaxations_applied": 5000,
            "observed.pairs.maze": 400, "observed.pairs.c": 45, "observed.executed_pairs": 1500,
            "observed.shortened_executed": 300, "observed.not_shrunk_out_of_range": 3000,
            "observed.cross_section_jumps": 1000, "observed.llvm_lines_compared": 100000,
            "observed.near_boundary_jumps": 200, "observed.two_code_images": 100,
            "observed.shared_memory_pairs": 30, "observed.following_section_moved": 30,
            "observed.cross_image_jumps": 300}


# ---------------------------------------------------------------------------
# raw RV32IC encoders (RISC-V unprivileged spec ch. 2, 16) for the filler; the relocated instructions come
# from ppci's instruction classes


def _i(op, f3, rd, rs1, imm):
    return ((imm & 0xFFF) << 20 | rs1 << 15 | f3 << 12 | rd << 7 | op).to_bytes(4, "little")


def _r(f7, rs2, rs1, f3, rd):
    return (f7 << 25 | rs2 << 20 | rs1 << 15 | f3 << 12 | rd << 7 | 0x33).to_bytes(4, "little")


def _c(v):
    return (v & 0xFFFF).to_bytes(2, "little")


def addi(rd, rs1, imm):
    return _i(0x13, 0, rd, rs1, imm)


def andi(rd, rs1, imm):
    return _i(0x13, 7, rd, rs1, imm)


def slli(rd, rs1, sh):
    return _i(0x13, 1, rd, rs1, sh)


def lw(rd, rs1, imm):
    return _i(0x03, 2, rd, rs1, imm)


def jalr(rd, rs1, imm=0):
    return _i(0x67, 0, rd, rs1, imm)


def add(rd, rs1, rs2):
    return _r(0, rs2, rs1, 0, rd)


def xor(rd, rs1, rs2):
    return _r(0, rs2, rs1, 4, rd)


def c_nop():
    return _c(0x0001)


def c_addi(rd, imm):           # rd != 0, imm != 0, -32..31
    return _c(0 << 13 | ((imm >> 5) & 1) << 12 | rd << 7 | (imm & 31) << 2 | 1)


def c_li(rd, imm):
    return _c(2 << 13 | ((imm >> 5) & 1) << 12 | rd << 7 | (imm & 31) << 2 | 1)


def c_mv(rd, rs2):
    return _c(0b1000 << 12 | rd << 7 | rs2 << 2 | 2)


def c_add(rd, rs2):
    return _c(0b1001 << 12 | rd << 7 | rs2 << 2 | 2)


def c_slli(rd, sh):
    return _c(0 << 13 | 0 << 12 | rd << 7 | (sh & 31) << 2 | 2)


def c_jr(rs1):
    return _c(0b1000 << 12 | rs1 << 7 | 2)


A0, A2, A5, T0, T1, T2, S1, RA = 10, 12, 15, 5, 6, 7, 9, 1


def filler(r, nbytes):
    """valid, harmless instruction stream of exactly nbytes (even) on t3..t6"""
    out = bytearray()
    while len(out) < nbytes:
        left = nbytes - len(out)
        t = r.choice([28, 29, 30, 31])
        if left >= 4 and r.random() < 0.5:
            out += r.choice([addi(t, t, r.randrange(-100, 100)), xor(t, t, r.choice([28, 29, 30, 31])),
                             add(t, t, r.choice([28, 29, 30, 31])), slli(t, t, r.randrange(1, 8))])
        else:
            out += r.choice([c_nop(), c_addi(t, r.choice([1, 2, -1, 7])), c_li(t, r.randrange(-8, 8)),
                             c_mv(t, r.choice([28, 29, 30, 31]))])
    return bytes(out)


def acc_step(r, k):
    """a0 = a0 * 33 + k, in a 12-byte or an 8-byte spelling"""
    if r.random() < 0.5 or not (-32 <= k <= 31) or k == 0:
        return slli(T1, A0, 5) + add(A0, A0, T1) + addi(A0, A0, k)
    return c_mv(T1, A0) + c_slli(T1, 5) + c_add(A0, T1) + c_addi(A0, k)


# ---------------------------------------------------------------------------
# maze generator: spec = {"objects": [[op, ...], ...], "layout": ..., "entry": name, "inputs": [...]}
# ops: ["sec", name] ["raw", hex] ["label", name] ["global", name] and relocated instructions
#      ["cb", tgt] ["cbl", rd, tgt] ["b", tgt] ["bl", rd, tgt] ["beq"|"bne", rs1, rs2, tgt] ["cj", tgt]
#      ["cbeqz"|"cbnez", rn, tgt] ["lui", rd, tgt] ["lo", rd, rs1, tgt] ["auipc", rd, tgt] ["pclo", rd, tgt]
#      ["pclw", rd, tgt] ["dcd", tgt] ["align", n]

OPSIZE = {"cb": 4, "cbl": 4, "b": 4, "bl": 4, "beq": 4, "bne": 4, "cj": 2, "cjal": 2, "cbeqz": 2, "cbnez": 2,
          "lui": 4, "lo": 4, "auipc": 4, "pclo": 4, "pclw": 4, "dcd": 4}


def ops_size(ops):
    n = 0
    for op in ops:
        if op[0] == "raw":
            n += len(op[1]) // 2
        elif op[0] in OPSIZE:
            n += OPSIZE[op[0]]
    return n


def gen_maze(r, avoid, idx):
    nblocks = r.choice([6, 8, 10, 12, 16, 20, 28])
    nsub = r.choice([0, 1, 2, 3, 4])
    nobj = r.choice([1, 1, 2, 2, 3])
    two_code = r.random() < 0.5
    tabwords = [r.randrange(0, 1 << 31) for _ in range(8)]
    sub_rd = []
    for k in range(nsub):
        rd = RA
        if F_RD not in avoid and r.random() < 0.3:
            rd = T0
        sub_rd.append(rd)
    jt = []          # jump table entries (block labels)
    code_data = F_CODEDATA not in avoid and r.random() < 0.25     # aligned pointer words inside the code section
    units = []       # (name, [ops]) physical units: blocks and subroutines

    def B(i):
        return "B%d_%d" % (idx % 1000, i)

    def S(k):
        return "S%d_%d" % (idx % 1000, k)

    TAB, JT = "tab%d" % (idx % 1000), "jt%d" % (idx % 1000)
    uniq = [0]

    def loc():
        uniq[0] += 1
        return "L%d_%d" % (idx % 1000, uniq[0])

    def goto(ops, j, near_ok=False):
        k = r.random()
        if k < 0.62:
            ops.append(["cb", B(j)])
        elif k < 0.72:
            ops.append(["b", B(j)])
        elif k < 0.80:
            ops += [["auipc", T1, B(j)], ["pclo", T1, B(j)], ["raw", jalr(0, T1).hex()]]
        elif k < 0.87:
            ops += [["lui", T1, B(j)], ["lo", T1, T1, B(j)], ["raw", jalr(0, T1).hex()]]
        elif k < 0.94 and len(jt) < 8:
            slot = len(jt)
            jt.append(B(j))
            if r.random() < 0.5:
                ops += [["lui", T1, JT], ["lo", T1, T1, JT]]
            else:
                ops += [["auipc", T1, JT], ["pclo", T1, JT]]
            ops += [["raw", (lw(T1, T1, 4 * slot) + jalr(0, T1)).hex()]]
        else:
            # c.j to a trampoline right behind (always in range), which jumps on with a relaxable j
            l1 = loc()
            ops += [["cj", l1], ["raw", filler(r, r.choice([0, 2, 4, 10])).hex()], ["label", l1], ["cb", B(j)]]

    for i in range(nblocks):
        ops = [["label", B(i)]]
        if i == 0:
            ops.append(["raw", addi(S1, RA, 0).hex()])          # keep the return address
        ops.append(["raw", acc_step(r, r.randrange(-30, 31) or 5).hex()])
        if r.random() < 0.3:
            ops.append(["raw", filler(r, r.choice([2, 4, 6, 8, 12])).hex()])
        if r.random() < 0.35:       # read a table word
            w = r.randrange(8)
            kind = r.random()
            if kind < 0.4:
                ops += [["lui", T1, TAB], ["lo", T1, T1, TAB], ["raw", (lw(T2, T1, 4 * w) + add(A0, A0, T2)).hex()]]
            elif kind < 0.8:
                ops += [["auipc", T1, TAB], ["pclo", T1, TAB], ["raw", (lw(T2, T1, 4 * w) + add(A0, A0, T2)).hex()]]
            else:
                ops += [["auipc", T1, TAB], ["pclw", T1, TAB], ["raw", add(A0, A0, T1).hex()]]
        for _ in range(r.choice([0, 0, 1, 1, 2]) if nsub else 0):
            k = r.randrange(nsub)
            ops.append(["cbl", sub_rd[k], S(k)] if r.random() < 0.85 else ["bl", sub_rd[k], S(k)])
            ops.append(["raw", acc_step(r, r.randrange(1, 20)).hex()])
        if i == nblocks - 1:
            ops.append(["raw", (c_jr(S1) if r.random() < 0.5 else jalr(0, S1)).hex()])
        else:
            later = list(range(i + 1, nblocks))
            j = r.choice(later[:4]) if r.random() < 0.7 else r.choice(later)
            if r.random() < 0.45 and len(later) >= 2:
                # two-way branch on an input bit
                j2 = r.choice([x for x in later if x != j])
                bit = 1 << r.randrange(0, 10)
                l1 = loc()
                if r.random() < 0.5:
                    ops.append(["raw", andi(T1, A2, bit).hex()])
                    ops.append([r.choice(["beq", "bne"]), T1, 0, l1])
                else:
                    ops.append(["raw", andi(A5, A2, bit).hex()])
                    ops.append([r.choice(["cbeqz", "cbnez"]), A5, l1])
                goto(ops, j)
                ops.append(["label", l1])
                j = j2
            goto(ops, j)
        units.append((B(i), ops))
    for k in range(nsub):
        ops = [["label", S(k)], ["raw", acc_step(r, r.randrange(-20, 20) or 3).hex()]]
        if r.random() < 0.3:
            ops.append(["raw", filler(r, r.choice([2, 4, 8])).hex()])
        ops.append(["raw", (c_jr(sub_rd[k]) if r.random() < 0.5 else jalr(0, sub_rd[k])).hex()])
        units.append((S(k), ops))
    # physical order and placement: mostly topological (near jumps), sometimes fully shuffled
    order = list(range(len(units)))
    style = r.random()
    if style < 0.25:
        r.shuffle(order)
    else:
        subs = order[nblocks:]
        order = order[:nblocks]
        for _ in range(r.randrange(0, 2 + nblocks // 2)):
            a = r.randrange(len(order))
            b = min(len(order) - 1, a + r.choice([1, 1, 2, 3]))
            order[a], order[b] = order[b], order[a]
        for u in subs:
            order.insert(r.randrange(len(order) + 1), u)
    objs = [{"code": [], "code2": []} for _ in range(nobj)]
    first = r.choice(["code", "code2"])          # which code section comes first when they get images of their own
    second = "code2" if first == "code" else "code"
    bridge = None
    if two_code and r.random() < 0.6:
        # a direct jump from the end of `first` into the start of `second` (cross-image jump near the boundary)
        cands = [(a, ops[-1][1]) for a, (nm, ops) in enumerate(units) if ops[-1][0] == "cb"]
        names = {nm: k for k, (nm, _) in enumerate(units)}
        cands = [(a, names[t]) for a, t in cands if t in names and names[t] != a]
        if cands:
            bridge = r.choice(cands)
    for u in order:
        if bridge and u in bridge:
            continue
        oi = r.randrange(nobj)
        sec = "code2" if (two_code and r.random() < 0.35) else "code"
        objs[oi][sec].append(u)
    if bridge:
        objs[nobj - 1][first].append(bridge[0])
        objs[0][second].insert(0, bridge[1])
    boundary = 0
    objops = []
    for oi in range(nobj):
        ops = []
        for sec in ("code", "code2"):
            us = objs[oi][sec]
            if not us:
                continue
            ops.append(["sec", sec])
            if r.random() < 0.3 and not (bridge and sec == second and oi == 0):
                ops.append(["raw", filler(r, r.choice([2, 4, 6, 10])).hex()])
            for n, u in enumerate(us):
                name, uops = units[u]
                ops += uops
                if n + 1 < len(us):
                    k = r.random()
                    if k < 0.62:
                        pad = r.choice([0, 0, 2, 4, 8, 20, 64, 200])
                    elif k < 0.85:
                        # aim the last direct jump of this unit at the c.j boundary if it targets the next unit
                        nxt = units[us[n + 1]][0]
                        pad = r.choice([0, 600, 1500, 2100, 2600])
                        tail = 0
                        for op in reversed(uops):
                            if op[0] in ("cb", "cbl") and op[-1] == nxt:
                                want = r.choice([2040, 2042, 2044, 2046, 2048, 2050, 2052, 2054, 2046, 2048])
                                pad = max(0, want - tail - 4)
                                boundary += 1
                                break
                            tail += ops_size([op])
                        else:
                            # ... or the first direct jump/call of the next unit at this unit (backward)
                            head = 0
                            for op in units[us[n + 1]][1]:
                                if op[0] in ("cb", "cbl") and op[-1] == name:
                                    want = r.choice([2040, 2044, 2046, 2048, 2050, 2052, 2048, 2050])
                                    pad = max(0, want - ops_size(uops) - head)
                                    boundary += 1
                                    break
                                head += ops_size([op])
                    else:
                        pad = r.choice([1000, 1800, 1980, 2030, 2040, 2044, 2050, 2100, 2500, 3000])
                    pad -= pad % 2
                    if pad:
                        ops.append(["raw", filler(r, pad).hex()])
                    if code_data and r.random() < 0.5:
                        ops += [["align", 4], ["dcd", r.choice(units)[0]]]
        objops.append(ops)
    # data: table and jump table, in the last object (or its own)
    dops = [["sec", "data"]]
    if r.random() < 0.5:
        dops.append(["raw", bytes(r.randrange(256) for _ in range(4 * r.randrange(0, 4))).hex()])
    dops += [["label", TAB], ["raw", b"".join(w.to_bytes(4, "little") for w in tabwords).hex()], ["label", JT]]
    for t in jt:
        dops.append(["dcd", t])
    dops.append(["raw", bytes(8).hex()])
    objops[r.randrange(nobj)] += dops
    globals_ = sorted({units[u][0] for u in range(len(units))} | {TAB, JT})
    # layout (section sizes are known: sum of the op sizes plus alignment padding between objects)
    sizes = {}
    for ops in objops:
        cur = None
        for op in ops:
            if op[0] == "sec":
                cur = op[1]
                sizes[cur] = (sizes.get(cur, 0) + 3) // 4 * 4
            elif cur is not None:
                sizes[cur] = sizes.get(cur, 0) + ops_size([op]) + (3 if op[0] == "align" else 0)
    lay = gen_layout(r, two_code and "code2" in sizes and "code" in sizes, avoid, sizes=sizes, first=first,
                     bridge=(units[bridge[0]][0], units[bridge[1]][0]) if bridge else None, objops=objops,
                     allow_shared=T0 not in sub_rd)
    inputs = [r.randrange(0, 1 << 10) for _ in range(3)] + [0]
    return {"kind": "maze", "index": idx, "objects": objops, "globals": globals_, "layout": lay, "entry": B(0),
            "inputs": inputs, "aimed_at_boundary": boundary, "features": {"two_code": two_code, "nobj": nobj,
                                                                           "code_data": code_data,
                                                                           "t0_link": T0 in sub_rd}}


def section_map(objops):
    """{section: {"size": n, "labels": {name: offset}, "jumps": [(offset, target)]}} of the merged sections
    (every object's contribution starts 4-aligned)"""
    out = {}
    for ops in objops:
        cur = None
        for op in ops:
            if op[0] == "sec":
                cur = out.setdefault(op[1], {"size": 0, "labels": {}, "jumps": []})
                cur["size"] = (cur["size"] + 3) // 4 * 4
            elif cur is None:
                continue
            elif op[0] == "label":
                cur["labels"][op[1]] = cur["size"]
            elif op[0] == "align":
                cur["size"] = (cur["size"] + op[1] - 1) // op[1] * op[1]
            else:
                if op[0] in ("cb", "cbl"):
                    cur["jumps"].append((cur["size"], op[-1]))
                cur["size"] += ops_size([op])
    return out


def risky_cross_image(sm, addr):
    """A relaxable jump between two images whose distance can leave the c.j range once holes are punched:
    shrinkable before (-2048 <= d <= 2047) and, with k_s holes in front of the site and k_t in front of the
    target, d + 2 k_s > 2046 or d - 2 k_t < -2048 (upper bounds for the hole counts)."""
    where = {}
    for sec, m in sm.items():
        for name, off in m["labels"].items():
            where[name] = (sec, off)
    for sec, m in sm.items():
        if sec not in addr:
            continue
        for n, (off, tgt) in enumerate(m["jumps"]):
            if tgt not in where or where[tgt][0] == sec or where[tgt][0] not in addr:
                continue
            tsec, toff = where[tgt]
            d = addr[tsec] + toff - (addr[sec] + off)
            k_s = n
            k_t = len([1 for o, _ in sm[tsec]["jumps"] if o < toff])
            if -2048 <= d <= 2047 and (d + 2 * k_s > 2046 or d - 2 * k_t < -2048):
                return True
    return False


def gen_layout(r, two_code, avoid, data_name="data", sizes=None, first="code", bridge=None, objops=None,
               allow_shared=True):
    """memories as [name, location, size, [section names]]"""
    sizes = sizes or {}
    base = r.choice([0x1000, 0x4000, 0x10000, 0x20000, 0x7000]) + r.choice([0, 0, 0x100, 0x40])
    mems = []
    shape = r.random()
    big = 0x10000
    while big < 2 * sum(sizes.values()) + 0x1000:
        big *= 2
    shared = None
    if F_ALIGN in avoid and objops and r.random() < 0.45 and allow_shared:
        # sections sharing a memory are only generated when the number of jumps that will be shortened in front
        # of every following section is even (prediction from the distances before relaxation; the judge discards
        # the case if the prediction was wrong)
        sm = section_map(objops)
        orders = [["code", data_name]] if not two_code else [["code", "code2"], ["code2", "code"],
                                                              ["code", "code2", data_name]]
        order = r.choice(orders)
        if all(x in sm for x in order):
            addr, cur = {}, base
            for x in order:
                cur = (cur + 3) // 4 * 4
                addr[x] = cur
                cur += sm[x]["size"]
            rest = [x for x in sm if x not in order]
            for k, x in enumerate(rest):
                addr[x] = base + 0x80000 + k * 0x20000
            holes = predict_holes(sm, addr)
            pre = 0
            ok = True
            for x in order[:-1]:
                pre += holes.get(x, 0)
                if pre % 2:
                    ok = False
            if ok and sum(holes.get(x, 0) for x in order[:-1]) > 0:
                shared = {"order": order, "holes": holes, "rest": rest, "addr": addr}
    if shared:
        mems = [["flash", base, 4 * big, shared["order"]]]
        for x in shared["rest"]:
            mems.append(["m_" + x, shared["addr"][x], big, [x]])
    elif not two_code:
        if shape < 0.4:
            mems = [["flash", base, big, ["code"]], ["ram", base + 0x40000, big, [data_name]]]
        elif shape < 0.7 and F_ALIGN not in avoid:
            mems = [["flash", base, big, ["code", data_name]]]
        elif shape < 0.85:
            mems = [["flash", base, big, [data_name, "code"]]]
        else:
            mems = [["ram", base + 0x40000, big, [data_name]], ["flash", base, big, ["code"]]]
    else:
        gap = r.choice([0x800, 0x1000, 0x2000, 0x4000, 0x10000])
        if shape < 0.35 and F_ALIGN not in avoid:
            mems = [["flash", base, 3 * big, ["code", "code2"]], ["ram", base + 0x80000, big, [data_name]]]
        elif shape < 0.5 and F_ALIGN not in avoid:
            mems = [["flash", base, 3 * big, ["code2", "code"]], ["ram", base + 0x80000, big, [data_name]]]
        elif shape < 0.6 and F_ALIGN not in avoid:
            mems = [["flash", base, 3 * big, ["code", "code2", data_name]]]
        else:
            # two code images a few KiB apart: cross-image jumps near the boundary
            second = "code2" if first == "code" else "code"
            gap = (sizes.get(first, 0x800) + r.choice([0, 0, 4, 16, 64, 256, 1024, 4096]) + 15) // 16 * 16
            if bridge and objops:
                sm = section_map(objops)
                js = [o for o, t in sm.get(first, {}).get("jumps", []) if t == bridge[1]]
                to = sm.get(second, {}).get("labels", {}).get(bridge[1])
                if js and to is not None:
                    want = r.choice([2046, 2046, 2044, 2042, 2040, 2036, 2048, 2050, 2030, 2020])
                    if F_XIMG in avoid:      # stay clear of the window in which holes in front push it over
                        want = r.choice([2048, 2050, 2060, 2046 - 2 * len(sm[first]["jumps"]) - 2])
                    g = js[-1] + want - to
                    if g >= sizes.get(first, 0) and g % 4 == 0:
                        gap = g
            if F_XIMG in avoid and objops:
                for _ in range(8):
                    if not risky_cross_image(section_map(objops), {first: base, second: base + gap}):
                        break
                    gap += 0x1000
            mems = [["m1", base, gap, [first]], ["m2", base + gap, 2 * big, [second]],
                    ["ram", base + 0x80000, big, [data_name]]]
            if r.random() < 0.3:
                mems[0], mems[1] = mems[1], mems[0]
    return {"memories": [{"name": n, "location": loc, "size": size, "inputs": [["section", s] for s in secs]}
                         for n, loc, size, secs in mems], "entry": None,
            "predicted_holes": shared["holes"] if shared else None}


def predict_holes(sm, addr):
    """{section: number of cb/cbl jumps whose distance before relaxation lies in [-2048, 2047]}"""
    where = {}
    for sec, m in sm.items():
        for name, off in m["labels"].items():
            where[name] = (sec, off)
    out = {}
    for sec, m in sm.items():
        n = 0
        for off, tgt in m["jumps"]:
            if tgt in where and sec in addr and where[tgt][0] in addr:
                d = addr[where[tgt][0]] + where[tgt][1] - (addr[sec] + off)
                if -2048 <= d <= 2047:
                    n += 1
        out[sec] = n
    return out


# ---------------------------------------------------------------------------
# building ppci objects from op lists


def build_maze_objects(case):
    from ppci.api import get_arch
    from ppci.binutils.objectfile import ObjectFile
    from ppci.binutils.outstream import BinaryOutputStream
    from ppci.arch.generic_instructions import Label, Global, SectionInstruction, Alignment
    from ppci.arch.riscv import instructions as ri, rvc_instructions as rc
    from ppci.arch.riscv.registers import get_register
    from ppci.arch.data_instructions import Dcd2

    arch = get_arch("riscv:rvc")
    glob = set(case["globals"])
    out = []
    for ops in case["objects"]:
        obj = ObjectFile(arch)
        st = BinaryOutputStream(obj)
        R = get_register
        for op in ops:
            k = op[0]
            if k == "sec":
                st.emit(SectionInstruction(op[1]))
                for g in sorted(glob):          # cross-object references need the name declared global here too
                    st.emit(Global(g))
            elif k == "raw":
                st.current_section.add_data(bytes.fromhex(op[1]))
            elif k == "label":
                if op[1] in glob:
                    st.emit(Global(op[1]))
                st.emit(Label(op[1]))
            elif k == "align":
                st.emit(Alignment(op[1]))
            elif k == "cb":
                st.emit(rc.CB(op[1]))
            elif k == "cbl":
                st.emit(rc.CBl(R(op[1]), op[2]))
            elif k == "b":
                st.emit(ri.B(op[1]))
            elif k == "bl":
                st.emit(ri.Bl(R(op[1]), op[2]))
            elif k == "beq":
                st.emit(ri.Beq(R(op[1]), R(op[2]), op[3]))
            elif k == "bne":
                st.emit(ri.Bne(R(op[1]), R(op[2]), op[3]))
            elif k == "cj":
                st.emit(rc.CJ(op[1]))
            elif k == "cjal":
                st.emit(rc.CJal(op[1]))
            elif k == "cbeqz":
                st.emit(rc.CBeqz(R(op[1]), op[2]))
            elif k == "cbnez":
                st.emit(rc.CBnez(R(op[1]), op[2]))
            elif k == "lui":
                st.emit(ri.Adru(R(op[1]), op[2]))
            elif k == "lo":
                st.emit(ri.Adrl(R(op[1]), R(op[2]), op[3]))
            elif k == "auipc":
                st.emit(ri.Adrurel(R(op[1]), op[2]))
            elif k == "pclo":
                st.emit(ri.Adrlrel(R(op[1]), op[2]))
            elif k == "pclw":
                st.emit(ri.Loadlrel(R(op[1]), op[2], R(op[1])))
            elif k == "dcd":
                st.emit(Dcd2(op[1]))
            else:
                raise ValueError("unknown op %r" % (op,))
        out.append(obj)
    return out


# ---------------------------------------------------------------------------
# C programs (32-bit subset; UB does not matter here: both links run the same machine code)


def gen_c(r, idx, avoid):
    nfun = r.choice([3, 4, 5, 6, 8, 10, 12])
    glob = ["int g%d = %d;" % (i, r.randrange(-50, 50)) for i in range(3)]
    glob.append("int tab[8] = {%s};" % ", ".join(str(r.randrange(-9, 99)) for _ in range(8)))
    glob.append("int out[4];")
    units = [[], []]
    protos = []

    def expr(depth, vars_, fi):
        k = r.random()
        if depth <= 0 or k < 0.3:
            return r.choice(vars_ + [str(r.randrange(-20, 50)), "g%d" % r.randrange(3), "tab[%s & 7]" % r.choice(vars_)])
        if k < 0.75:
            op = r.choice(["+", "-", "*", "&", "|", "^"])
            return "(%s %s %s)" % (expr(depth - 1, vars_, fi), op, expr(depth - 1, vars_, fi))
        if k < 0.82:
            return "(%s %s %d)" % (expr(depth - 1, vars_, fi), r.choice(["<<", ">>"]), r.randrange(1, 5))
        if k < 0.9 and fi > 0:
            return "f%d(%s, %s)" % (r.randrange(fi), expr(depth - 1, vars_, fi), expr(depth - 1, vars_, fi))
        return "(%s %s %s)" % (expr(depth - 1, vars_, fi), r.choice(["<", "==", "!=", ">"]), expr(depth - 1, vars_, fi))

    def stmts(depth, vars_, fi, n):
        out = []
        for _ in range(n):
            k = r.random()
            v = r.choice(["s", "t"])
            if depth <= 0 or k < 0.4:
                out.append("%s = %s;" % (v, expr(2, vars_, fi)))
            elif k < 0.55:
                out.append("if (%s) { %s } else { %s }" % (expr(1, vars_, fi), " ".join(stmts(depth - 1, vars_, fi, 2)),
                                                         " ".join(stmts(depth - 1, vars_, fi, 1))))
            elif k < 0.7:
                out.append("for (i%d = 0; i%d < %d; i%d = i%d + 1) { %s }" % (
                    depth, depth, r.randrange(1, 6), depth, depth, " ".join(stmts(depth - 1, vars_ + ["i%d" % depth], fi, 2))))
            elif k < 0.8:
                cases = " ".join("case %d: %s break;" % (c, " ".join(stmts(0, vars_, fi, 1))) for c in range(r.randrange(2, 5)))
                out.append("switch (%s & 3) { %s default: %s }" % (r.choice(vars_), cases, " ".join(stmts(0, vars_, fi, 1))))
            elif k < 0.9:
                out.append("tab[%s & 7] = %s;" % (r.choice(vars_), expr(1, vars_, fi)))
            else:
                out.append("out[%d] = out[%d] + %s;" % (r.randrange(4), r.randrange(4), expr(1, vars_, fi)))
        return out

    for fi in range(nfun):
        body = stmts(2, ["a", "b", "s", "t"], fi, r.randrange(2, 6))
        src = "int f%d(int a, int b) { int s = a; int t = b; int i1 = 0; int i2 = 0; %s return s + t; }" % (
            fi, " ".join(body))
        protos.append("int f%d(int a, int b);" % fi)
        units[r.randrange(2)].append(src)
    calls = " ".join("r = r * 31 + f%d(x + %d, y ^ r);" % (r.randrange(nfun), k) for k in range(r.randrange(2, 6)))
    units[r.randrange(2)].append("int entry(int x, int y) { int r = 1; %s return r + out[0] + out[3] + tab[2]; }" % calls)
    decl = ["extern int g0; extern int g1; extern int g2; extern int tab[8]; extern int out[4];"] + protos
    srcs = ["\n".join(glob + protos + units[0]), "\n".join(decl + units[1])]
    two_code = False
    return {"kind": "c", "index": idx, "sources": srcs, "opt": r.choice([0, 0, 2]), "entry": "entry",
            "layout": gen_layout(r, two_code, avoid), "inputs": [[r.randrange(-5, 40), r.randrange(-5, 40)] for _ in range(3)]}


def build_c_objects(case):
    """Compile once (ppci's riscv code generation is not deterministic between two compilations in one process,
    C30) and hand out copies of the same object files to both links."""
    from ppci.api import cc
    from vlib import objgen

    if "_specs" not in case:
        objs = [cc(io.StringIO(s), "riscv:rvc", opt_level=case["opt"]) for s in case["sources"]]
        case["_specs"] = [objgen.obj_to_spec(o) for o in objs]
    return [objgen.build_object(s) for s in case["_specs"]]


# ---------------------------------------------------------------------------
# linking both ways


def link_both(case):
    """-> (plain, relaxed); each ("ok", obj) | ("raised", exc)"""
    from vlib import objgen
    from ppci.api import link
    from ppci.binutils.linker import Linker

    build = build_maze_objects if case["kind"] == "maze" else build_c_objects
    rt = case["kind"] == "c"
    res = []
    for relax in (False, True):
        objs = build(case)
        lay = objgen.build_layout(case["layout"])
        orig = Linker.do_relaxations
        if not relax:
            Linker.do_relaxations = lambda self: None      # reference link: harness process only
        try:
            res.append(("ok", link(objs, layout=lay, use_runtime=rt)))
        except BaseException as e:  # judged by the caller
            res.append(("raised", e))
        finally:
            Linker.do_relaxations = orig
    return res[0], res[1]


# ---------------------------------------------------------------------------
# structural oracle

INSN_TYPES = {"b_imm12", "b_imm20", "cb_imm11", "cbl_imm11", "bc_imm11", "bc_imm8", "abs32_imm20", "abs32_imm12",
              "rel_imm20", "rel_imm12"}
DATA_TYPES = {"absaddr32": 4, "absaddr16": 2, "absaddr64": 8}
RELAXABLE = {"cb_imm11", "cbl_imm11"}


def sext(v, bits):
    v &= (1 << bits) - 1
    return v - (1 << bits) if v >> (bits - 1) else v


class Bad(Exception):
    pass


def walk(u, r, sites, mon):
    """Decode both byte strings in lock step.  sites: {unrelaxed offset: reloc type}.
    Returns (psi, relaxed_offsets_of_shrunk, n_cross) or raises Bad(description)."""
    from vlib import rv32emu

    i = j = 0
    psi = {}
    shrunk = {}
    while i < len(u) and j < len(r):
        psi[i] = j
        t = sites.get(i)
        if t in DATA_TYPES:
            n = DATA_TYPES[t]
            i += n
            j += n
            continue
        try:
            du = rv32emu.decode(bytes(u[i:i + 4]))
            dr = rv32emu.decode(bytes(r[j:j + 4]))
        except ValueError:
            raise Bad("truncated instruction at unrelaxed offset %#x / relaxed offset %#x" % (i, j))
        if du.length == dr.length:
            same_fields = (du.mnemonic, du.rd, du.rs1, du.rs2) == (dr.mnemonic, dr.rd, dr.rs1, dr.rs2)
            if du.raw != dr.raw:
                if t is None:
                    raise Bad("instruction at unrelaxed offset %#x (%s) differs from the relaxed one at %#x (%s) "
                              "and is not a relocation site" % (i, rv32emu.disasm(du), j, rv32emu.disasm(dr)))
                if not same_fields:
                    raise Bad("relocation site at unrelaxed offset %#x changed from %s to %s" % (
                        i, rv32emu.disasm(du), rv32emu.disasm(dr)))
            i += du.length
            j += dr.length
            continue
        if du.length == 4 and dr.length == 2 and du.mnemonic == "jal" and dr.mnemonic in ("c.j", "c.jal"):
            if t not in RELAXABLE:
                raise Bad("jal at unrelaxed offset %#x was shortened although its relocation type is %r" % (i, t))
            implied = 0 if dr.mnemonic == "c.j" else 1
            if du.rd != implied:
                raise Bad("jal x%d at unrelaxed offset %#x was shortened to %s, which links through x%d" % (
                    du.rd, i, dr.mnemonic, implied))
            shrunk[i] = j
            i += 4
            j += 2
            continue
        raise Bad("streams diverge at unrelaxed offset %#x (%s, %d bytes) / relaxed offset %#x (%s, %d bytes)" % (
            i, rv32emu.disasm(du), du.length, j, rv32emu.disasm(dr), dr.length))
    if i != len(u) or j != len(r):
        raise Bad("one stream ends early: unrelaxed %d of %d bytes, relaxed %d of %d bytes" % (i, len(u), j, len(r)))
    psi[len(u)] = len(r)
    return psi, shrunk


def designated(insn, typ, pc, raw_word=None):
    """what a relocation site designates, per relocation type (RISC-V spec formats); parts return the part"""
    if typ in ("b_imm12", "b_imm20", "cb_imm11", "cbl_imm11", "bc_imm11", "bc_imm8"):
        return insn.target
    return insn.imm


def expected(typ, E, pc):
    if typ in ("b_imm12", "b_imm20", "cb_imm11", "cbl_imm11", "bc_imm11", "bc_imm8"):
        return E
    if typ == "abs32_imm20":
        return ((E + 0x800) >> 12) & 0xFFFFF
    if typ == "abs32_imm12":
        return sext(E, 12)
    if typ == "rel_imm20":
        return ((E - pc + 0x800) >> 12) & 0xFFFFF
    if typ == "rel_imm12":
        return sext(E - (pc - 4), 12)
    raise KeyError(typ)


def structural(case, plain, relaxed, mon):
    """Returns dict with psi per section etc.; appends violations through mon.  None if judged violated."""
    from vlib import rv32emu

    ob = mon.observed
    # sites of the unrelaxed output
    sym_u = {s.id: s for s in plain.symbols}
    sites = {}
    for rel in plain.relocations:
        sites.setdefault(rel.section, {})[rel.offset] = (rel.reloc_type, rel.symbol_id)
    names_u = [s.name for s in plain.sections]
    names_r = [s.name for s in relaxed.sections]
    if names_u != names_r:
        mon.violation("sections differ: unrelaxed %r, relaxed %r" % (names_u, names_r), case)
        return None
    psi = {}
    shrunk = {}
    total_shrunk = 0
    for su in plain.sections:
        sr = relaxed.get_section(su.name)
        ss = sites.get(su.name, {})
        is_code = any(t in INSN_TYPES for t, _ in ss.values())
        if is_code:
            try:
                p, sh = walk(su.data, sr.data, {o: t for o, (t, _) in ss.items()}, mon)
            except Bad as e:
                mon.violation("section %s: %s" % (su.name, e), case)
                return None
            psi[su.name], shrunk[su.name] = p, sh
            if len(su.data) - len(sr.data) != 2 * len(sh):
                mon.violation("section %s lost %d bytes but the decoder saw %d shortened jumps" % (
                    su.name, len(su.data) - len(sr.data), len(sh)), case)
                return None
            total_shrunk += len(sh)
            ob["holes_per_section"][str(min(len(sh), 20))] = ob["holes_per_section"].get(str(min(len(sh), 20)), 0) + 1
        else:
            if len(su.data) != len(sr.data):
                mon.violation("section %s without instruction relocations changed size %d -> %d" % (
                    su.name, len(su.data), len(sr.data)), case)
                return None
            psi[su.name] = None      # identity
            spans = [(o, o + DATA_TYPES.get(t, 4)) for o, (t, _) in ss.items()]
            for k, (a, b) in enumerate(zip(su.data, sr.data)):
                if a != b and not any(x <= k < y for x, y in spans):
                    mon.violation("data section %s byte %d changed %02x -> %02x outside any relocation site" % (
                        su.name, k, a, b), case)
                    return None

    def P(sec, off):
        m = psi.get(sec)
        if m is None:
            return off
        return m.get(off)

    def addr_r(sym):
        """relaxed address the symbol must have"""
        if sym.section is None:
            return sym.value
        o = P(sym.section, sym.value)
        if o is None:
            return None
        return relaxed.get_section(sym.section).address + o

    # symbols
    if len(plain.symbols) != len(relaxed.symbols):
        mon.violation("symbol tables differ in length", case)
        return None
    for a, b in zip(plain.symbols, relaxed.symbols):
        mon.evals += 1
        if (a.name, a.section, a.binding) != (b.name, b.section, b.binding):
            mon.violation("symbol %s/%s differs in name, section or binding" % (a.name, b.name), case)
            return None
        if a.section is None:
            want = a.value
        else:
            want = P(a.section, a.value)
        if want is None or b.value != want:
            mon.violation("symbol %s in %s: unrelaxed offset %#x must become %s, relaxed symbol table says %#x" % (
                a.name, a.section, a.value, "%#x" % want if want is not None else "(inside a removed half)",
                b.value), case)
            return None
    # relocation records
    recs_r = {}
    for rel in relaxed.relocations:
        recs_r.setdefault((rel.section, rel.offset), []).append(rel)
    if len(plain.relocations) != len(relaxed.relocations):
        mon.violation("number of relocation records changed %d -> %d" % (
            len(plain.relocations), len(relaxed.relocations)), case)
        return None
    for rel in plain.relocations:
        mon.evals += 1
        o = P(rel.section, rel.offset)
        hits = recs_r.get((rel.section, o), [])
        was_shrunk = rel.offset in shrunk.get(rel.section, {})
        wt = "bc_imm11" if was_shrunk else rel.reloc_type
        if not any(x.reloc_type == wt and x.symbol_id == rel.symbol_id and x.addend == rel.addend for x in hits):
            mon.violation("relocation %s at %s+%#x: no record %s at relaxed offset %s (found %r)" % (
                rel.reloc_type, rel.section, rel.offset, wt, o, [(x.reloc_type, x.symbol_id) for x in hits]), case)
            return None
    # sites: designated addresses
    image_of = {s.name: img.name for img in relaxed.images for s in img.sections}
    n_sites = 0
    for sec, ss in sites.items():
        su, sr = plain.get_section(sec), relaxed.get_section(sec)
        for off, (typ, sid) in sorted(ss.items()):
            sym = sym_u[sid]
            Eu = plain.get_symbol_id_value(sid)
            Er = addr_r(sym)
            orr = P(sec, off)
            mon.evals += 1
            n_sites += 1
            if Er is None or orr is None:
                mon.violation("site %s+%#x or its symbol %s lies inside a removed half instruction" % (
                    sec, off, sym.name), case)
                return None
            if typ in DATA_TYPES:
                n = DATA_TYPES[typ]
                wu = int.from_bytes(su.data[off:off + n], "little")
                wr = int.from_bytes(sr.data[orr:orr + n], "little")
                if wu != Eu & ((1 << 8 * n) - 1):
                    mon.disc("unrelaxed-link-wrong")
                    continue
                if wr != Er & ((1 << 8 * n) - 1):
                    mon.violation("%s word at %s+%#x holds %#x after relaxation, symbol %s is at %#x" % (
                        typ, sec, orr, wr, sym.name, Er), case)
                    return None
                continue
            if typ not in INSN_TYPES:
                mon.disc("unknown-relocation-type-" + typ)
                continue
            pcu, pcr = su.address + off, sr.address + orr
            iu = rv32emu.decode(bytes(su.data[off:off + 4]), pc=pcu)
            ir = rv32emu.decode(bytes(sr.data[orr:orr + 4]), pc=pcr)
            if designated(iu, typ, pcu) != expected(typ, Eu, pcu):
                mon.disc("unrelaxed-link-wrong")
                continue
            tr = "bc_imm11" if off in shrunk.get(sec, {}) else typ
            got, want = designated(ir, tr, pcr), expected(tr, Er, pcr)
            if got != want:
                mon.violation("%s at %s+%#x (%s, relaxed address %#x) designates %#x, symbol %s is at %#x "
                              "(expected field value %#x)" % (tr, sec, orr, rv32emu.disasm(ir), pcr, got, sym.name,
                                                              Er, want), case)
                return None
            # statistics
            if typ in RELAXABLE:
                d = Eu - pcu
                if off in shrunk.get(sec, {}):
                    pass
                elif not -2048 <= d <= 2047:
                    ob["not_shrunk_out_of_range"] += 1
                if 2030 <= abs(d) <= 2064:
                    ob["near_boundary_jumps"] += 1
            if sym.section is not None and sym.section != sec and typ in INSN_TYPES and iu.mnemonic in (
                    "jal", "c.j", "c.jal", "beq", "bne", "c.beqz", "c.bnez"):
                ob["cross_section_jumps"] += 1
                if image_of.get(sym.section) != image_of.get(sec):
                    ob["cross_image_jumps"] += 1
    ob["sites_checked"] += n_sites
    # a relaxable jump that stayed long although it was in range before relaxation is allowed (no verdict)
    # section addresses
    mems = {m["name"]: m for m in case["layout"]["memories"]}
    for img in relaxed.images:
        m = mems.get(img.name)
        prev_end = None
        for s in img.sections:
            mon.evals += 1
            if s.address % max(1, s.alignment):
                mon.violation("after relaxation section %s (alignment %d) starts at %#x" % (
                    s.name, s.alignment, s.address), case)
                return None
            if prev_end is not None and s.address < prev_end:
                mon.violation("after relaxation section %s at %#x overlaps its predecessor ending at %#x" % (
                    s.name, s.address, prev_end), case)
                return None
            prev_end = s.address + s.size
            if m is not None and not (m["location"] <= s.address and s.address + s.size <= m["location"] + m["size"]):
                mon.violation("after relaxation section %s [%#x, %#x) lies outside memory %s" % (
                    s.name, s.address, s.address + s.size, img.name), case)
                return None
    for su in plain.sections:
        sr = relaxed.get_section(su.name)
        if sr.address < su.address:
            ob["following_section_moved"] += 1
        if sr.address > su.address:
            mon.violation("section %s moved up from %#x to %#x" % (su.name, su.address, sr.address), case)
            return None
    ob["relaxations_applied"] += total_shrunk
    return {"psi": psi, "shrunk": shrunk, "total": total_shrunk, "sites": sites}


# ---------------------------------------------------------------------------
# behavioural oracle

STACK = 0x7F0000
STEPS = 300000


def run_image(obj, entry, args, code_sections):
    from vlib import rv32emu

    m = rv32emu.Machine()
    for s in obj.sections:
        if s.size:
            m.add_region(s.address, bytes(s.data), s.name not in code_sections, s.name)
    m.add_region(STACK, 0x8000, True, "stack")
    addr = obj.get_symbol_value(entry)
    res = m.call(addr, args, max_steps=STEPS)
    mem = {}
    for s in obj.sections:
        if s.size and s.name not in code_sections:
            mem[s.name] = bytes(m.read_mem(s.address, s.size))
    return res, mem, m


def behavioural(case, plain, relaxed, st, mon):
    ob = mon.observed
    code_sections = {n for n, p in st["psi"].items() if p is not None}
    executed_short = False
    for inp in case["inputs"]:
        if case["kind"] == "maze":
            args = (7, 0, inp)
        else:
            args = (0, 0, inp[0], inp[1])
        try:
            ru, mu, Mu = run_image(plain, case["entry"], args, code_sections)
        except Exception as e:  # overlapping regions etc.: my layout
            mon.disc("emulator-setup-%s" % type(e).__name__)
            return
        if ru.status != "ret":
            mon.disc("unrelaxed-run-" + ru.status.replace(":", "-"))
            continue
        try:
            rr, mr, Mr = run_image(relaxed, case["entry"], args, code_sections)
        except Exception as e:
            mon.evals += 1
            mon.violation("relaxed image cannot be loaded: %s: %s" % (type(e).__name__, e), case)
            return
        mon.evals += 1
        ob["executed_pairs"] += 1
        if rr.status != ru.status or rr.a0 != ru.a0 or rr.steps != ru.steps:
            f = Mr.fault
            mon.violation("input %r: unrelaxed image returns a0=%#x after %d instructions, relaxed image: %s a0=%#x "
                          "after %d instructions%s" % (inp, ru.a0, ru.steps, rr.status, rr.a0, rr.steps,
                                                       " (fault at pc %#x addr %s)" % (f.pc, f.addr) if f else ""),
                          case)
            return
        for name in mu:
            ss = st["sites"].get(name, {})
            spans = [(o, o + DATA_TYPES.get(t, 4)) for o, (t, _) in ss.items()]
            a, b = mu[name], mr.get(name, b"")
            if len(a) != len(b) or any(x != y and not any(p <= k < q for p, q in spans)
                                       for k, (x, y) in enumerate(zip(a, b))):
                mon.violation("input %r: final contents of section %s differ between the two images" % (inp, name),
                              case)
                return
        if Mr.hist.get("c.j", 0) + Mr.hist.get("c.jal", 0) > Mu.hist.get("c.j", 0) + Mu.hist.get("c.jal", 0):
            executed_short = True
    if executed_short:
        ob["shortened_executed"] += 1
    return executed_short


# ---------------------------------------------------------------------------


class Mon:
    def __init__(self, spec):
        self.avoid = set(spec["avoid"])
        self.evals = 0
        self.viol = []
        self.samples = []
        self.hashes = set()
        self.discarded = {}
        self.inconclusive = []
        self.llvm_jobs = []
        self.observed = {"relaxations_applied": 0, "pairs": {"maze": 0, "c": 0}, "executed_pairs": 0,
                         "shortened_executed": 0, "not_shrunk_out_of_range": 0, "cross_section_jumps": 0,
                         "near_boundary_jumps": 0, "holes_per_section": {}, "sites_checked": 0,
                         "llvm_lines_compared": 0, "two_code_images": 0, "pairs_without_relaxation": 0,
                         "relaxed_link_raised": 0, "aimed_at_boundary": 0, "features": {},
                         "shared_memory_pairs": 0, "following_section_moved": 0, "cross_image_jumps": 0}

    def violation(self, summary, case):
        self.flagged = (case["kind"], case["index"])
        if len(self.viol) < 5:
            self.viol.append({"summary": "%s %d: %s" % (case["kind"], case["index"], summary),
                              "case": {"case": {k: v for k, v in case.items() if k != "_specs"}},
                              "replay_spec": None})

    def disc(self, why):
        self.discarded[why] = self.discarded.get(why, 0) + 1


def judge_case(case, mon):
    ob = mon.observed
    if case["kind"] == "c":
        try:
            build_c_objects(case)       # compiled once; a compiler failure is C29's business, not the linker's
        except BaseException as e:
            mon.disc("compile-failed-%s" % type(e).__name__)
            return
    (su, plain), (sr, relaxed) = link_both(case)
    if su != "ok":
        mon.disc("unrelaxed-link-raised-%s" % type(plain).__name__)
        return
    ob["pairs"][case["kind"]] += 1
    mon.evals += 1
    if sr != "ok":
        ob["relaxed_link_raised"] += 1
        mon.violation("the link with relaxation raises %s: %s, the link without relaxation succeeds" % (
            type(relaxed).__name__, str(relaxed)[:120]), case)
        return
    pred = case["layout"].get("predicted_holes")
    if pred:
        for name, n in pred.items():
            a, b = plain.get_section(name), relaxed.get_section(name)
            if a.size - b.size != 2 * n:
                mon.disc("hole-prediction-wrong")      # the case contains the construct the open finding avoids
                return
        ob["shared_memory_pairs"] += 1
    st = structural(case, plain, relaxed, mon)
    if st is None:
        return
    if st["total"] == 0:
        ob["pairs_without_relaxation"] += 1
    if len([m for m in case["layout"]["memories"] if any(i[1].startswith("code") for i in m["inputs"])]) > 1:
        ob["two_code_images"] += 1
    for k, v in case.get("features", {}).items():
        if v is True:
            ob["features"][k] = ob["features"].get(k, 0) + 1
    ob["aimed_at_boundary"] += case.get("aimed_at_boundary", 0)
    ex = behavioural(case, plain, relaxed, st, mon)
    if getattr(mon, "flagged", None) == (case["kind"], case["index"]):
        return
    if st["total"] > 0 and ex:
        mon.hashes.add(h({k: v for k, v in case.items() if k != "_specs"}))
    # llvm cross-check jobs: code sections of both images
    for name, p in st["psi"].items():
        if p is None:
            continue
        for tag, ob_ in (("u", plain), ("r", relaxed)):
            s = ob_.get_section(name)
            skip = {o if tag == "u" else p[o] for o, (t, _) in st["sites"].get(name, {}).items() if t in DATA_TYPES}
            mon.llvm_jobs.append((case["kind"], case["index"], name, tag, bytes(s.data), s.address, skip))
    if len(mon.samples) < 2 and st["total"] > 0 and ex:
        mon.samples.append({"kind": case["kind"], "index": case["index"], "relaxations": st["total"],
                            "sections": {s.name: [hex(plain.get_section(s.name).address), plain.get_section(s.name).size,
                                                  hex(s.address), s.size] for s in relaxed.sections},
                            "source": case.get("sources", ["(maze: %d ops)" % sum(len(o) for o in case.get("objects", []))])[0][:400]})


def llvm_crosscheck(mon):
    """Instruction boundaries and control-transfer targets of my sweeps vs llvm-objdump (inconclusive on mismatch)."""
    from vlib import refdis, rv32emu

    if not mon.llvm_jobs:
        return
    if not refdis.available("riscv:rvc"):
        mon.inconclusive.append("llvm-objdump-14 missing: decoder cross-check impossible")
        return
    jobs, total = [], 0
    for j in mon.llvm_jobs:            # the relaxed images first, bounded volume per shard
        if j[3] == "r" and total < 50000:
            jobs.append(j)
            total += len(j[4])
    for j in mon.llvm_jobs:
        if j[3] == "u" and total < 65000:
            jobs.append(j)
            total += len(j[4])
    dec = []
    for k in range(0, len(jobs), 40):
        dec.extend(refdis.decode("riscv:rvc", [j[4] for j in jobs[k:k + 40]]))
    for (kind, idx, name, tag, data, address, skip), d in zip(jobs, dec):
        if d.status in ("missing", "tool-crash"):
            mon.disc("llvm-crosscheck-tool-failed")
            continue
        lines = {off - d.offset: (nb, text) for off, nb, text in d.lines}
        pos = 0
        while pos < len(data):
            if pos in skip:
                pos += 4
                continue
            ins = rv32emu.decode(data[pos:pos + 4], pc=pos)
            ln = lines.get(pos)
            mon.observed["llvm_lines_compared"] += 1
            if ln is None or (ln[0] != ins.length and not ins.is_illegal and not refdis.is_invalid(ln[1])):
                mon.inconclusive.append("decoder cross-check: %s %d section %s(%s) offset %#x: rv32emu %s (%d bytes), "
                                        "llvm %r" % (kind, idx, name, tag, pos, rv32emu.disasm(ins), ins.length, ln))
                return
            if ins.mnemonic in ("jal", "c.j", "c.jal", "beq", "bne", "c.beqz", "c.bnez") and not refdis.is_invalid(ln[1]):
                nr = refdis.norm_ref("riscv:rvc", ln[1])
                ints = [a for a in (nr[1] if nr else []) if isinstance(a, int)]
                if ints and (ints[-1] - d.offset) & 0xFFFFFFFF != ins.target & 0xFFFFFFFF:
                    mon.inconclusive.append("decoder cross-check: target of %s at %#x: rv32emu %#x, llvm %#x" % (
                        ins.mnemonic, pos, ins.target, ints[-1] - d.offset))
                    return
            pos += ins.length


def run_shard(spec):
    mon = Mon(spec)
    only = spec.get("only")
    todo = []
    if only:
        todo = [tuple(only)]
    else:
        for k in range(spec["mazes"]):
            todo.append(("maze", spec["slice"] + k * spec["of"]))
        for k in range(spec["cprogs"]):
            todo.append(("c", spec["slice"] + k * spec["of"]))
    for kind, idx in todo:
        r = rng(spec["seed"], PROPERTY, "%s/%d" % (kind, idx))
        try:
            case = gen_maze(r, mon.avoid, idx) if kind == "maze" else gen_c(r, idx, mon.avoid)
        except Exception:
            import traceback

            return {"evaluations": mon.evals, "inconclusive": ["generator failed for %s/%d: %s" % (
                kind, idx, traceback.format_exc()[-500:])]}
        nv = len(mon.viol)
        try:
            judge_case(case, mon)
        except Exception:
            import traceback

            mon.inconclusive.append("harness error in %s/%d: %s" % (kind, idx, traceback.format_exc()[-600:]))
            break
        for v in mon.viol[nv:]:
            v["replay_spec"] = dict(spec, only=[kind, idx])
    llvm_crosscheck(mon)
    for v in mon.viol:
        if v.get("replay_spec") is None:
            v.pop("replay_spec", None)
    return {"evaluations": mon.evals, "nontrivial_hashes": sorted(mon.hashes), "observed": mon.observed,
            "discarded": mon.discarded, "samples": mon.samples[:1], "violations": mon.viol,
            "inconclusive": mon.inconclusive[:3]}


# ---------------------------------------------------------------------------
# witness probes


def _probe_case(objects, mems, globals_=()):
    return {"kind": "maze", "index": 0, "objects": objects, "globals": list(globals_), "entry": None, "inputs": [],
            "layout": {"memories": [{"name": n, "location": loc, "size": size, "inputs": [["section", x] for x in secs]}
                                    for n, loc, size, secs in mems], "entry": None}}


def probe_rd():
    from vlib import rv32emu

    ops = [["sec", "code"], ["cbl", T0, "sub"], ["raw", c_jr(RA).hex()], ["label", "sub"], ["raw", c_jr(T0).hex()]]
    (su, plain), (sr, relaxed) = link_both(_probe_case([ops], [["flash", 0x1000, 0x1000, ["code"]]]))
    if su != "ok" or sr != "ok":
        return "link raised: %r %r" % (plain, relaxed)
    iu = rv32emu.decode(bytes(plain.get_section("code").data[0:4]))
    ir = rv32emu.decode(bytes(relaxed.get_section("code").data[0:4]))
    if ir.mnemonic == "c.jal" and iu.rd == T0:
        return "`jal t0, sub` (links through x5) is shortened to `c.jal sub`, which links through ra"
    return None


def probe_align():
    ops = [["sec", "code"], ["cb", "l"], ["label", "l"], ["raw", c_jr(RA).hex()], ["raw", c_nop().hex()],
           ["sec", "data"], ["raw", "11223344"]]
    (su, plain), (sr, relaxed) = link_both(_probe_case([ops], [["flash", 0x1000, 0x1000, ["code", "data"]]]))
    if su != "ok" or sr != "ok":
        return "link raised: %r %r" % (plain, relaxed)
    d = relaxed.get_section("data")
    if d.address % d.alignment:
        return "code (one shortened jump) and data in one memory: data (alignment %d) moves from %#x to %#x" % (
            d.alignment, plain.get_section("data").address, d.address)
    return None


def probe_codedata():
    ops = [["sec", "code"], ["cb", "l"], ["label", "l"], ["raw", jalr(0, RA).hex()], ["align", 4], ["dcd", "l"]]
    (su, plain), (sr, relaxed) = link_both(_probe_case([ops], [["flash", 0x1000, 0x1000, ["code"]]]))
    if su != "ok":
        return "unrelaxed link raised %r" % (plain,)
    if sr != "ok":
        return "`j l; l: ret; align 4; dcd =l` links without relaxation, with relaxation link raises %s (the " \
               "pointer word is no longer 4-aligned)" % type(relaxed).__name__
    sec = relaxed.get_section("code")
    off = [x.offset for x in relaxed.relocations if x.reloc_type == "absaddr32"][0]
    if (sec.address + off) % 4:
        return "aligned pointer word behind a shortened jump ends up at %#x" % (sec.address + off)
    return None


def probe_ximg():
    from vlib import rv32emu

    # first image: j near (shortened: a hole in front of the second jump), filler, j far -> `far` in the second image
    # at distance 2046 before relaxation; afterwards the distance is 2048, outside the c.j range
    body = [["sec", "code"], ["cb", "near"], ["label", "near"], ["raw", c_nop().hex() * 3], ["cb", "far"],
            ["sec", "code2"], ["label", "far"], ["raw", jalr(0, RA).hex()]]
    site = 4 + 6
    (su, plain), (sr, relaxed) = link_both(_probe_case(
        [body], [["m1", 0x1000, 0x100, ["code"]], ["m2", 0x1000 + site + 2046, 0x100, ["code2"]]], ["far"]))
    if su != "ok":
        return "unrelaxed link raised %r" % (plain,)
    if sr != "ok":
        return "cross-image jump: link with relaxation raises %s, without it succeeds" % type(relaxed).__name__
    far = relaxed.get_symbol_value("far")
    sec = relaxed.get_section("code")
    pos = 2 + 6
    ins = rv32emu.decode(bytes(sec.data[pos:pos + 4]), pc=sec.address + pos)
    if ins.target != far:
        return "`j far` 2046 bytes in front of a symbol in another image is shortened; a hole in front of it makes " \
               "the distance 2048 and the c.j now jumps to %#x instead of %#x" % (ins.target, far)
    return None


PROBES = {F_RD: probe_rd, F_ALIGN: probe_align, F_CODEDATA: probe_codedata, F_XIMG: probe_ximg}
