"""C18 Intel HEX files round-trip and are standard-conforming (DESIGN 4, C18).

Monitor: for every generated region set the real ``HexFile`` is built with
``add_region`` (region merging = ``HexFile.check``), written with
``HexFile.save`` and then observed by three readers:

  1. ``HexFile.load`` of the saved text (round trip: merged regions + start),
  2. ``vlib.hexref.ihex_read`` - a reader written from the Intel HEX
     specification (record form, byte count, checksum, type-specific length,
     linear address arithmetic mod 2^32, end-of-file record last),
  3. GNU BFD: ``objdump -s -f -b ihex`` on batches of saved files (refuses a
     file with a bad checksum / malformed record; prints contents + start).

The expected side is the generated region set merged by ``hexref.merge_regions``.

Known findings (open -> generator avoid switches, DESIGN 3.2):
  * ``hex-start-address-dropped``: generator uses start address 0 only.
  * ``hex-merge-bridging-region-loses-data``: regions are inserted in an order
    in which no ``add_region`` call bridges two regions that already exist
    (ascending order is used when the drawn random order would bridge).
On the thorough tier 10 % of the cases are generated without the avoid
switches; a failing one is re-run with the switches applied and counted under
``observed.unrestricted`` (explained) or reported (still failing).

A data record that straddles a 64 KiB boundary is accepted (legal under
linear addressing) as long as both reference readers place the bytes
correctly - ppci writes such records and they are counted, not flagged.
"""
import io
import os

from vlib.core import rng, h

PROPERTY = "C18"
RULE = ("region sets: 1-6 non-empty, non-overlapping regions below 4 GiB; addresses drawn around k*0x10000 "
        "(k in 1,2,0x7fff,0x8000,0xffff,random), exactly k*0x10000, 2^32-size, 0, adjacent to an earlier "
        "region, or uniform; sizes 1..4, around the 30-byte record size, up to 2000, and (8 % of sets) "
        "60000..140000 so one region crosses several 64 KiB boundaries; random insertion order; start "
        "address from {0, 0xffffffff, random}; non-trivial = at least two regions or a region crossing a "
        "64 KiB boundary; distinct by hash of (regions, order, start)")
ASSUMPTIONS = ["vlib/hexref.py implements the Intel HEX specification rev. A (record types 00-05)",
               "GNU BFD's ihex reader (objdump -s -f -b ihex) places bytes and reports the start address correctly",
               "linear (type 04) addressing: a data record may cross a 64 KiB boundary, addresses are taken mod 2^32"]
MANIFEST_ENTRY = {
    "text": "Generated region sets are merged by HexFile.add_region, saved, and the saved text is decoded by "
            "HexFile.load, by an independent specification reader and by GNU objdump; all three must give the "
            "same merged regions and start address, and every record must be well formed.",
    "note": "start addresses other than 0 and insertion orders that bridge two existing regions are only probed "
            "by their known-finding witnesses while those findings are open; segment-address (type 02/03) "
            "records are never written by ppci and are not exercised.",
    "technique": "runtime monitoring: two independent Intel HEX readers (specification reader + GNU BFD) and "
                 "round-trip over generated region sets",
}
KEY_START = "hex-start-address-dropped"
KEY_BRIDGE = "hex-merge-bridging-region-loses-data"
M32 = 1 << 32


def EXHAUSTIVE(tier):
    return False


def plan(tier, seed, avoid):
    if tier == "quick":
        total, per = 2000, 50
    else:
        total, per = 100000, 1000
    specs = []
    for s in range(0, total, per):
        spec = {"part": "sets", "first": s, "count": per}
        # thorough: every 10th shard runs without the avoid switches (neutralise-and-retest)
        if tier != "quick" and avoid and (s // per) % 10 == 9:
            spec["unrestricted"] = True
        specs.append(spec)
    return specs


def floors(tier):
    k = 1 if tier == "quick" else 40
    return {"evaluations": 1500 * k, "distinct_nontrivial": 900 * k,
            "observed.readers.hexfile_load": 1500 * k, "observed.readers.spec_reader": 1500 * k,
            "observed.readers.objdump": 1500 * k,
            "observed.regions_crossing_64k": 150 * k, "observed.sets_with_adjacent_merge": 200 * k,
            "observed.records.04": 3000 * k, "observed.straddling_data_records": 150 * k,
            "observed.regions_at_or_above_2g": 300 * k, "observed.regions_ending_at_4g": 50 * k,
            "observed.big_regions": 60 * k}


# ---- generator --------------------------------------------------------------

def gen_size(r, big):
    if big:
        return r.choice([r.randrange(60000, 70001), r.randrange(65536 - 40, 65536 + 40),
                         r.randrange(131000, 140000)])
    k = r.randrange(10)
    if k < 2:
        return r.randrange(1, 5)
    if k < 4:
        return r.choice([29, 30, 31, 59, 60, 61, 90]) + r.choice([0, 0, 30])
    if k < 8:
        return r.randrange(1, 100)
    return r.randrange(100, 2000)


def gen_data(r, size):
    k = r.randrange(12)
    if k == 0:
        return bytes(size)
    if k == 1:
        return b"\xff" * size
    return r.randbytes(size)


def gen_regions(r):
    nreg = r.choice([1, 1, 2, 2, 3, 3, 3, 4, 5, 6])
    bigidx = r.randrange(nreg) if r.random() < 0.08 else -1
    regions = []  # (addr, data)
    kinds = []
    for i in range(nreg):
        for attempt in range(30):
            size = gen_size(r, i == bigidx)
            kind = r.choice(["zero", "near64k", "near64k", "at64k", "top", "adjacent", "adjacent", "bridge",
                             "random", "random"])
            if kind == "zero":
                addr = 0
            elif kind in ("near64k", "at64k"):
                k = r.choice([1, 1, 2, 0x7FFF, 0x8000, 0xFFFF, r.randrange(1, 0x10000)])
                addr = k * 0x10000
                if kind == "near64k":
                    addr += r.randrange(-min(size + 8, 70), 16)
            elif kind == "top":
                addr = M32 - size - r.choice([0, 0, 0, 1, 30, 0x10000])
            elif kind == "adjacent" and regions:
                a, d = r.choice(regions)
                addr = a + len(d) if r.random() < 0.5 else a - size
            elif kind == "bridge" and len(regions) >= 1 and i + 1 < nreg:
                # leave a gap after an existing region that a later "adjacent" pick can close:
                a, d = r.choice(regions)
                addr = a + len(d) + r.choice([1, 30, 31, 7])
            else:
                kind = "random"
                addr = r.randrange(0, M32 - size + 1)
            if addr < 0 or addr + size > M32:
                continue
            if any(addr < a + len(d) and a < addr + size for a, d in regions):
                continue
            regions.append((addr, gen_data(r, size)))
            kinds.append(kind)
            break
    # close gaps: with some probability fill the gap between two neighbours exactly
    if len(regions) >= 2 and len(regions) < 6 and r.random() < 0.35:
        srt = sorted(regions)
        cands = [(a + len(d), b - (a + len(d))) for (a, d), (b, _) in zip(srt, srt[1:]) if 0 < b - (a + len(d)) <= 3000]
        if cands:
            ga, gs = r.choice(cands)
            regions.append((ga, gen_data(r, gs)))
            kinds.append("gapfill")
    order = list(range(len(regions)))
    r.shuffle(order)
    start = r.choice([0, 0xFFFFFFFF, 0x1234, r.getrandbits(32), r.getrandbits(32), r.getrandbits(16), 0x80000000])
    return regions, kinds, order, start


def order_bridges(regions, order):
    """Does some add_region call join two already existing regions?"""
    ivs = []  # merged (start, end)
    for i in order:
        a, d = regions[i]
        e = a + len(d)
        left = any(x[1] == a for x in ivs)
        right = any(x[0] == e for x in ivs)
        if left and right:
            return True
        ivs.append((a, e))
    return False


def make_case(seed, idx, avoid):
    r = rng(seed, PROPERTY, idx)
    regions, kinds, order, start = gen_regions(r)
    case = {"index": idx, "regions": regions, "kinds": kinds, "order": order, "start": start,
            "bridging": order_bridges(regions, order), "avoided": []}
    apply_avoid(case, avoid)
    return case


def apply_avoid(case, avoid):
    if KEY_START in avoid and case["start"] != 0:
        case["start"] = 0
        case["avoided"].append(KEY_START)
    if KEY_BRIDGE in avoid and case["bridging"]:
        case["order"] = sorted(range(len(case["regions"])), key=lambda i: case["regions"][i][0])
        case["bridging"] = False
        case["avoided"].append(KEY_BRIDGE)


def case_json(case, extra=None):
    regs = []
    for a, d in case["regions"]:
        if len(d) <= 256:
            regs.append({"address": a, "data_hex": d.hex()})
        else:
            regs.append({"address": a, "size": len(d), "data_sha": h(d), "data_head_hex": d[:32].hex()})
    out = {"index": case["index"], "regions": regs, "insert_order": case["order"], "start_address": case["start"],
           "kinds": case["kinds"]}
    if extra:
        out.update(extra)
    return out


# ---- monitor ----------------------------------------------------------------

def observe_ppci(case):
    """Run the real code; returns (problems, saved text or None)."""
    from ppci.format.hexfile import HexFile
    from vlib import hexref

    probs = []
    want, overlap = hexref.merge_regions(case["regions"])
    assert not overlap, "generator produced overlapping regions"
    case["want"] = want
    try:
        hf = HexFile()
        for i in case["order"]:
            a, d = case["regions"][i]
            hf.add_region(a, d)
        got = [(reg.address, bytes(reg.data)) for reg in hf.regions]
    except Exception as e:  # noqa
        return ["add_region raised %s: %s" % (type(e).__name__, e)], None
    diff = hexref.first_difference(want, got)
    if diff:
        probs.append("HexFile.regions after add_region: " + diff)
        return probs, None  # what is saved is already wrong; the readers would only repeat it
    try:
        hf.start_address = case["start"]
        f = io.StringIO()
        hf.save(f)
        text = f.getvalue()
    except Exception as e:  # noqa
        return probs + ["HexFile.save raised %s: %s" % (type(e).__name__, e)], None
    try:
        h2 = HexFile.load(io.StringIO(text))
        got2 = [(reg.address, bytes(reg.data)) for reg in h2.regions]
        diff = hexref.first_difference(want, got2)
        if diff:
            probs.append("HexFile.load(save(h)): " + diff)
        if h2.start_address != case["start"]:
            probs.append("HexFile.load(save(h)).start_address = %#x, expected %#x" % (h2.start_address, case["start"]))
    except Exception as e:  # noqa
        probs.append("HexFile.load of the saved text raised %s: %s" % (type(e).__name__, e))
    return probs, text


def observe_spec(case, text, obs):
    from vlib import hexref

    probs = []
    rd = hexref.ihex_read(text)
    for p in rd["problems"][:3]:
        probs.append("specification reader: " + p)
    got, overlap = hexref.merge_regions(rd["chunks"])
    if overlap:
        probs.append("specification reader: data records overlap")
    diff = hexref.first_difference(case["want"], got)
    if diff:
        probs.append("specification reader: " + diff)
    if (rd["start"] or 0) != case["start"]:
        probs.append("specification reader: start address %s, expected %#x" % (
            "absent" if rd["start"] is None else hex(rd["start"]), case["start"]))
    for t, n in rd["records"].items():
        key = "%02d" % int(t)
        obs["records"][key] = obs["records"].get(key, 0) + n
    obs["straddling_data_records"] += rd["straddle"]
    if rd["lowercase"]:
        obs["files_with_lowercase_digits"] += 1
    return probs


def observe_objdump(cases, texts, tmp, obs, incon):
    """-> {case index: [problems]}"""
    from vlib import hexref

    out = {}
    names = []
    for c in cases:
        name = "c18_%d.hex" % c["index"]
        with open(os.path.join(tmp, name), "w") as f:
            f.write(texts[c["index"]])
        names.append(name)
    try:
        parsed, stderr = hexref.objdump_read("ihex", names, tmp)
        obs["objdump_runs"] += 1
    except Exception as e:  # noqa
        incon.append("objdump failed: %s: %s" % (type(e).__name__, e))
        parsed, stderr = None, ""
    for c, name in zip(cases, names):
        try:
            os.unlink(os.path.join(tmp, name))
        except OSError:
            pass
        if parsed is None:
            continue
        probs = out.setdefault(c["index"], [])
        p = parsed.get(name)
        if p is None:
            msg = [ln for ln in stderr.splitlines() if name in ln]
            probs.append("objdump refuses the file: %s" % ("; ".join(msg)[:300] or "no message"))
            obs["readers"]["objdump"] += 1
            continue
        got, overlap = hexref.merge_regions(p["sections"])
        if overlap:
            probs.append("objdump: sections overlap")
        diff = hexref.first_difference(c["want"], got)
        if diff:
            probs.append("objdump: " + diff)
        if p["start"] is None:
            incon.append("objdump printed no start address for %s" % name)
        elif p["start"] != c["start"]:
            probs.append("objdump: start address %#x, expected %#x" % (p["start"], c["start"]))
        obs["readers"]["objdump"] += 1
    return out


def judge(cases, tmp, obs, incon, count=True):
    """-> {index: [problems]} after all three readers."""
    problems = {}
    texts = {}
    for c in cases:
        probs, text = observe_ppci(c)
        obs["readers"]["hexfile_load"] += 1 if text is not None else 0
        if text is not None:
            probs += observe_spec(c, text, obs)
            obs["readers"]["spec_reader"] += 1
            texts[c["index"]] = text
        problems[c["index"]] = probs
    todo = [c for c in cases if c["index"] in texts]
    for i in range(0, len(todo), 50):
        res = observe_objdump(todo[i:i + 50], texts, tmp, obs, incon)
        for idx, probs in res.items():
            problems[idx] += probs
    return problems, texts


def new_obs():
    return {"readers": {"hexfile_load": 0, "spec_reader": 0, "objdump": 0}, "records": {},
            "straddling_data_records": 0, "files_with_lowercase_digits": 0, "objdump_runs": 0,
            "regions": 0, "regions_per_set": {}, "regions_crossing_64k": 0, "boundaries_crossed_per_region": {},
            "sets_with_adjacent_merge": 0, "regions_at_or_above_2g": 0, "regions_ending_at_4g": 0,
            "regions_at_zero": 0, "big_regions": 0, "start_address": {"zero": 0, "nonzero": 0},
            "insert_order": {"bridging": 0, "reordered_to_avoid_bridge": 0, "non_bridging": 0},
            "address_kind": {}, "bytes": 0,
            "unrestricted": {"cases": 0, "failed": 0, "explained_by_open_findings": 0}}


def account(case, obs):
    regs = case["regions"]
    obs["regions"] += len(regs)
    k = str(len(regs))
    obs["regions_per_set"][k] = obs["regions_per_set"].get(k, 0) + 1
    crossing = False
    for (a, d), kind in zip(regs, case["kinds"]):
        e = a + len(d)
        n = ((e - 1) >> 16) - (a >> 16)
        if n:
            obs["regions_crossing_64k"] += 1
            crossing = True
            k = str(n) if n <= 2 else "3+"
            obs["boundaries_crossed_per_region"][k] = obs["boundaries_crossed_per_region"].get(k, 0) + 1
        if a >= 1 << 31:
            obs["regions_at_or_above_2g"] += 1
        if e == M32:
            obs["regions_ending_at_4g"] += 1
        if a == 0:
            obs["regions_at_zero"] += 1
        if len(d) >= 60000:
            obs["big_regions"] += 1
        obs["bytes"] += len(d)
        obs["address_kind"][kind] = obs["address_kind"].get(kind, 0) + 1
    if len(case["want"]) < len(regs):
        obs["sets_with_adjacent_merge"] += 1
    obs["start_address"]["zero" if case["start"] == 0 else "nonzero"] += 1
    if case["bridging"]:
        obs["insert_order"]["bridging"] += 1
    elif KEY_BRIDGE in case["avoided"]:
        obs["insert_order"]["reordered_to_avoid_bridge"] += 1
    else:
        obs["insert_order"]["non_bridging"] += 1
    return len(regs) >= 2 or crossing


def run_shard(spec):
    tmp = os.environ.get("VERIF_TMP") or os.getcwd()
    obs = new_obs()
    incon = []
    avoid = [] if spec.get("unrestricted") else list(spec["avoid"])
    from vlib import hexref
    obs["oracle_versions"] = {"objdump": hexref.objdump_version()}
    indices = spec.get("indices") or range(spec["first"], spec["first"] + spec["count"])
    cases = [make_case(spec["seed"], i, avoid) for i in indices]
    problems, texts = judge(cases, tmp, obs, incon)
    res = {"evaluations": 0, "nontrivial_hashes": [], "observed": obs, "violations": [], "samples": [],
           "inconclusive": incon, "discarded": {}}
    retry = []
    for c in cases:
        nontrivial = account(c, obs)
        probs = problems[c["index"]]
        res["evaluations"] += 1
        if nontrivial:
            res["nontrivial_hashes"].append(h(case_json(c)))
        if spec.get("unrestricted"):
            obs["unrestricted"]["cases"] += 1
        if probs and spec.get("unrestricted") and spec["avoid"]:
            obs["unrestricted"]["failed"] += 1
            retry.append(c)
            continue
        if probs:
            add_violation(res, spec, c, probs, texts)
        elif len(res["samples"]) < 2 and nontrivial and sum(len(d) for _, d in c["regions"]) < 200:
            res["samples"].append(case_json(c, {"saved_text": texts[c["index"]].split("\n")[:12]}))
    if retry:
        # neutralise-and-retest: same case with the avoid switches of the open findings applied
        again = []
        for c in retry:
            n = make_case(spec["seed"], c["index"], list(spec["avoid"]))
            if not n["avoided"]:
                add_violation(res, spec, c, problems[c["index"]], texts)  # nothing known to neutralise
            else:
                again.append(n)
        scratch = new_obs()
        p2, t2 = judge(again, tmp, scratch, incon)
        for n in again:
            if p2[n["index"]]:
                add_violation(res, spec, n, p2[n["index"]], t2, note="fails with avoid switches %s applied" % n["avoided"])
            else:
                obs["unrestricted"]["explained_by_open_findings"] += 1
    return res


def add_violation(res, spec, c, probs, texts, note=None):
    if len(res["violations"]) >= 5:
        return
    text = texts.get(c["index"])
    extra = {"problems": probs, "expected_merged": [[a, len(d)] for a, d in c.get("want", [])]}
    if text is not None:
        lines = text.split("\n")
        extra["saved_text_head"] = lines[:20]
        extra["saved_text_lines"] = len(lines)
    if note:
        extra["note"] = note
    rs = {"part": "sets", "indices": [c["index"]], "tier": spec["tier"], "seed": spec["seed"],
          "avoid": spec["avoid"]}
    if spec.get("unrestricted") and not note:
        rs["unrestricted"] = True
    res["violations"].append({"summary": "set %d: %s" % (c["index"], probs[0]), "case": case_json(c, extra),
                              "replay_spec": rs})


# ---- probes for open findings -------------------------------------------------

def probe_start_address():
    from ppci.format.hexfile import HexFile

    hf = HexFile()
    hf.add_region(0x100, b"\x01\x02\x03\x04")
    hf.start_address = 0x1234
    f = io.StringIO()
    hf.save(f)
    got = HexFile.load(io.StringIO(f.getvalue())).start_address
    if got == 0x1234:
        return None
    return "HexFile(start_address=0x1234).save writes no type-05 record; load gives start_address %#x" % got


def probe_bridge():
    from ppci.format.hexfile import HexFile

    hf = HexFile()
    hf.add_region(0x100, b"AAAA")
    hf.add_region(0x108, b"CCCC")
    hf.add_region(0x104, b"BBBB")
    got = [(r.address, bytes(r.data)) for r in hf.regions]
    if got == [(0x100, b"AAAABBBBCCCC")]:
        return None
    return "add_region 0x100 'AAAA', 0x108 'CCCC', 0x104 'BBBB' gives %r, expected one region AAAABBBBCCCC" % (got,)


PROBES = {KEY_START: probe_start_address, KEY_BRIDGE: probe_bridge}
