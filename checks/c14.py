"""C14 object files and archives survive save and load (DESIGN 4, C14).

Oracle 1: an attribute-graph walker of my own (``graph_diff``): both objects are
walked in lock-step through ``__dict__``/``__slots__``, dicts, sequences, with
type tags and cycle detection.  ``ObjectFile.__eq__`` is NOT used (it ignores
the entry symbol and the debug information).  bytes/bytearray compare by value;
the architecture is compared by ``make_id_str``; ``SourceLocation.source`` (a
cache of the source text, not part of the object format) is skipped.
Oracle 2: linking the reloaded objects must give the same attribute graph
(sections, images, symbols, relocations, entry, debug) as linking the
originals.

Workload:
* ``vlib.objgen`` objects: identifier/dotted/odd (unicode, quotes, newline,
  70-char) section names, empty and > 30-byte sections (bin2asc switches
  representation at 30 bytes), undefined and absolute symbols, symbol
  values/sizes beyond 2**64, sparse symbol ids, negative addends, images with
  addresses, entry symbol, generated debug info (base/struct/pointer/array
  types incl. recursive ones, fixed/fp-relative/unknown addresses, functions
  with parameters and locals, locations with odd file names);
* compiler output: a fixed corpus of 7 C snippets (``cc``), 2 C3 modules
  (``c3c``) and one assembly file (``asm``) with ``debug=True`` for x86_64,
  arm, riscv, msp430, avr (+ xtensa, microblaze), and the executables linked
  from them with a layout (images, entry, merged debug info);
* archives of 1-5 members through ``Archive.save/load``.

Narrowed: DESIGN names ``cgen`` programs as the compiled workload; the general
C generator is another author's, so a fixed corpus is used (a compile that
fails is discarded and counted; that is C29's business).
"""
import io

from vlib.core import rng, h

PROPERTY = "C14"
RULE = ("objgen objects (3 name styles, sizes 0..200, huge values, negative addends, images, entry, debug info) and "
        "the objects/executables compiled from a fixed corpus (7 C, 2 C3, 1 asm) on 7 targets with debug=True are "
        "saved and loaded, singly and in archives of 1-5 members; non-trivial = the object carries at least one "
        "symbol and one non-empty section; distinct by hash of the serialized text")
ASSUMPTIONS = ["the walker visits every attribute reachable from ObjectFile except SourceLocation.source and the "
               "architecture object (compared by id string)",
               "json and io.StringIO of CPython are correct"]
MANIFEST_ENTRY = {
    "text": "Every generated or compiled object file, and every archive of them, comes back from save/load with an "
            "identical attribute graph (sections, symbols, relocations, images, entry symbol, debug info), and "
            "linking the reloaded objects gives the same result as linking the originals.",
    "note": "Compiled workload is a fixed corpus (10 sources x 7 targets), not cgen. Known findings switch off: "
            "fp-relative debug addresses keep only the offset, DebugBaseType.encoding is not stored, a cycle-closing "
            "pointer type listed before its struct cannot be loaded, late 'global' directives leave symbol_map "
            "incomplete on the original.",
    "technique": "runtime monitoring: own attribute-graph comparison + relink equality over objgen and compiler output",
}

F_FPREL = "debug-fprel-address-size-lost"
F_ENC = "debug-basetype-encoding-not-serialized"
F_LATEGLOBAL = "outstream-late-global-not-in-symbol-map"
F_PTRFIRST = "debug-load-fails-pointer-listed-before-its-struct"

CORPUS_ARCHES = ["x86_64", "arm", "riscv", "msp430", "avr", "xtensa", "microblaze"]
C_SRC = {
    "arith": "int g = 3; int add(int a, int b) { int c; c = a + b * g; return c; }",
    "loop": "int tab[4] = {1,2,3,4}; int sum(void) { int i; int s = 0; for (i = 0; i < 4; i++) s += tab[i]; "
            "return s; }",
    "strings": "char *msg = \"hello\"; char buf[40]; int len(char *p) { int n = 0; while (*p) { p++; n++; } "
               "return n; } int f(void) { return len(msg); }",
    "structs": "struct P { int x; char c; struct P *next; }; struct P a; struct P b = {1, 2, &a}; "
               "int get(struct P *p) { return p->x + p->next->c; }",
    "calls": "extern int ext(int); static int helper(int a) { return a * 2; } int api(int x) { return helper(x) + "
             "ext(x); } int (*fp)(int) = api;",
    "statics": "int counter(void) { static int n; n++; return n; } long big = 123456789; short sh = -3; "
               "unsigned char uc = 200;",
    "switchy": "int sel(int a) { switch (a) { case 1: return 10; case 2: return 20; case 7: return 70; "
               "default: return 0; } }",
}
C3_SRC = {
    "mod": "module main; type struct { int x; byte c; } P; var int[5] arr; var P gp; var P* pp; "
           "function int helper(int a, byte b) { var int loc; loc = a; return loc + b; } "
           "public function int foo(int a) { var P p; p.x = a; pp = &gp; return helper(p.x, 2) + arr[1]; }",
    "list": "module lst; type struct { int x; Node* next; } Node; var Node* head; var Node n1; "
            "public function int walk(int a) { var Node* p; var int s; s = 0; p = head; "
            "while (p != 0) { s = s + p->x; p = p->next; } n1.x = a; return s; }",
}
ASM_SRC = ("section code\nglobal a_start\na_start:\ndd 0x11223344\ndcd =a_data\nlocal1:\ndb 7\nsection data\n"
           "global a_data\na_data:\ndd 5\ndcd =a_start\ndcd =local1\n")
EXT_SRC = "int ext(int a) { return a + 1; }"


def EXHAUSTIVE(tier):
    return False


def plan(tier, seed, avoid):
    n = 80 if tier == "quick" else 4000
    specs = [{"part": "objgen", "shard": i, "n": n} for i in range(24 if tier == "quick" else 40)]
    for arch in CORPUS_ARCHES:
        specs.append({"part": "compiled", "arch": arch})
    return specs


def floors(tier):
    k = 1 if tier == "quick" else 10
    return {"evaluations": 4000 * k, "distinct_nontrivial": 1500 * k,
            "observed.origin.objgen": 2000 * k, "observed.origin.cc": 15, "observed.origin.c3c": 8,
            "observed.origin.asm": 4, "observed.origin.linked": 10,
            "observed.archives": 500 * k, "observed.relinks": 400 * k,
            "observed.carrying.debug_info": 300 * k, "observed.carrying.entry": 100 * k,
            "observed.carrying.images": 100 * k, "observed.carrying.negative_addend": 200 * k,
            "observed.carrying.big_section": 500 * k, "observed.carrying.empty_section": 300 * k,
            "observed.carrying.undefined_symbol": 500 * k, "observed.carrying.absolute_symbol": 100 * k,
            "observed.carrying.huge_value": 100 * k, "observed.carrying.odd_name": 300 * k,
            "observed.class.Symbol": 5000 * k, "observed.class.RelocationEntry": 2000 * k,
            "observed.class.Section": 3000 * k, "observed.class.Image": 100 * k,
            "observed.class.DebugFunction": 100 * k, "observed.class.DebugStructType": 100 * k,
            "observed.class.DebugAddress": 500 * k, "observed.class.SourceLocation": 1000 * k}


# --------------------------------------------------------------------------
# the walker

ATOMS = (int, str, float, bool, type(None))


def graph_diff(a, b, counts=None, skip_attrs=("source",)):
    """First difference between two object graphs as a string, or None."""
    seen = set()
    stack = [("", a, b)]
    while stack:
        path, x, y = stack.pop()
        if isinstance(x, (bytes, bytearray)) and isinstance(y, (bytes, bytearray)):
            if bytes(x) != bytes(y):
                return "%s: bytes differ (%d vs %d bytes)" % (path, len(x), len(y))
            continue
        tx, ty = type(x), type(y)
        if tx is not ty:
            return "%s: type %s vs %s (%r vs %r)" % (path, tx.__name__, ty.__name__, short(x), short(y))
        if isinstance(x, ATOMS):
            if x != y and not (isinstance(x, float) and x != x and y != y):
                return "%s: %r vs %r" % (path, short(x), short(y))
            continue
        key = (id(x), id(y))
        if key in seen:
            continue
        seen.add(key)
        if counts is not None:
            counts[tx.__name__] = counts.get(tx.__name__, 0) + 1
        if isinstance(x, dict):
            if set(map(repr, x)) != set(map(repr, y)):
                return "%s: dict keys %s vs %s" % (path, sorted(map(repr, x))[:6], sorted(map(repr, y))[:6])
            ky = {repr(k): k for k in y}
            for k in x:
                stack.append(("%s[%r]" % (path, k), x[k], y[ky[repr(k)]]))
            continue
        if isinstance(x, (list, tuple)):
            if len(x) != len(y):
                return "%s: length %d vs %d" % (path, len(x), len(y))
            for i in range(len(x)):
                stack.append(("%s[%d]" % (path, i), x[i], y[i]))
            continue
        if isinstance(x, (set, frozenset)):
            if sorted(map(repr, x)) != sorted(map(repr, y)):
                return "%s: set differs" % path
            continue
        if hasattr(x, "make_id_str"):  # the architecture: a shared singleton, not object content
            if x.make_id_str() != y.make_id_str():
                return "%s: arch %s vs %s" % (path, x.make_id_str(), y.make_id_str())
            continue
        names = attr_names(x)
        if names is None:
            if x != y:
                return "%s: %r vs %r" % (path, short(x), short(y))
            continue
        if names != attr_names(y):
            return "%s: attributes %s vs %s" % (path, names, attr_names(y))
        for n in names:
            if n in skip_attrs and tx.__name__ == "SourceLocation":
                continue
            stack.append(("%s.%s" % (path, n), getattr(x, n), getattr(y, n)))
    return None


def attr_names(x):
    names = []
    if hasattr(x, "__dict__"):
        names.extend(vars(x))
    for cls in type(x).__mro__:
        for s in getattr(cls, "__slots__", ()) or ():
            if hasattr(x, s):
                names.append(s)
    if not names and not hasattr(x, "__dict__"):
        return None
    return sorted(set(names))


def short(x):
    s = repr(x)
    return s if len(s) < 60 else s[:57] + "..."


# --------------------------------------------------------------------------
# worker


def inc(d, key, n=1):
    d[key] = d.get(key, 0) + n


class Ctx:
    def __init__(self, spec):
        self.spec = spec
        self.avoid = set(spec.get("avoid", []))
        self.evals = 0
        self.obs = {"origin": {}, "carrying": {}, "class": {}}
        self.disc = {}
        self.viol = []
        self.samples = []
        self.hashes = []

    def refute(self, summary, case):
        if len(self.viol) < 4:
            rs = dict(self.spec)
            if "only" in case:
                rs["only"] = case["only"]
            self.viol.append({"summary": summary, "case": case, "replay_spec": rs})


def save_text(obj):
    f = io.StringIO()
    obj.save(f)
    return f.getvalue()


def features(ctx, obj):
    c = ctx.obs["carrying"]
    if obj.debug_info is not None:
        inc(c, "debug_info")
    if obj.entry_symbol_id is not None:
        inc(c, "entry")
    if obj.images:
        inc(c, "images")
    if any(r.addend < 0 for r in obj.relocations):
        inc(c, "negative_addend")
    if any(s.size > 30 for s in obj.sections):
        inc(c, "big_section")
    if any(s.size == 0 for s in obj.sections):
        inc(c, "empty_section")
    if any(s.value is None for s in obj.symbols):
        inc(c, "undefined_symbol")
    if any(s.value is not None and s.section is None for s in obj.symbols):
        inc(c, "absolute_symbol")
    if any((s.value or 0) >= 2 ** 64 or (s.size or 0) >= 2 ** 64 for s in obj.symbols):
        inc(c, "huge_value")
    if any(not s.name.replace("_", "a").replace(".", "a").isalnum() or not s.name.isascii() for s in obj.sections):
        inc(c, "odd_name")


def roundtrip_object(ctx, obj, origin, case):
    """save -> load -> walker.  Returns the reloaded object or None."""
    from ppci.binutils.objectfile import ObjectFile

    inc(ctx.obs["origin"], origin)
    features(ctx, obj)
    try:
        text = save_text(obj)
    except Exception as e:
        ctx.evals += 1
        ctx.refute("%s object: save raised %s: %s" % (origin, type(e).__name__, str(e)[:120]), case)
        return None
    try:
        back = ObjectFile.load(io.StringIO(text))
    except Exception as e:
        ctx.evals += 1
        ctx.refute("%s object: load of the saved text raised %s: %s" % (origin, type(e).__name__, str(e)[:120]),
                   dict(case, text=text[:4000]))
        return None
    ctx.evals += 1
    d = graph_diff(obj, back, ctx.obs["class"])
    if d:
        ctx.refute("%s object differs after save/load at %s" % (origin, d), dict(case, text=text[:4000]))
        return None
    # saving the reloaded object must give the same text (a second, cheap witness)
    if save_text(back) != text:
        ctx.refute("%s object: saved text of the reloaded object differs" % origin, dict(case, text=text[:4000]))
        return None
    if obj.symbols and any(s.size for s in obj.sections):
        ctx.hashes.append(h(text))
    return back


def roundtrip_archive(ctx, objs, origin, case):
    from ppci.binutils.archive import Archive

    arc = Archive(list(objs))
    f = io.StringIO()
    try:
        arc.save(f)
        back = Archive.load(io.StringIO(f.getvalue()))
    except Exception as e:
        ctx.evals += 1
        ctx.refute("archive of %d %s objects: save/load raised %s: %s" % (len(objs), origin, type(e).__name__,
                                                                       str(e)[:120]), case)
        return None
    ctx.evals += 1
    inc(ctx.obs, "archives")
    inc(ctx.obs.setdefault("archive_members", {}), str(len(objs)))
    d = graph_diff(list(arc.objs), list(back.objs), ctx.obs["class"])
    if d:
        ctx.refute("archive of %d %s objects differs after save/load at %s" % (len(objs), origin, d), case)
        return None
    return back


def relink(ctx, objs, back, kw_factory, origin, case):
    """link(originals) vs link(reloaded): same graph."""
    from ppci.api import link

    try:
        out1 = link(list(objs), **kw_factory())
    except Exception as e:  # C12 judges links; here only equality matters
        inc(ctx.disc, "link of originals raised %s" % type(e).__name__)
        return None
    try:
        out2 = link(list(back), **kw_factory())
    except Exception as e:
        ctx.evals += 1
        ctx.refute("%s: originals link, reloaded objects do not: %s: %s" % (origin, type(e).__name__, str(e)[:120]),
                   case)
        return None
    ctx.evals += 1
    inc(ctx.obs, "relinks")
    d = graph_diff(out1, out2)
    if d:
        ctx.refute("%s: linking the reloaded objects differs from linking the originals at %s" % (origin, d), case)
        return None
    return out1


def run_shard(spec):
    ctx = Ctx(spec)
    if spec["part"] == "objgen":
        run_objgen(ctx, spec)
    else:
        run_compiled(ctx, spec)
    return {"evaluations": ctx.evals, "nontrivial_hashes": ctx.hashes, "observed": ctx.obs, "discarded": ctx.disc,
            "samples": ctx.samples[:2], "violations": ctx.viol}


ARCHES = ["x86_64", "arm", "riscv", "msp430", "avr", "xtensa", "microblaze", "or1k", "m68k", "mips"]


def run_objgen(ctx, spec):
    from vlib import objgen

    only = spec.get("only")
    idxs = [only] if only is not None else range(spec["shard"] * spec["n"], (spec["shard"] + 1) * spec["n"])
    for idx in idxs:
        r = rng(spec["seed"], PROPERTY, idx)
        arch = ARCHES[idx % len(ARCHES)]
        mode = r.choice(["link", "link", "odd", "huge"])
        debug = r.random() < 0.45
        try:
            oset = objgen.gen_object_set(
                r, arch, n_objects=r.randrange(1, 6) if mode != "link" else None,
                relocs=True if mode != "huge" else r.choice([False, "data"]),
                names={"link": r.choice(["id", "dotted"]), "odd": "odd", "huge": r.choice(["id", "odd"])}[mode],
                debug=False, max_size=r.choice([40, 80, 200]), odd_typs=(mode != "link"), huge=(mode == "huge"),
                undefined=r.choice([0, 0, 1]) if mode != "link" else 0)
            for ob in oset["objects"]:
                if debug:
                    encs = (1,) if F_ENC in ctx.avoid else (1, 1, 2, 0, 7)
                    ob["debug"] = objgen.gen_debug(r, ob, encodings=encs,
                                                   pointer_first=0.0 if F_PTRFIRST in ctx.avoid else 0.3)
                    if F_FPREL in ctx.avoid:
                        neutralise_fprel(ob["debug"])
                decorate(r, ob, mode)
            objs = [objgen.build_object(s) for s in oset["objects"]]
        except Exception as e:
            inc(ctx.disc, "generator-error:%s" % type(e).__name__)
            continue
        case = {"only": idx, "arch": arch, "mode": mode, "objects": oset["objects"]}
        backs = []
        for ob in objs:
            b = roundtrip_object(ctx, ob, "objgen", case)
            backs.append(b)
        if any(b is None for b in backs):
            continue
        members = objs[: r.randrange(1, len(objs) + 1)]
        arc = roundtrip_archive(ctx, members, "objgen", case)
        if mode == "link" and not any(ob["images"] or ob["entry"] is not None for ob in oset["objects"]):
            lay = objgen.gen_layout(r, oset["objects"], fit=True, addr_hi=oset["addr_hi"]) \
                if r.random() < 0.8 else None
            use_debug = debug

            def kw():
                d = {"debug": use_debug}
                if lay is not None:
                    d["layout"] = objgen.build_layout(lay)
                return d

            case2 = dict(case, layout=lay)
            out = relink(ctx, objs, backs, kw, "objgen", case2)
            if out is not None and r.random() < 0.5:
                # the linked result (images, merged debug info) is an object file too
                roundtrip_object(ctx, out, "linked", case2)
            if arc is not None and len(members) < len(objs) and lay is not None:
                # archive as library: originals vs reloaded archive
                from ppci.binutils.archive import Archive

                rest = objs[len(members):]
                n_rest = len(rest)

                def kw1():
                    d = kw()
                    d["libraries"] = [Archive(list(members))]
                    return d

                def kw2():
                    d = kw()
                    d["libraries"] = [arc]
                    return d

                from ppci.api import link
                try:
                    o1 = link(list(rest), **kw1())
                except Exception as e:
                    inc(ctx.disc, "library link of originals raised %s" % type(e).__name__)
                    continue
                try:
                    o2 = link(list(backs[len(members):len(members) + n_rest]), **kw2())
                except Exception as e:
                    ctx.evals += 1
                    ctx.refute("link against the reloaded archive raised %s: %s" % (type(e).__name__, str(e)[:100]),
                               case2)
                    continue
                ctx.evals += 1
                inc(ctx.obs, "library_relinks")
                d = graph_diff(o1, o2)
                if d:
                    ctx.refute("linking against the reloaded archive differs at %s" % d, case2)
        if len(ctx.samples) < 1 and mode == "odd":
            ctx.samples.append({"arch": arch, "mode": mode,
                                "sections": [[s["name"], len(s["data"]) // 2] for s in oset["objects"][0]["sections"]],
                                "symbols": oset["objects"][0]["symbols"][:3],
                                "relocations": oset["objects"][0]["relocations"][:2]})


def neutralise_fprel(dspec):
    """Open finding: only the offset of an fp-relative address is stored; keep size 1 (what load restores)."""
    def fix(a):
        if a[0] == "fprel":
            a[2] = 1
    for x in dspec["locations"]:
        fix(x["address"])
    for v in dspec["variables"]:
        fix(v["address"])
    for f in dspec["functions"]:
        fix(f["begin"])
        fix(f["end"])
        for v in f["variables"]:
            fix(v["address"])


def neutralise_compiled(obj, avoid):
    """Avoid switches for compiler output: the trigger constructs cannot be kept out of what the compilers
    emit, so the *original* is rewritten the way the avoid switches of the generator would have built it."""
    if F_LATEGLOBAL in avoid:
        # a symbol that became global after its first use is missing from the lookup table of the original
        for sym in obj.symbols:
            if sym.binding == "global":
                obj.symbol_map.setdefault(sym.name, sym)
    if F_FPREL in avoid and obj.debug_info is not None:
        def fix(a):
            off = getattr(a, "offset", None)
            if off is not None and hasattr(off, "size"):
                off.size = 1
        for v in obj.debug_info.variables:
            fix(v.address)
        for f in obj.debug_info.functions:
            for v in f.variables:
                fix(v.address)


def decorate(r, ob, mode):
    """Entry symbol, images with addresses, absolute symbols, negative addends on top of objgen's output."""
    if mode == "link":
        for x in ob["relocations"]:
            pass
        return
    ids = [s["id"] for s in ob["symbols"]]
    if ids and r.random() < 0.4:
        ob["entry"] = r.choice(ids)
    if r.random() < 0.4:
        addr = r.choice([0, 0x100, 0x8000000, 2 ** 40 + 3])
        names = []
        for s in ob["sections"]:
            if r.random() < 0.7:
                addr = (addr + s["alignment"] - 1) // s["alignment"] * s["alignment"] + r.choice([0, 0, 16])
                s["address"] = addr
                addr += len(s["data"]) // 2
                names.append(s["name"])
        if names:
            ob["images"].append({"name": r.choice(["flash", "ram", "odd img"]),
                                 "address": ob["sections"][[x["name"] for x in ob["sections"]].index(names[0])]["address"],
                                 "sections": names})
    free = max(ids + [0]) + 1
    if r.random() < 0.3:
        ob["symbols"].append({"id": free, "name": "abs_%d" % free, "binding": r.choice(["global", "local"]),
                              "value": r.choice([0, 1, 0xFFFFFFFF, 2 ** 63]), "section": None, "typ": "object",
                              "size": 0})
    for x in ob["relocations"]:
        if r.random() < 0.3:
            x["addend"] = r.choice([-1, -4, -2 ** 31, -2 ** 40, 2 ** 33, -12345])
        if r.random() < 0.1:
            x["offset"] = r.choice([2 ** 32, 2 ** 64 + 1])


def run_compiled(ctx, spec):
    from ppci.api import cc, c3c, asm, link
    from vlib import objgen

    arch = spec["arch"]
    built = {}
    jobs = [("cc", k, v) for k, v in sorted(C_SRC.items())] + [("cc", "ext", EXT_SRC)]
    jobs += [("c3c", k, v) for k, v in sorted(C3_SRC.items())] + [("asm", "asm", ASM_SRC)]
    for origin, name, src in jobs:
        try:
            if origin == "cc":
                obj = cc(io.StringIO(src), arch, debug=True)
            elif origin == "c3c":
                obj = c3c([io.StringIO(src)], [], arch, debug=True)
            else:
                obj = asm(io.StringIO(src), arch, debug=True)
        except Exception as e:
            inc(ctx.disc, "%s %s on %s failed: %s" % (origin, name, arch, type(e).__name__))
            continue
        case = {"arch": arch, "origin": origin, "name": name, "source": src}
        neutralise_compiled(obj, ctx.avoid)
        back = roundtrip_object(ctx, obj, origin, case)
        if back is not None:
            built[name] = (obj, back, origin)
        if len(ctx.samples) < 1 and origin == "c3c" and back is not None:
            ctx.samples.append({"arch": arch, "origin": origin, "source": src[:200],
                                "symbols": len(obj.symbols), "relocations": len(obj.relocations),
                                "debug": {"types": len(obj.debug_info.types), "functions": len(obj.debug_info.functions),
                                          "locations": len(obj.debug_info.locations)}})
    # archives of compiled members
    names = sorted(built)
    r = rng(spec["seed"], PROPERTY, "compiled-" + arch)
    for k in range(1, 6):
        if len(names) >= k:
            pick = r.sample(names, k)
            roundtrip_archive(ctx, [built[n][0] for n in pick], "compiled", {"arch": arch, "members": pick})
    # executables: link with a layout, debug info merged, entry set
    groups = [g for g in (["calls", "ext"], ["arith", "loop", "switchy"], ["mod"], ["list", "statics"],
                          ["asm", "arith"], ["strings", "structs"]) if all(n in built for n in g)]
    for g in groups:
        objs = [built[n][0] for n in g]
        backs = [built[n][1] for n in g]
        specs = [objgen.obj_to_spec(o) for o in objs]
        try:
            lay = objgen.gen_layout(r, specs, fit=True, sectiondata=False, phantom=False, leave_unplaced=False)
        except Exception as e:
            inc(ctx.disc, "generator-error:%s" % type(e).__name__)
            continue
        entry = [s.name for o in objs for s in o.symbols if s.binding == "global" and s.value is not None][0]

        def kw():
            return {"layout": objgen.build_layout(lay), "debug": True, "entry": entry}

        case = {"arch": arch, "origin": "linked", "members": g, "layout": lay, "entry": entry}
        out = relink(ctx, objs, backs, kw, "compiled %s" % "+".join(g), case)
        if out is not None:
            roundtrip_object(ctx, out, "linked", case)


# --------------------------------------------------------------------------
# probes


def probe_fprel():
    from ppci.api import c3c
    from ppci.binutils.objectfile import ObjectFile

    obj = c3c([io.StringIO(C3_SRC["mod"])], [], "x86_64", debug=True)
    back = ObjectFile.load(io.StringIO(save_text(obj)))
    for f1, f2 in zip(obj.debug_info.functions, back.debug_info.functions):
        for v1, v2 in zip(f1.variables, f2.variables):
            a1, a2 = v1.address, v2.address
            if hasattr(a1, "offset") and (a1.offset.offset, a1.offset.size) != (a2.offset.offset, a2.offset.size):
                return ("c3c(debug=True) object: local %r of %s lives in %r, after save/load in %r"
                        % (v1.name, f1.name, a1.offset, a2.offset))
    return None


def probe_encoding():
    from ppci.api import get_arch
    from ppci.binutils import debuginfo as di
    from ppci.binutils.objectfile import ObjectFile

    obj = ObjectFile(get_arch("arm"))
    obj.debug_info = di.DebugInfo()
    obj.debug_info.add(di.DebugBaseType("float", 4, 4))
    back = ObjectFile.load(io.StringIO(save_text(obj)))
    got = back.debug_info.types[0].encoding
    return None if got == 4 else "DebugBaseType('float', 4, encoding=4) comes back with encoding=%r" % got


def probe_lateglobal():
    from ppci.api import asm
    from ppci.binutils.objectfile import ObjectFile

    obj = asm(io.StringIO("section code\ndcd =a_data\nglobal a_data\na_data:\ndd 5\n"), "arm")
    back = ObjectFile.load(io.StringIO(save_text(obj)))
    if obj.has_symbol("a_data") != back.has_symbol("a_data"):
        return ("asm 'dcd =a_data / global a_data / a_data: dd 5': has_symbol('a_data') is %r on the assembled "
                "object and %r after save/load (global declared after first use is not entered in symbol_map, so "
                "the original is not found as an archive member, the reloaded one is)"
                % (obj.has_symbol("a_data"), back.has_symbol("a_data")))
    return None


def probe_ptrfirst():
    from ppci.api import get_arch
    from ppci.binutils import debuginfo as di
    from ppci.binutils.objectfile import ObjectFile

    obj = ObjectFile(get_arch("arm"))
    obj.debug_info = di.DebugInfo()
    node = di.DebugStructType()
    ptr = di.DebugPointerType(node)
    int_type = di.DebugBaseType("int", 4, 1)
    node.add_field("x", int_type, 0)
    node.add_field("next", ptr, 4)
    obj.debug_info.add(int_type)
    obj.debug_info.add(ptr)
    obj.debug_info.add(node)
    text = save_text(obj)
    try:
        ObjectFile.load(io.StringIO(text))
    except Exception as e:
        return ("debug types [int, pointer to Node, struct Node {int x; Node *next}] (pointer registered first): load of "
                "the saved object raises %s: %s" % (type(e).__name__, e))
    return None


PROBES = {F_FPREL: probe_fprel, F_ENC: probe_encoding, F_LATEGLOBAL: probe_lateglobal, F_PTRFIRST: probe_ptrfirst}
