"""C05 cross-target machine code preserves IR behaviour (DESIGN C05).

For every generated IR function f and argument vector a whose reference run
(vlib.refinterp on the module handed to the back-end) is defined, the code
that ``ppci.api.ir_to_object`` + ``ppci.api.link`` (generated layout) produce
is executed and must give the same return value, the same final contents of
every global and the same external-call trace.

Executors (scope narrowed as DESIGN 1/7 state: no ARM/Thumb/m68k/MIPS emulator
exists in the sandbox):
  x86_64      the host CPU: vlib.x86probe.imgrun maps the linked memories at
              their link addresses and calls through an independent System V
              trampoline (integers extended to 32 bits with noise above, as
              gcc callers may leave it; callee-saved registers and rsp are
              read back); externals answer from the host side and scramble all
              caller-saved registers;
  riscv,      vlib.rv32emu; arguments are placed where
  riscv:rvc   ``arch.determine_arg_locations`` says (ppci's RISC-V convention
              is private: arguments in x12..x17 then stack, result in x10 --
              it is NOT ILP32, so it is taken as the definition of "that
              target's calling convention"); externals are ``ebreak`` stubs
              served by the harness, which also scrambles x10..x17.
              Integer types up to 32 bits only (no F/D in the emulator, i64 is
              not a RISC-V value class in ppci).

Workload: (1) vlib.irgen modules (types the target can select, C29's open
findings switch the uncovered constructs off through cgmatrix.neutralise and
the feature filter; cgmatrix.add_pressure forces spills) at optimisation
levels 0/1/2/s (quick: level 0 + one rotating level); (2) the systematic
operator matrix of vlib.cgmatrix, one tiny function per cell (every binop /
unop / compare / cast x operand source x consumer, memory addressing forms
with offsets up to 2^20 -- pointer parameters point into an arena global the
harness adds --, argument positions 1..10 on caller and callee side,
phi/loop/pressure/blob cells): a wrong selection pattern is named by its
cell; quick runs a quarter of the matrix (rotating with the seed), thorough
all of it; (3) a hand-written C corpus through ``c_to_ir`` and directed
register-pressure modules around every binary operator (shift, divide ...
with 4/10/18 other values live, with and without a call).

Oracle = refinterp on the module *after* ``optimize`` (the IR the back-end is
given); the optimiser itself is C02's concern.  Build failures
(ir_to_object raising) are C29's events: counted, not judged here; a *link*
failure of a compiled module is judged.  Pointers are never compared as
numbers: a pointer in a global / return value is translated through the
symbol table of the linked image.  A run that exceeds 200x the reference's
steps + 10^5 instructions (emulator) or 2 s of CPU time (native) is a
refuting event (bounded liveness, DESIGN 2.2); wall-clock watchdogs only
ever yield discards.
"""
import io
import os

from vlib.core import rng, h
from vlib.core import open_keys as _core_open_keys


def open_keys(prop):
    """core.open_keys with retries: other authors rewrite known_findings.d files while checks run."""
    import time

    for attempt in range(5):
        try:
            return _core_open_keys(prop)
        except ValueError:
            time.sleep(0.5)
    return _core_open_keys(prop)

PROPERTY = "C05"
TARGETS = ["x86_64", "riscv", "riscv:rvc"]
LEVELS = ["0", "1", "2", "s"]
RULE = ("for x86_64 (native CPU), riscv and riscv:rvc (vlib.rv32emu): vlib.irgen modules restricted to the target's "
        "selectable types (riscv: <= 32-bit integers), with externals, globals, calls, phis, loops, memory-form CFGs "
        "and cgmatrix.add_pressure (0/6/12/24 live values); the vlib.cgmatrix operator matrix (every binop/unop/compare/"
        "cast x operand source x consumer, memory forms with pointer parameters into an arena, argument positions; "
        "quick: 1/4 rotating with the seed); a C corpus via c_to_ir and directed pressure modules; "
        "each optimised at levels 0/1/2/s (quick: 0 + one rotating), compiled by ir_to_object, linked by ppci with a "
        "generated layout, every function called on 3-5 argument vectors through the target's calling convention; "
        "return value, bytes of all globals and the external-call trace compared with vlib.refinterp run on the same "
        "(optimised) module; evaluation = one executed (function, vector, level) compared; non-trivial = reference "
        "run with >= 10 IR steps and >= 1 branch, distinct by (module hash, function, vector, level, target)")
ASSUMPTIONS = ["vlib.refinterp implements IR semantics (cross-checked by C01/C04/C24)",
               "the host CPU executes x86-64 correctly; vlib.rv32emu implements RV32IMC (validated by "
               "vlib.rv32emu_selftest against llvm/clang)",
               "ppci's private RISC-V argument placement (arch.determine_arg_locations) defines that target's "
               "calling convention; x86-64 uses the System V convention written independently in vlib.x86probe",
               "constructs of C29's open findings are not generated (same avoid switches as C29)"]
MANIFEST_ENTRY = {
    "text": "Generated IR functions are compiled, linked by ppci and executed (natively for x86-64, on a reference RV32IMC "
            "emulator for riscv and riscv:rvc) at every optimisation level; return value, global memory and external "
            "calls are compared with the reference IR interpreter.",
    "note": "Claimed for x86_64, riscv, riscv:rvc only: no ARM, Thumb, m68k or MIPS emulator exists in the sandbox, so "
            "those targets are not executed. RISC-V: integer types up to 32 bits, ppci's private register convention. "
            "Code generation failures are C29's events and only counted.",
    "technique": "runtime monitoring: reference IR interpreter vs executed machine code (host CPU / RV32IMC emulator)",
}
SHARD_TIMEOUT = {"quick": 900, "thorough": 3 * 3600}

X86_LAYOUT = """
MEMORY code LOCATION=0x10000000 SIZE=0x200000 { SECTION(code) }
MEMORY ram LOCATION=0x20000000 SIZE=0x200000 { SECTION(data) }
"""
RV_LAYOUT = """
MEMORY code LOCATION=0x10000 SIZE=0x80000 { SECTION(code) }
MEMORY ram LOCATION=0x20000000 SIZE=0x80000 { SECTION(data) }
"""
RV_STACK = (0x30000000, 0x40000)


def plan(tier, seed, avoid):
    specs = []
    if tier == "quick":
        n, per, stride, nsub = 96, 16, 4, 2
    else:
        n, per, stride, nsub = 1000, 50, 1, 12
    for t in TARGETS:
        for s in range(0, n, per):
            specs.append({"part": "irgen", "target": t, "start": s, "count": per})
        for sub in range(nsub):
            specs.append({"part": "matrix", "target": t, "stride": stride, "offset": seed % stride, "sub": sub,
                          "nsub": nsub})
        specs.append({"part": "directed", "target": t})
    return specs


def floors(tier):
    q = tier == "quick"
    f = {"evaluations": 8000 if q else 100000, "distinct_nontrivial": 1000 if q else 8000,
         "observed.levels": 4, "observed.external_calls_compared": 1000, "observed.globals_compared": 5000,
         "observed.spill_frames": 30, "observed.matrix_cells": 3000 if q else 20000,
         "observed.pointer_cells_translated": 10, "observed.stack_passed_calls": 30}
    for t in TARGETS:
        f["observed.executed_by_target.%s" % t] = 2000 if q else 15000
        f["observed.modules_built.%s" % t] = 150 if q else 1500
    return f


# --------------------------------------------------------------------------
# known findings of C05: avoid switches (feature patterns of vlib.cgmatrix on the IR given to the back-end,
# or a predicate over integer constants) -- the trigger construct is rewritten away / not generated.

RV = ["riscv", "riscv:rvc"]


def _clui_truncated(tyname, v):
    """i32 constants for which the rvc pattern 'CONSTI32 value < 0x20000' emits c.lui with an upper part outside
    its 6-bit signed immediate."""
    if tyname != "i32" or v >= 0x20000 or -32 <= v < 32:
        return False
    return not (-32 <= ((v + 0x800) >> 12) <= 31)


NARROW = ["i8", "u8", "i16", "u16"]

# key -> targets, deny (cgmatrix feature patterns), const (predicate over (type name, value) of every integer
# constant), opconst (predicate over (binop operation, type name, value) of a constant operand of a binop)
FINDINGS = {
    "riscv-neg-inv-overwrite-operand": {"targets": RV, "deny": ["unop:-:*", "unop:~:*"]},
    "rvc-consti32-clui-immediate-truncated": {"targets": ["riscv:rvc"], "const": _clui_truncated},
    "riscv-imm12-patterns-without-lower-bound": {
        "targets": RV, "opconst": lambda op, ty, v, side: ty == "i32" and op in "+&|^" and v < -2048},
    "riscv-subword-values-not-normalised": {
        "targets": RV, "deny": ["binop:[+*-]:[iu]8", "binop:[+*-]:[iu]16", "binop:<<:[iu]8", "binop:<<:[iu]16",
                                "cast:[iu]32:[iu]8", "cast:[iu]32:[iu]16", "cast:[iu]16:[iu]8", "cast:ptr:[iu]8",
                                "cast:ptr:[iu]16", "cast:i8:u8", "cast:u8:i8", "cast:i16:u16", "cast:u16:i16"]},
    "rvc-shift-constant-lhs-operands-swapped": {
        "targets": ["riscv:rvc"],
        "opconst": lambda op, ty, v, side: ty == "i32" and op in ("<<", ">>") and side == "lhs" and v < 16},
    "rvc-signed-shift-right-by-constant-is-logical": {
        "targets": ["riscv:rvc"],
        "opconst": lambda op, ty, v, side: ty == "i32" and op == ">>" and side == "rhs" and v < 16},
    "rvc-caddi-negative-immediate-sign-bit-dropped": {
        "targets": ["riscv:rvc"], "opconst": lambda op, ty, v, side: ty == "i32" and op == "+" and -32 <= v < 0},
    "riscv-signed-subword-to-unsigned-cast-zero-extends": {
        "targets": RV, "deny": ["cast:i8:u16", "cast:i8:u32", "cast:i16:u32", "cast:i8:ptr", "cast:i16:ptr"]},
    "riscv-frame-offset-beyond-imm12": {"targets": RV, "deny": ["frame:ge1024"]},
    "x86_64-inplace-rm-destination-spilled": {"targets": ["x86_64"], "at_trigger": True},
    "x86_64-float-to-int-rounds-to-nearest": {"targets": ["x86_64"], "deny": ["cast:f32:[iu]*", "cast:f64:[iu]*"]},
    "x86_64-stack-passed-f32-parameter-4-byte-slots": {"targets": ["x86_64"], "deny": ["param:f32:cls[89]", "param:f32:cls1[0-9]"]},
}


def c05_deny(target, avoid):
    pats = []
    for key in avoid:
        f = FINDINGS.get(key)
        if f and target in f["targets"]:
            pats += f.get("deny", [])
    return pats


def const_predicates(target, avoid):
    """(const predicates, operand-constant predicates) of the open findings that apply to the target."""
    fs = [FINDINGS[k] for k in avoid if k in FINDINGS and target in FINDINGS[k]["targets"]]
    return [f["const"] for f in fs if "const" in f], [f["opconst"] for f in fs if "opconst" in f]


def _const_of(v):
    """The constant behind a value, looking through integer casts that keep the width (the selection DAG does too)."""
    from ppci import ir

    while isinstance(v, ir.Cast) and v.ty is not ir.ptr and v.src.ty is not ir.ptr and v.ty.is_integer \
            and getattr(v.src.ty, "is_integer", False) and v.src.ty.bits == v.ty.bits:
        v = v.src
    return v if isinstance(v, ir.Const) else None


def _harmless(ty, v):
    lim = 100 if ty.bits <= 8 else 20000
    return 40 + abs(v) % lim


def rewrite_constants(m, preds):
    """Replace integer constants that trigger an open finding by a harmless value of the same type
    (positive, non-zero, small).  Returns the number of rewrites."""
    from ppci import ir

    cps, ops = preds
    if not cps and not ops:
        return 0
    n = 0
    for f in m.functions:
        for b in f.blocks:
            for ins in b.instructions:
                if isinstance(ins, ir.Const) and isinstance(ins.value, int) and ins.ty is not ir.ptr \
                        and any(p(ins.ty.name, ins.value) for p in cps):
                    ins.value = _harmless(ins.ty, ins.value)
                    n += 1
                elif isinstance(ins, ir.Binop) and ops and ins.ty is not ir.ptr:
                    for side, c in (("lhs", _const_of(ins.a)), ("rhs", _const_of(ins.b))):
                        if c is not None and isinstance(c.value, int) \
                                and any(p(ins.operation, ins.ty.name, c.value, side) for p in ops):
                            c.value = _harmless(c.ty, c.value) if ins.operation not in ("<<", ">>") or side == "lhs" \
                                else 16 + abs(c.value) % 15
                            n += 1
    return n


# --------------------------------------------------------------------------
# C corpus (front-end idioms: pointer arithmetic, arrays, structs, switch)

C_CORPUS = [
    ("arr_sum", ["int", "int"], """
int tab[8] = {3, -1, 4, 1, -5, 9, 2, -6};
int acc;
int arr_sum(int n, int k) {
  int i, s = 0;
  for (i = 0; i < (n & 15); i++) { s += tab[(i + k) & 7] * (i + 1); tab[i & 7] = s; }
  acc = s;
  return s;
}
"""),
    ("struct_pass", ["int", "int"], """
struct P { int x; int y; short z; char c; };
struct P gp = {1, 2, 3, 4};
int helper(struct P *p, int k) { p->x += k; p->z = (short)(p->y - k); return p->x ^ p->z; }
int struct_pass(int a, int b) {
  struct P l;
  l.x = a; l.y = b; l.z = 7; l.c = 1;
  gp.y = helper(&l, b) + helper(&gp, a);
  return l.x + l.z + gp.x;
}
"""),
    ("switcher", ["int", "int"], """
int out[4];
int switcher(int a, int b) {
  int r = 0;
  switch (a & 7) {
    case 0: r = b + 1; break;
    case 1: r = b - 1; break;
    case 2: r = b << 2; break;
    case 3: r = b >> 1; break;
    case 5: r = b ^ 0x55; break;
    default: r = -b; break;
  }
  out[a & 3] = r;
  return r + out[(a + 1) & 3];
}
"""),
    ("ptr_walk", ["int", "int"], """
unsigned char buf[16] = {1,2,3,4,5,6,7,8,9,10,11,12,13,14,15,16};
unsigned short hw[4];
int ptr_walk(int n, int m) {
  unsigned char *p = buf;
  unsigned char *e = buf + (n & 15);
  unsigned int s = (unsigned)m;
  while (p != e) { s = s * 31u + *p; *p = (unsigned char)s; p++; }
  hw[n & 3] = (unsigned short)s;
  return (int)(s & 0x7fffffff);
}
"""),
    ("rec_gcd", ["int", "int"], """
int depth;
int gcd(int a, int b) { depth++; if (b == 0) return a; return gcd(b, a % b); }
int rec_gcd(int a, int b) { if (a < 0) a = -(a / 2); if (b < 0) b = -(b / 2); return gcd(a & 0xffff, (b & 0xfff) + 1); }
"""),
    ("many_params", ["int", "int", "int", "int"], """
int sink[2];
int callee8(int a, int b, int c, int d, int e, int f, int g, int h2) { sink[0] = a + c + e + g; sink[1] = b + d + f + h2; return a - b + c - d + e - f + g - h2; }
int many_params(int a, int b, int c, int d) { return callee8(a, b, c, d, a + 1, b + 2, c + 3, d + 4) + callee8(d, c, b, a, 1, 2, 3, 4); }
"""),
    ("unsigned_ops", ["unsigned int", "unsigned int"], """
unsigned int res[3];
unsigned int unsigned_ops(unsigned int a, unsigned int b) {
  unsigned int d = (b & 0xffff) + 1;
  res[0] = a / d; res[1] = a % d; res[2] = (a >> (b & 31)) | (a << ((32 - (b & 31)) & 31));
  return (a > b) ? res[0] + res[2] : res[1] - res[2];
}
"""),
    ("bytes_shorts", ["int", "int"], """
signed char sc[4]; short sh[4];
int bytes_shorts(int a, int b) {
  sc[0] = (signed char)a; sc[1] = (signed char)(a >> 8); sh[0] = (short)b; sh[1] = (short)(a + b);
  return sc[0] * sh[0] + sc[1] - sh[1];
}
"""),
]


def ctype_ir(name):
    return {"int": "i32", "unsigned int": "u32"}[name]


# --------------------------------------------------------------------------


class Mon:
    def __init__(self, spec):
        self.spec = spec
        self.evals = 0
        self.hashes = set()
        self.viol = []
        self.viol_keys = set()
        self.disc = {}
        self.samples = []
        self.inconclusive = []
        self.obs = {"executed_by_target": {}, "modules_built": {}, "levels": {}, "functions": {}, "build_failed": {},
                    "instructions_retired": {}, "emulator_mnemonics": {}, "ppci_instruction_classes": {},
                    "literal_pool_symbols": 0, "globals_compared": 0, "pointer_cells_translated": 0,
                    "external_calls_compared": 0, "spill_frames": 0, "frames": 0, "stack_passed_calls": 0,
                    "callee_saved_checked": 0, "tags": {}, "neutralised_constructs": 0, "return_types": {},
                    "narrow_return_upper_bits_not_extended": 0, "pressure": {}}

    def bump(self, d, k, n=1):
        d[k] = d.get(k, 0) + n

    def discard(self, why, n=1):
        self.disc[why] = self.disc.get(why, 0) + n

    def violation(self, key, summary, case):
        if key in self.viol_keys or len(self.viol) >= int(os.environ.get("C05_MAXVIOL", "12")):
            return
        self.viol_keys.add(key)
        self.viol.append({"summary": summary[:400], "case": case, "replay_spec": case.get("replay_spec")})

    def result(self):
        return {"evaluations": self.evals, "nontrivial_hashes": sorted(self.hashes), "observed": self.obs,
                "discarded": self.disc, "samples": self.samples[:2], "violations": self.viol,
                "inconclusive": self.inconclusive[:5]}


def setup():
    import logging
    import sys

    logging.disable(logging.CRITICAL)
    sys.setrecursionlimit(20000)


class Target:
    """Everything target specific: types, layout, stub object, executor."""

    def __init__(self, name, mon, avoid=()):
        from ppci import api
        from vlib import cgmatrix as cm
        from checks import c29

        self.name = name
        self.mon = mon
        self.avoid = tuple(avoid)
        self.arch = api.get_arch(name)
        self.x86 = name == "x86_64"
        self.ptr_size = self.arch.info.get_size("ptr")
        self.c29_avoid = open_keys("C29")
        self.deny = c29.deny_for(name, self.c29_avoid) + c05_deny(name, avoid)
        self.const_preds = const_predicates(name, avoid)
        c29.install_allocator_switches(name, self.c29_avoid)
        types = cm.target_types(self.arch)
        if not self.x86:
            types = [t for t in types if t[0] != "f"]     # the emulator has no F/D
        self.types = types
        self.native = "i32"
        self.layout = X86_LAYOUT if self.x86 else RV_LAYOUT
        self._tap()

    def _tap(self):
        """Output tap: which instruction classes ppci emitted, which frames spilled."""
        from ppci.codegen.registerallocator import GraphColoringRegisterAllocator as RA

        RA._c05_x86_switch = self.x86 and "x86_64-inplace-rm-destination-spilled" in self.avoid
        if getattr(RA, "_c05_tapped", False):
            RA._c05_mon = self.mon
            return
        RA._c05_tapped = True
        RA._c05_mon = self.mon
        orig = RA.alloc_frame

        def alloc_frame(ra, frame):
            res = orig(ra, frame)
            mon = RA._c05_mon
            try:
                mon.obs["frames"] += 1
                if getattr(ra, "_c05_spilled", False):
                    mon.obs["spill_frames"] += 1
                for ins in frame.instructions:
                    n = type(ins).__name__
                    mon.obs["ppci_instruction_classes"][n] = mon.obs["ppci_instruction_classes"].get(n, 0) + 1
            except Exception:  # noqa  the tap must never disturb the compilation
                pass
            ra._c05_spilled = False
            return res

        orig_rewrite = RA.rewrite_program

        def rewrite_program(ra, node):
            ra._c05_spilled = True
            if RA._c05_x86_switch:
                # avoid switch of x86_64-inplace-rm-destination-spilled, at the trigger: the allocator is about to
                # spill a register that some instruction modifies in place through an undeclared r/m destination
                from checks.c29 import Avoided
                for ins in ra.frame.instructions:
                    reg = x86_inplace_rm_destination(ins)
                    if reg is not None and reg in node.temps:
                        raise Avoided("x86_64-inplace-rm-destination-spilled")
            return orig_rewrite(ra, node)

        RA.alloc_frame = alloc_frame
        RA.rewrite_program = rewrite_program

    # ---- stubs for externals -------------------------------------------------
    def stub_object(self, names):
        from vlib import objgen
        from vlib import x86probe

        data = bytearray()
        syms = []
        for k, name in enumerate(names):
            off = len(data)
            if self.x86:
                data += x86probe.ext_stub_bytes(k) + b"\xcc"
            else:
                data += (0x00100073).to_bytes(4, "little")      # ebreak
            syms.append({"id": k, "name": name, "binding": "global", "value": off, "section": "code", "typ": "func",
                         "size": 0})
        spec = {"arch": self.name, "sections": [{"name": "code", "alignment": 8, "data": bytes(data).hex(), "address": 0}],
                "symbols": syms, "relocations": [], "images": [], "entry": None, "debug": None}
        return objgen.build_object(spec)


KINDS = ("none", "i8", "u8", "i16", "u16", "i32", "u32", "i64", "u64", "f32", "f64", "ptr")


def x86_inplace_rm_destination(ins):
    """The register an x86-64 instruction modifies in place through a *register* r/m operand that is its first
    (destination) operand, when the instruction does not declare it as written; else None."""
    rm = getattr(ins, "rm", None)
    reg = getattr(rm, "reg_rm", None)
    if reg is None:
        return None
    try:
        syn = type(ins).syntax
        first = syn.formal_arguments[0]
        mnemonic = syn.syntax[0]
    except Exception:  # noqa
        return None
    if getattr(first, "_name", None) != "rm" or mnemonic in ("cmp", "test", "push", "call", "jmp"):
        return None
    if any(r is reg for r in ins.defined_registers):
        return None
    return reg


def type_name(ty):
    from ppci import ir

    return "ptr" if ty is ir.ptr else ty.name


def externals_of(m):
    """[(name, [argument kind names], result kind name, external)]; kind "blob" = passed by value in memory."""
    from ppci import ir

    out = []
    for e in m.externals:
        if isinstance(e, ir.ExternalSubRoutine):
            aks = []
            for t in e.argument_types:
                k = type_name(t)
                aks.append(k if k in KINDS else "blob")
            rk = type_name(e.return_ty) if isinstance(e, ir.ExternalFunction) else "none"
            out.append((e.name, aks, rk if rk in KINDS else "none", e))
    return out


def norm_ext_arg(word, kind):
    """Observable form of one external-call argument word (same shape as refinterp's trace entries)."""
    if word is None or kind in ("ptr", "blob", "none"):
        return None
    if kind == "f32":
        b = word & 0xFFFFFFFF
        return "nan" if (b & 0x7F800000) == 0x7F800000 and b & 0x7FFFFF else "f32:%08x" % b
    if kind == "f64":
        b = word & 0xFFFFFFFFFFFFFFFF
        return "nan" if (b & 0x7FF0000000000000) == 0x7FF0000000000000 and b & 0xFFFFFFFFFFFFF else "f64:%016x" % b
    return wrap_int(word, kind)


def wrap_int(v, kind):
    bits = {"i8": 8, "u8": 8, "i16": 16, "u16": 16, "i32": 32, "u32": 32, "i64": 64, "u64": 64}[kind]
    v &= (1 << bits) - 1
    if kind[0] == "i" and v >> (bits - 1):
        v -= 1 << bits
    return v


def build(tgt, m):
    """ir_to_object + link.  -> ("ok", linked) | ("build", exc) | ("link", exc) | ("avoided", reason)"""
    from ppci import api
    from checks.c29 import Avoided, Watchdog, _on_alarm
    import signal

    old = signal.signal(signal.SIGALRM, _on_alarm)
    signal.setitimer(signal.ITIMER_REAL, 120)
    try:
        try:
            obj = api.ir_to_object([m], tgt.arch)
        except Avoided as e:
            return "avoided", str(e)
        except Watchdog:
            return "avoided", "watchdog-timeout"
        except Exception as e:  # noqa  C29's event
            return "build", e
    finally:
        signal.setitimer(signal.ITIMER_REAL, 0)
        signal.signal(signal.SIGALRM, old)
    exts = externals_of(m)
    if len(exts) > 64:
        return "avoided", "more than 64 externals"
    try:
        objs = [obj]
        if exts:
            objs.append(tgt.stub_object([e[0] for e in exts]))
        linked = api.link(objs, layout=io.StringIO(tgt.layout), use_runtime=False)
    except Exception as e:  # noqa
        return "link", e
    tgt.mon.obs["literal_pool_symbols"] += sum(1 for s in obj.symbols if "_literal_" in s.name)
    return "ok", linked


def memories_of(linked):
    """[(name, address, bytes)] of the linked images."""
    out = []
    for im in linked.images:
        out.append((im.name, im.address, bytes(im.data)))
    return out


# --------------------------------------------------------------------------
# executors: both return {call id: {"status", "ret" (raw int or None), "globals": {name: bytes}, "trace": [(name, int)],
#                                    "steps": int, "notes": [...]}}


def exec_rv(tgt, linked, m, calls, steps_of):
    from ppci import ir
    from ppci.arch.registers import Register
    from vlib import rv32emu
    from vlib.refinterp import default_external

    mems = memories_of(linked)
    exts = externals_of(m)
    ext_by_addr = {linked.get_symbol_value(e[0]): e for e in exts}
    gaddr = {v.name: (linked.get_symbol_value(v.name), v.amount) for v in m.variables}
    out = {}
    for c in calls:
        f = c["f"]
        mach = rv32emu.Machine()
        for name, addr, data in mems:
            mach.add_region(addr, data + bytes(64), writable=(name != "code"), name=name)
        mach.add_region(RV_STACK[0], RV_STACK[1], True, name="stack")
        mach.allow_misaligned = True      # the base ISA permits misaligned data accesses (EEI's choice)
        sp = RV_STACK[0] + RV_STACK[1] - 1024
        locs = tgt.arch.determine_arg_locations([p.ty for p in f.arguments])
        r = c["noise"]
        for i in range(5, 32):
            mach.x[i] = (0xA5000000 + i * 0x01010101 + r) & 0xFFFFFFFF
        saved = {}
        nstack = 0
        for loc, p, a in zip(locs, f.arguments, c["args"]):
            a = mach_arg(linked, a, 32)
            w = wrap_int(int(a), type_name(p.ty) if p.ty is not ir.ptr else "u32") & 0xFFFFFFFF
            if isinstance(loc, Register):
                mach.x[loc.num] = w
            else:
                mach.write_mem(sp + loc.offset, w.to_bytes(4, "little"))
                nstack += 1
        if nstack:
            tgt.mon.obs["stack_passed_calls"] += 1
        mach.x[2] = sp
        mach.x[1] = mach.SENTINEL
        for reg in tgt.arch.callee_save:
            saved[reg.num] = mach.x[reg.num]
        fp0 = mach.x[8]
        mach.pc = linked.get_symbol_value(f.name)
        budget = 200 * steps_of(c) + 100000
        trace = []
        count = 0
        status = None
        while True:
            left = budget - mach.instret
            if left <= 0:
                status = "steps"
                break
            st = mach.run(left)
            if st == "fault:ebreak" and mach.pc in ext_by_addr:
                name, aks, rk, e = ext_by_addr[mach.pc]
                count += 1
                argv = []
                elocs = tgt.arch.determine_arg_locations(list(e.argument_types))
                for ak, eloc in zip(aks, elocs):
                    if ak == "blob":
                        argv.append(None)
                    elif isinstance(eloc, Register):
                        argv.append(norm_ext_arg(mach.x[eloc.num], ak if ak != "ptr" else "ptr"))
                    else:
                        argv.append(norm_ext_arg(int.from_bytes(mach.read_mem(mach.x[2] + eloc.offset, 4), "little"), ak))
                trace.append((name, argv))
                rv = default_external(name, [a for a in argv if isinstance(a, int)], count,
                                      e.return_ty if rk != "none" else None)
                for rn in range(10, 18):          # caller-saved registers of ppci's convention
                    mach.x[rn] = (0xC0DE0000 + rn * 0x111) & 0xFFFFFFFF
                for rn in (5, 6, 7, 28, 29, 30, 31):
                    mach.x[rn] = (0xBAD00000 + rn) & 0xFFFFFFFF
                if rk != "none":
                    mach.x[10] = int(rv) & 0xFFFFFFFF
                mach.pc = mach.x[1]
                continue
            status = st
            break
        res = {"status": "ok" if status == "ret" else status, "steps": mach.instret, "trace": trace, "globals": {},
               "ret": mach.x[10], "notes": []}
        tgt.mon.bump(tgt.mon.obs["instructions_retired"], tgt.name, mach.instret)
        for k2, v2 in mach.hist.items():
            tgt.mon.bump(tgt.mon.obs["emulator_mnemonics"], k2, v2)
        if status == "ret":
            if mach.x[2] != sp:
                res["notes"].append("sp after return %#x, at entry %#x" % (mach.x[2], sp))
            bad = [n for n, v in saved.items() if mach.x[n] != v]
            if mach.x[8] != fp0:
                bad.append(8)
            tgt.mon.obs["callee_saved_checked"] += 1
            if bad:
                res["notes"].append("callee-saved registers changed: %s" % ["x%d" % b for b in bad])
            for g, (addr, size) in gaddr.items():
                res["globals"][g] = bytes(mach.read_mem(addr, size))
        out[c["id"]] = res
    return out


def exec_x86(tgt, linked, m, calls, steps_of):
    from ppci import ir
    from vlib import x86probe

    mems = [(addr, len(data) + 64, name != "code", name == "code", data) for name, addr, data in memories_of(linked)]
    exts = externals_of(m)
    gaddr = {v.name: (linked.get_symbol_value(v.name), v.amount) for v in m.variables}
    script = []
    for c in calls:
        f = c["f"]
        kinds = [type_name(p.ty) for p in f.arguments]
        ireg, freg, stack = x86probe.sysv_classify(kinds, [mach_arg(linked, a, 64) for a in c["args"]],
                                                   noise=0x5EED0000 + c["noise"])
        if stack:
            tgt.mon.obs["stack_passed_calls"] += 1
        script.append({"id": c["id"], "fn": linked.get_symbol_value(f.name), "ireg": ireg, "freg": freg, "stack": stack,
                       "dumps": [(a, n) for a, n in gaddr.values()]})
    raw = x86probe.run_image(mems, [(e[0], e[1], e[2]) for e in exts], script, tag="c05")
    out = {}
    ext_kinds = {e[0]: e[1] for e in exts}
    for c in calls:
        r = raw.get(c["id"]) or {"status": "harness", "reason": "no result"}
        if r["status"] != "ok":
            out[c["id"]] = {"status": r["status"] + (":%s" % r.get("signal") if "signal" in r else "") +
                            (":%s" % r.get("reason") if "reason" in r else ""), "steps": 0, "trace": [], "globals": {},
                            "ret": None, "notes": []}
            continue
        res = {"status": "ok", "steps": 0, "globals": {}, "notes": [], "ret": r["rax"], "xmm0": r["xmm0"],
               "trace": [(n, [norm_ext_arg(w, k) for w, k in zip(list(ws) + [None] * len(ext_kinds.get(n, [])),
                                                                  ext_kinds.get(n, []))]) for n, ws in r["trace"]]}
        tgt.mon.obs["callee_saved_checked"] += 1
        if not r["callee_saved_ok"]:
            res["notes"].append("callee-saved registers (rbx, rbp, r12-r15) changed")
        if not r["rsp_ok"]:
            res["notes"].append("rsp after return differs from rsp at the call")
        for g, (addr, size) in gaddr.items():
            res["globals"][g] = r["dumps"].get(addr, b"")[:size]
        out[c["id"]] = res
    return out


# --------------------------------------------------------------------------
# comparison


def compare(tgt, linked, f, ref, got):
    """-> list of differences (strings)."""
    from ppci import ir
    import struct

    diffs = []
    if got["status"] != "ok":
        return ["machine code run ended with %s (reference returns %r after %d IR steps)" % (
            got["status"], ref.retval, ref.steps)]
    diffs.extend(got["notes"])
    pbits = tgt.ptr_size * 8
    pmask = (1 << pbits) - 1

    def sym(kind, label):
        try:
            return linked.get_symbol_value(label)
        except Exception:  # noqa
            return None

    # return value
    if isinstance(f, ir.Function):
        rty = f.return_ty
        want = ref.retval
        tgt.mon.bump(tgt.mon.obs["return_types"], type_name(rty))
        if rty is ir.ptr:
            if isinstance(want, list) and want[0] == "ptrnum":
                if got["ret"] & pmask != want[1] & pmask:
                    diffs.append("returned pointer number %#x, reference %#x" % (got["ret"] & pmask, want[1] & pmask))
            elif isinstance(want, list) and want[0] == "ptr" and len(want) == 4 and want[1] in ("global", "func"):
                base = sym(want[1], want[2])
                if base is not None and got["ret"] & pmask != (base + want[3]) & pmask:
                    diffs.append("returned pointer %#x, reference %s+%d = %#x" % (got["ret"] & pmask, want[2], want[3],
                                                                                 (base + want[3]) & pmask))
                tgt.mon.obs["pointer_cells_translated"] += 1
        elif rty in (ir.f32, ir.f64):
            if rty is ir.f32:
                bits = got["xmm0"] & 0xFFFFFFFF
                txt = "f32:%08x" % bits
                isnan = (bits & 0x7F800000) == 0x7F800000 and bits & 0x7FFFFF
            else:
                bits = got["xmm0"]
                txt = "f64:%016x" % bits
                isnan = (bits & 0x7FF0000000000000) == 0x7FF0000000000000 and bits & 0xFFFFFFFFFFFFF
            if isnan:
                txt = "nan"
            if txt != want:
                diffs.append("returned %s, reference %s" % (txt, want))
        else:
            kind = type_name(rty)
            val = wrap_int(got["ret"], kind)
            if val != want:
                diffs.append("returned %r, reference %r" % (val, want))
            elif rty.bits < 32:
                ext = wrap_int(val, "i32") & 0xFFFFFFFF
                if got["ret"] & 0xFFFFFFFF != ext:
                    tgt.mon.obs["narrow_return_upper_bits_not_extended"] += 1
    # globals
    for g, items in sorted((ref.globals or {}).items()):
        have = got["globals"].get(g)
        if have is None:
            continue
        off = 0
        for it in items:
            if it == "??":
                off += 1
            elif isinstance(it, str):
                b = bytes.fromhex(it)
                if have[off:off + len(b)] != b:
                    diffs.append("global %s bytes [%d:%d] = %s, reference %s" % (g, off, off + len(b),
                                                                               have[off:off + len(b)].hex(), it))
                tgt.mon.obs["globals_compared"] += 1
                off += len(b)
            else:
                if it[0] == "ptr" and it[1] in ("global", "func"):
                    base = sym(it[1], it[2])
                    val = int.from_bytes(have[off:off + tgt.ptr_size], "little")
                    if base is not None:
                        tgt.mon.obs["pointer_cells_translated"] += 1
                        if val != (base + it[3]) & pmask:
                            diffs.append("global %s pointer cell at %d = %#x, reference %s+%d = %#x" % (
                                g, off, val, it[2], it[3], (base + it[3]) & pmask))
                off += tgt.ptr_size
    # external trace
    def simple(a):
        return a if isinstance(a, (int, str)) and not isinstance(a, bool) else None

    want_trace = [(n, [simple(a) for a in args]) for n, args in ref.trace]
    got_trace = []
    for (n, args), w in zip(got["trace"], want_trace + [(None, [])] * len(got["trace"])):
        # an argument the reference cannot name (pointer, blob) is not compared
        got_trace.append((n, [a if k < len(w[1]) and w[1][k] is not None else None for k, a in enumerate(args)]))
    if len(got_trace) != len(want_trace) or got_trace != want_trace:
        diffs.append("external calls %r, reference %r" % (got_trace[:5], want_trace[:5]))
    tgt.mon.obs["external_arguments_compared"] = tgt.mon.obs.get("external_arguments_compared", 0) + sum(
        1 for _, args in want_trace for a in args if a is not None)
    tgt.mon.obs["external_calls_compared"] += len(want_trace)
    return diffs


# --------------------------------------------------------------------------
# one module through all levels


ARENA = "c05_arena"
ARENA_SIZE = 4096


def callable_function(f):
    from ppci import ir

    return all(not isinstance(p.ty, ir.BlobDataTyp) for p in f.arguments)


def add_arena(m):
    """A global the harness points pointer arguments into ({"arena": offset} in an argument vector)."""
    from ppci import ir

    data = bytes((i * 37 + 11) & 0xFF for i in range(ARENA_SIZE))
    m.add_variable(ir.Variable(ARENA, ir.Binding.GLOBAL, ARENA_SIZE, 16, value=(data,)))


def ref_args(it, vec):
    """Argument vector for vlib.refinterp: pointer arguments become (region, offset) pairs that resolve the arena
    region of the run in progress."""
    from vlib.refinterp import Ptr

    class ArenaPtr(Ptr):
        __slots__ = ("interp",)
        region = property(lambda self: self.interp.gregions[ARENA])

        def __init__(self, interp, off):
            self.interp = interp
            self.off = off

    out = []
    for a in vec:
        if isinstance(a, dict):
            out.append(ArenaPtr(it, a["arena"]) if "arena" in a else Ptr(None, a["num"]))
        else:
            out.append(a)
    return out


def mach_arg(linked, a, bits):
    if isinstance(a, dict):
        if "arena" in a:
            return (linked.get_symbol_value(ARENA) + a["arena"]) & ((1 << bits) - 1)
        return a["num"] & ((1 << bits) - 1)
    return a


def run_module(tgt, mon, make_module, argvecs_of, levels, case, pressure=0, drop_avoided=False):
    """make_module() -> fresh module (deterministic); run it at each level."""
    from ppci import api, ir
    from ppci.irutils import verify_module
    from vlib import cgmatrix as cm, irwf, ircmp
    from vlib.refinterp import Interp
    from vlib.optmon import module_text

    base = make_module()
    if base is None:
        return
    argv = argvecs_of(base)
    for level in levels:
        try:
            m = ircmp.clone(base)
        except Exception as e:  # noqa  my machinery
            mon.discard("clone-failed:%s" % type(e).__name__)
            m = make_module()
        try:
            api.optimize(m, level)
        except Exception as e:  # noqa  (C02/C03)
            mon.discard("optimize-raised:%s" % type(e).__name__)
            continue
        # constructs of C29's open findings can reappear after optimisation
        mon.obs["neutralised_constructs"] += cm.neutralise(m, tgt.deny, tgt.native)
        mon.obs["neutralised_constructs"] += rewrite_constants(m, tgt.const_preds)
        try:
            verify_module(m)
            problems = irwf.check_module(m)
        except Exception as e:  # noqa
            problems = [repr(e)]
        if problems:
            mon.discard("ill-formed-after-optimize (C03's event)")
            continue
        hit = None
        for f in list(m.functions):
            fh = cm.avoided(cm.function_features(f), tgt.deny)
            if fh is not None and drop_avoided:
                m._functions.remove(f)        # matrix cells are independent functions
                mon.discard("cell-has-avoided-construct")
            elif fh is not None:
                hit = fh
        if hit is not None:
            mon.discard("module-has-avoided-construct:%s" % hit)
            continue
        # reference runs on the module the back-end is given
        it = Interp(m, ptr_size=tgt.ptr_size)
        calls = []
        refs = {}
        for f in m.functions:
            if not callable_function(f) or f.name not in argv:
                continue
            for k, vec in enumerate(argv[f.name]):
                ref = it.run(f.name, ref_args(it, vec), max_steps=60000)
                if ref.status != "ok":
                    mon.discard("reference-%s" % ref.status)
                    continue
                cid = len(calls)
                calls.append({"id": cid, "f": f, "args": vec, "noise": (k * 7919 + cid) & 0xFFFF, "k": k})
                refs[cid] = ref
        if not calls:
            mon.discard("no-defined-reference-run")
            continue
        st, linked = build(tgt, m)
        if st == "avoided":
            mon.discard("avoided-at-trigger:%s" % linked)
            continue
        if st == "build":
            mech = cm.failure_mechanism(linked)[0]
            mon.bump(mon.obs["build_failed"], "%s:%s" % (tgt.name, mech[:60]))
            mon.discard("build-failed (C29's event):%s" % tgt.name)
            continue
        if st == "link":
            import traceback
            mon.violation("link/%s/%s" % (tgt.name, type(linked).__name__),
                          "%s -O%s: linking the compiled module raised %s: %s" % (tgt.name, level, type(linked).__name__, str(linked)[:150]),
                          dict(case, level=level, target=tgt.name, ir=module_text(m)[:8000],
                               traceback="".join(traceback.format_exception(linked))[-1500:]))
            continue
        mon.bump(mon.obs["modules_built"], tgt.name)
        mon.bump(mon.obs["levels"], level)
        mon.bump(mon.obs["pressure"], str(pressure() if callable(pressure) else pressure))
        try:
            got = (exec_x86 if tgt.x86 else exec_rv)(tgt, linked, m, calls, lambda c: refs[c["id"]].steps)
        except Exception as e:  # noqa  harness trouble, never a verdict
            import traceback
            mon.inconclusive.append("executor failed: %s" % traceback.format_exc()[-400:])
            continue
        mh = None
        seen_f = set()
        skip_f = set()
        for c in calls:
            if c["f"].name in skip_f:
                continue
            ref, g = refs[c["id"]], got.get(c["id"])
            if g is None or g["status"].startswith("harness"):
                mon.discard("harness:%s" % (g or {}).get("status", "no result")[:40])
                continue
            mon.evals += 1
            mon.bump(mon.obs["executed_by_target"], tgt.name)
            if c["f"].name not in seen_f:
                seen_f.add(c["f"].name)
                mon.bump(mon.obs["functions"], tgt.name)
            if ref.steps >= 10 and ref.branches >= 1:
                if mh is None:
                    mh = ircmp.structural_hash(m)
                mon.hashes.add(h([mh, c["f"].name, c["args"], level, tgt.name]))
            diffs = compare(tgt, linked, c["f"], ref, g)
            if diffs:
                what = diffs[0].split(" ")[0:3]
                label = case.get("cells", {}).get(c["f"].name)
                mon.violation("%s/%s/%s/%s" % (tgt.name, case.get("id"), level, c["f"].name if label else ""),
                              "%s -O%s %s%s%r: %s" % (tgt.name, level, c["f"].name, (" " + cm.cell_key(label)) if label else "",
                                                        tuple(c["args"]), diffs[0][:250]),
                              dict(case, level=level, target=tgt.name, function=c["f"].name, args=c["args"],
                                   differences=diffs[:6], reference={"ret": ref.retval, "steps": ref.steps,
                                                                     "trace": ref.trace[:6]}, cell=label,
                                   ir=(function_text(c["f"]) if label else module_text(m))[:12000]))
                if label:
                    skip_f.add(c["f"].name)
                    continue
                break
            if len(mon.samples) < 2 and ref.steps > 40 and c["k"] == 1:
                mon.samples.append({"case": case, "target": tgt.name, "level": level, "function": c["f"].name,
                                    "args": c["args"], "ret": ref.retval, "ir_steps": ref.steps,
                                    "machine_steps": g.get("steps")})


def function_text(f):
    from checks.c29 import function_text as ft

    return ft(f)


def levels_for(spec, idx):
    if spec.get("levels"):
        return list(spec["levels"])
    if spec["tier"] == "thorough":
        return list(LEVELS)
    return ["0", LEVELS[1 + (idx + spec["seed"]) % 3]]


def irgen_cfg(r, tgt):
    from vlib import cgmatrix as cm

    def usable(t):
        base = ["binop:+:%s", "binop:-:%s", "binop:&:%s", "binop:^:%s", "load:%s", "store:%s", "const:%s", "param:%s",
                "cjump:<:%s", "cjump:==:%s", "phi:%s", "callarg:%s", "returns:%s"]
        if t[0] == "f":
            base = [b for b in base if "&" not in b and "^" not in b]
        if t not in ("i32", "u32"):
            base.append("cast:i32:%s")
        return cm.avoided({b % t for b in base}, tgt.deny) is None

    vals = [t for t in tgt.types if t != "ptr" and usable(t)]
    return {"ptr_size": tgt.ptr_size, "types": vals, "float": any(t[0] == "f" for t in vals),
            "float_to_int": cm.avoided({"cast:f64:i32", "cast:f32:i32"}, tgt.deny) is None,
            "size": r.choice([8, 14, 24, 36]), "n_funcs": 3, "shape": "mem" if r.random() < 0.2 else "ssa",
            "externals": True, "undefined": r.random() < 0.2, "volatile": r.random() < 0.2, "casts": True}


def run_irgen(spec, mon, tgt):
    from ppci.irutils import verify_module
    from vlib import cgmatrix as cm, irgen, irwf

    for idx in range(spec["start"], spec["start"] + spec["count"]):
        state = {}

        def make():
            r = rng(spec["seed"], PROPERTY, "%s/%d" % (tgt.name, idx))
            cfg = irgen_cfg(r, tgt)
            try:
                m, info = irgen.gen_module(r, cfg)
                mon.obs["neutralised_constructs"] += cm.neutralise(m, tgt.deny, tgt.native)
                mon.obs["neutralised_constructs"] += rewrite_constants(m, tgt.const_preds)
                pressure = r.choice([0, 0, 6, 12, 24])
                if pressure:
                    cm.add_pressure(m, r, pressure, tgt.ptr_size)
                verify_module(m)
                problems = irwf.check_module(m)
            except Exception as e:  # noqa  generator trouble is mine
                mon.discard("generator-error:%s" % type(e).__name__)
                return None
            if problems:
                mon.discard("generator-ill-formed")
                return None
            state.update(r=r, info=info, cfg=cfg, pressure=pressure)
            return m

        def argvecs(m):
            r = state["r"]
            return {fn: irgen.gen_args(r, m, fn, 3) for fn in state["info"]["functions"]}

        case = {"id": "irgen/%s/%s/%d" % (spec["seed"], tgt.name, idx), "index": idx,
                "replay_spec": {"part": "irgen", "target": tgt.name, "start": idx, "count": 1, "tier": spec["tier"],
                                "seed": spec["seed"], "avoid": spec["avoid"]}}
        before = mon.evals
        run_module(tgt, mon, make, argvecs, levels_for(spec, idx), case, pressure=lambda: state.get("pressure", 0))
        if state.get("info") and mon.evals > before:
            for t in state["info"]["tags"]:
                mon.bump(mon.obs["tags"], t)


# --------------------------------------------------------------------------
# directed modules: C corpus + register pressure around in-place / implicit-register instructions


def pressure_module(ptr_size, tyname, op, n_live, with_call):
    """f(a, b): t = a op b computed while n_live other values derived from a, b stay alive until the end
    (summed with xor into the result); optionally a call in between."""
    from ppci import ir

    ty = ir.get_ty(tyname)
    m = ir.Module("press")
    g = ir.Variable("g_out", ir.Binding.GLOBAL, 8, 8, value=None)
    m.add_variable(g)
    if with_call:
        hf = ir.Function("helper", ir.Binding.GLOBAL, ty)
        m.add_function(hf)
        hp = ir.Parameter("x", ty)
        hf.add_parameter(hp)
        hb = ir.Block("helper_b")
        hf.add_block(hb)
        hf.entry = hb
        one = ir.Const(1, "one", ty)
        hb.add_instruction(one)
        hr = ir.Binop(hp, "+", one, "hr", ty)
        hb.add_instruction(hr)
        hb.add_instruction(ir.Return(hr))
    f = ir.Function("f", ir.Binding.GLOBAL, ty)
    m.add_function(f)
    a, b = ir.Parameter("a", ty), ir.Parameter("b", ty)
    f.add_parameter(a)
    f.add_parameter(b)
    blk = ir.Block("f_b")
    f.add_block(blk)
    f.entry = blk
    live = []
    for i in range(n_live):
        c = ir.Const((i * 37 + 11) % 120, "c%d" % i, ty)
        blk.add_instruction(c)
        v = ir.Binop(a if i % 2 else b, "+" if i % 3 else "^", c, "v%d" % i, ty)
        blk.add_instruction(v)
        live.append(v)
    if op in ("<<", ">>"):
        mask = ir.Const(ty.bits - 1, "mask", ty)
        blk.add_instruction(mask)
        cnt = ir.Binop(b, "&", mask, "cnt", ty)
        blk.add_instruction(cnt)
        rhs = cnt
    elif op in ("/", "%"):
        m7 = ir.Const(0x3F, "m7", ty)
        blk.add_instruction(m7)
        d0 = ir.Binop(b, "&", m7, "d0", ty)
        blk.add_instruction(d0)
        o1 = ir.Const(1, "o1", ty)
        blk.add_instruction(o1)
        rhs = ir.Binop(d0, "+", o1, "d1", ty)
        blk.add_instruction(rhs)
    else:
        rhs = b
    t = ir.Binop(a, op, rhs, "t", ty)
    blk.add_instruction(t)
    if with_call:
        t2 = ir.FunctionCall(m.get_function("helper"), [t], "t2", ty)
        blk.add_instruction(t2)
    else:
        t2 = t
    # a second use of both operands after the operation (in-place destruction would show)
    acc = ir.Binop(t2, "^", a, "acc0", ty)
    blk.add_instruction(acc)
    acc2 = ir.Binop(acc, "+", rhs, "acc1", ty)
    blk.add_instruction(acc2)
    acc = acc2
    for i, v in enumerate(live):
        acc = ir.Binop(acc, "^" if i % 2 else "+", v, "s%d" % i, ty)
        blk.add_instruction(acc)
    blk.add_instruction(ir.Store(t, g))
    blk.add_instruction(ir.Return(acc))
    return m


def run_directed(spec, mon, tgt):
    from ppci import api, ir
    from vlib import irgen, cgmatrix as cm

    # (1) C corpus
    for name, ptypes, src in C_CORPUS:
        def make(src=src):
            try:
                return api.c_to_ir(io.StringIO(src), tgt.arch)
            except Exception as e:  # noqa  front-end trouble is C01/C28's
                mon.discard("c-front-end-raised:%s" % type(e).__name__)
                return None

        def argvecs(m, name=name, ptypes=ptypes):
            r = rng(spec["seed"], PROPERTY, "corpus/" + name)
            vecs = []
            for k in range(5):
                vecs.append([irgen.boundary_int(r, ir.get_ty(ctype_ir(t))) if k else r.choice([0, 1, 2, 3, 5]) for t in ptypes])
            return {name: vecs}

        case = {"id": "corpus/%s" % name, "source": src,
                "replay_spec": {"part": "directed", "target": tgt.name, "tier": spec["tier"], "seed": spec["seed"],
                                "avoid": spec["avoid"]}}
        run_module(tgt, mon, make, argvecs, LEVELS, case)
    # (2) pressure around every binary operator
    types = [t for t in tgt.types if t != "ptr" and t[0] != "f"]
    cells = []
    for ty in types:
        for op in ("+", "-", "*", "/", "%", "<<", ">>", "&", "|", "^"):
            for n_live in (4, 10, 18):
                for with_call in (False, True):
                    feats = {"binop:%s:%s" % (op, ty)}
                    if cm.avoided(feats, tgt.deny) is not None:
                        continue
                    cells.append((ty, op, n_live, with_call))
    stride = 1 if spec["tier"] == "thorough" else 3
    cells = cells[spec["seed"] % stride::stride]
    for ty, op, n_live, with_call in cells:
        def make(ty=ty, op=op, n_live=n_live, with_call=with_call):
            return pressure_module(tgt.ptr_size, ty, op, n_live, with_call)

        def argvecs(m, ty=ty, op=op, n_live=n_live):
            r = rng(spec["seed"], PROPERTY, "press/%s/%s/%d" % (ty, op, n_live))
            t = ir.get_ty(ty)
            vecs = [[irgen.boundary_int(r, t), irgen.boundary_int(r, t)] for _ in range(3)] + [[5, 3]]
            if op in ("/", "%") and t.signed:
                lo = -(1 << (t.bits - 1))
                vecs = [[a if a != lo else 7, b] for a, b in vecs]
            return {"f": vecs}

        case = {"id": "pressure/%s/%s/%d/%s" % (ty, op, n_live, "call" if with_call else "leaf"),
                "replay_spec": {"part": "directed", "target": tgt.name, "tier": spec["tier"], "seed": spec["seed"],
                                "avoid": spec["avoid"]}}
        run_module(tgt, mon, make, argvecs, ["0", "2"], case, pressure=n_live)


def matrix_args(r, f, cell, n):
    """Argument vectors of a matrix cell function; pointer parameters point into the arena so that the address the
    cell computes (parameter + constant / + register) stays inside it."""
    from ppci import ir
    from vlib import irgen

    vecs = []
    for k in range(n):
        vec = []
        nptr = 0
        q = 0
        for p in f.arguments:
            if p.ty is ir.ptr:
                addr = (cell or {}).get("addr") if (cell or {}).get("k") == "mem" else None
                base = 1024 + 16 * r.randrange(0, 64)
                if addr == "param":
                    vec.append({"arena": base})
                elif addr == "param+const":
                    vec.append({"arena": base - cell.get("off", 8)})
                elif addr == "param+reg":
                    if nptr == 0:
                        q = 8 * r.randrange(1, 100)
                        vec.append({"arena": base - q})
                    else:
                        vec.append({"num": q})
                else:
                    vec.append({"num": r.choice([0, 1, 8, 4096, 0x7FFFFFF0, 0x12345678])})
                nptr += 1
            elif p.ty.is_integer:
                vec.append(irgen.boundary_int(r, p.ty) if k else r.choice([0, 1, 2, 3]))
            else:
                import struct
                v = r.choice([0.0, 1.0, -1.5, 2.5, 100.25, -0.0, 1e6, 3.0e-2])
                vec.append(struct.unpack("<f", struct.pack("<f", v))[0] if p.ty.bits == 32 else v)
        vecs.append(vec)
    return vecs


def run_matrix(spec, mon, tgt):
    """The systematic operator matrix of vlib.cgmatrix (every binop/unop/compare/cast x operand source x consumer,
    memory forms, argument positions, phi/loop/pressure cells): each cell is one tiny function; a wrong instruction
    selection pattern is named by its cell."""
    from vlib import cgmatrix as cm, irgen

    cells = cm.matrix(tgt.types)
    cells = [c for i, c in enumerate(cells) if i % spec["stride"] == spec["offset"]]
    cells = cells[spec["sub"]::spec["nsub"]]
    BATCH = 40
    for bi in range(0, len(cells), BATCH):
        batch = cells[bi:bi + BATCH]
        names = {}

        def make(batch=batch, names=names):
            mb = cm.ModuleBuilder(tgt.ptr_size)
            try:
                for c in batch:
                    names[mb.add(c)] = c
            except Exception as e:  # noqa  generator trouble is mine
                mon.discard("matrix-builder-error:%s" % type(e).__name__)
                return None
            mon.obs["neutralised_constructs"] += rewrite_constants(mb.m, tgt.const_preds)
            add_arena(mb.m)
            return mb.m

        def argvecs(m, bi=bi, names=names):
            r = rng(spec["seed"], PROPERTY, "matrix/%s/%d/%d/%d" % (tgt.name, spec["offset"], spec["sub"], bi))
            return {f.name: matrix_args(r, f, names.get(f.name), 4) for f in m.functions if callable_function(f)}

        if spec["tier"] == "thorough":
            levels = ["0", "2"] + (["1", "s"] if (bi // BATCH) % 4 == spec["seed"] % 4 else [])
        else:
            levels = ["0"] + ([LEVELS[1 + (bi // BATCH) % 3]] if (bi // BATCH) % 4 == spec["seed"] % 4 else [])
        case = {"id": "matrix/%s/%d.%d.%d" % (tgt.name, spec["offset"], spec["sub"], bi), "cells": names,
                "replay_spec": dict(spec)}
        before = mon.evals
        run_module(tgt, mon, make, argvecs, levels, case, drop_avoided=True)
        mon.obs["matrix_cells"] = mon.obs.get("matrix_cells", 0) + (len(batch) if mon.evals > before else 0)


def run_shard(spec):
    setup()
    mon = Mon(spec)
    tgt = Target(spec["target"], mon, spec["avoid"])
    for t in TARGETS:
        mon.obs["executed_by_target"].setdefault(t, 0)
    if spec["part"] == "irgen":
        run_irgen(spec, mon, tgt)
    elif spec["part"] == "matrix":
        run_matrix(spec, mon, tgt)
    else:
        run_directed(spec, mon, tgt)
    return mon.result()


# --------------------------------------------------------------------------
# witness probes of the known findings (own avoid switches off, C29's on)


def _fn(m, name, ret, ptys):
    from ppci import ir

    f = ir.Function(name, ir.Binding.GLOBAL, ret) if ret is not None else ir.Procedure(name, ir.Binding.GLOBAL)
    m.add_function(f)
    ps = []
    for i, t in enumerate(ptys):
        p = ir.Parameter("p%d" % i, t)
        f.add_parameter(p)
        ps.append(p)
    b = ir.Block(name + "_b0")
    f.add_block(b)
    f.entry = b
    return f, ps, b


def _w_neg():
    from ppci import ir
    m = ir.Module("w")
    f, (a,), b = _fn(m, "f", ir.i32, [ir.i32])
    u = ir.Unop("-", a, "u", ir.i32); b.add_instruction(u)
    r = ir.Binop(u, "+", a, "r", ir.i32); b.add_instruction(r)
    b.add_instruction(ir.Return(r))
    return m, {"f": [[5], [7]]}


def _w_const(v):
    def build():
        from ppci import ir
        m = ir.Module("w")
        f, _, b = _fn(m, "f", ir.i32, [])
        c = ir.Const(v, "c", ir.i32); b.add_instruction(c)
        b.add_instruction(ir.Return(c))
        return m, {"f": [[]]}
    return build


def _w_binop_const(op, v, vecs, const_left=False):
    def build():
        from ppci import ir
        m = ir.Module("w")
        f, (a,), b = _fn(m, "f", ir.i32, [ir.i32])
        c = ir.Const(v, "c", ir.i32); b.add_instruction(c)
        r = ir.Binop(c if const_left else a, op, a if const_left else c, "r", ir.i32); b.add_instruction(r)
        b.add_instruction(ir.Return(r))
        return m, {"f": vecs}
    return build


def _w_trunc_cmp():
    from ppci import ir
    m = ir.Module("w")
    f, (a,), b = _fn(m, "f", ir.i32, [ir.i32])
    yes, no = ir.Block("yes"), ir.Block("no")
    f.add_block(yes); f.add_block(no)
    c = ir.Cast(a, "c", ir.i8); b.add_instruction(c)
    z = ir.Const(0, "z", ir.i8); b.add_instruction(z)
    b.add_instruction(ir.CJump(c, "<", z, yes, no))
    one = ir.Const(1, "one", ir.i32); yes.add_instruction(one); yes.add_instruction(ir.Return(one))
    zero = ir.Const(0, "zero", ir.i32); no.add_instruction(zero); no.add_instruction(ir.Return(zero))
    return m, {"f": [[255], [128]]}


def _w_cast(src, dst, vecs):
    def build():
        from ppci import ir
        m = ir.Module("w")
        f, (a,), b = _fn(m, "f", ir.get_ty(dst), [ir.get_ty(src)])
        c = ir.Cast(a, "c", ir.get_ty(dst)); b.add_instruction(c)
        b.add_instruction(ir.Return(c))
        return m, {"f": vecs}
    return build


def _w_cell(cell, ptr_size, vecs=None):
    def build():
        from vlib import cgmatrix as cm, irgen
        mb = cm.ModuleBuilder(ptr_size)
        name = mb.add(cell)
        r = rng(0, PROPERTY, "probe/" + cm.cell_key(cell))
        return mb.m, {name: vecs or irgen.gen_args(r, mb.m, name, 4)}
    return build


def _w_pressure():
    return pressure_module(8, "i64", "<<", 10, True), {"f": [[1, 5], [3, 2]]}


def _probe(target, build, level="0"):
    def run():
        setup()
        mon = Mon({})
        tgt = Target(target, mon, ())
        made = build()
        run_module(tgt, mon, lambda: made[0], lambda m: made[1], [level], {"id": "probe"})
        if mon.viol:
            return mon.viol[0]["summary"]
        if mon.inconclusive or not mon.evals:
            raise RuntimeError("probe made no comparison: %r %r %r" % (mon.inconclusive, mon.disc, mon.obs["build_failed"]))
        return None
    return run


PROBES = {
    "riscv-neg-inv-overwrite-operand": _probe("riscv", _w_neg),
    "rvc-consti32-clui-immediate-truncated": _probe("riscv:rvc", _w_const(131071)),
    "riscv-imm12-patterns-without-lower-bound": _probe("riscv", _w_binop_const("^", -5000, [[1], [77]])),
    "riscv-subword-values-not-normalised": _probe("riscv", _w_trunc_cmp),
    "riscv-signed-subword-to-unsigned-cast-zero-extends": _probe("riscv", _w_cast("i8", "u32", [[-1], [-128]])),
    "riscv-frame-offset-beyond-imm12": _probe("riscv", _w_cell({"k": "mem", "ty": "i32", "addr": "bigframe", "dir": "load",
                                                                "frame": 2040}, 4)),
    "rvc-shift-constant-lhs-operands-swapped": _probe("riscv:rvc", _w_binop_const("<<", 5, [[2], [3]], const_left=True)),
    "rvc-signed-shift-right-by-constant-is-logical": _probe("riscv:rvc", _w_binop_const(">>", 3, [[-16], [-1]])),
    "rvc-caddi-negative-immediate-sign-bit-dropped": _probe("riscv:rvc", _w_cell(
        {"k": "binop", "op": "+", "ty": "i32", "a": "c_zero", "b": "c_neg", "use": "store"}, 4)),
    "x86_64-float-to-int-rounds-to-nearest": _probe("x86_64", _w_cast("f64", "i32", [[-1.5], [2.75]])),
    "x86_64-stack-passed-f32-parameter-4-byte-slots": _probe("x86_64", _w_cell(
        {"k": "args", "ty": "f32", "n": 10, "side": "callee"}, 8)),
    "x86_64-inplace-rm-destination-spilled": _probe("x86_64", _w_pressure),
}
