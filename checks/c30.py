"""C30 compilation is deterministic (DESIGN C30).

The same source is compiled for the same target and optimisation level in
several processes and the sha256 of ``ObjectFile.save`` text and of the linked
image bytes (``api.link([obj], layout, use_runtime=True)``) are compared:

* PYTHONHASHSEED in {0, 1, 2, random} (quick) / {0, 1, 2, 3, 4, random, random}
  (thorough)                                  (clause "hash randomisation"),
* a second process with PYTHONHASHSEED=0      (clause "the process"),
* a PYTHONHASHSEED=0 process that first compiled an unrelated module and then
  all inputs of the shard one after the other (clause "compiled earlier").

How the processes are made.  Starting an interpreter and importing ppci costs
10x what one compile costs, so for each variant above the shard starts ONE
``/venv/bin/python`` child (env PYTHONHASHSEED=<variant>, PYTHONPATH=$VERIF_REPO,
cwd=$VERIF_TMP, watchdog) that imports ``ppci.api``, calls ``get_arch(target)``
(the x86-64 assembler tables alone take 2 s to build) and then ``os.fork()``s
once per group of builds (the C/C3 inputs of one optimisation level; the
assembler input): the first build of a group runs in a process whose state is
that of a fresh interpreter that has imported ppci, described the target and
compiled nothing, the following ones after the earlier inputs of their group
(the same history in every variant, so all comparisons stay like-for-like; the
"compiled earlier" variant has a different history for every build).  Every
build has a CPU-time budget (ITIMER_VIRTUAL) and an address-space limit; a
build that exhausts it is discarded, never judged.  Distinct variants are
distinct interpreter processes (own hash seed, own address-space layout).  The
"compiled earlier" variant does not fork: it compiles an unrelated module at
both levels and then everything in one process.

Narrowing against DESIGN C30 (budget set by the maintainer: <= 1500 CPU-s for
the quick tier): quick = 4 C programs + 1 C3 program x 2 levels + 1 assembler
input per target (132 builds x 6 processes) instead of 8 programs x 8
processes; hash seeds 3 and 4, a second random seed, a second same-seed pair
and a second pre-loaded process are thorough-tier only (24 C + 6 C3 programs
x 11 processes = 8052 builds instead of 40 programs).

While one of the four open findings (all in target-independent code that every
C/C3 compile runs through) is open, only the assembler inputs are compiled in
the sweep; the four witness probes observe each mechanism in isolation.

Workload (the shared ``cgen`` of DESIGN 2.4 does not exist yet; the design
allows a private generator because semantic correctness is irrelevant here):
a compact seeded generator of C translation units - integer arithmetic over
6..34 simultaneously live variables (so that both coalescing and spilling
happen on 8-, 16- and 32-register targets), counted loops, global and local
arrays, calls to helper functions, a few globals - rendered per target in the
subset of C the target's instruction selector covers (e.g. no ``^`` on
msp430/xtensa, almost nothing on m68k, nothing at all on avr whose C front-end
configuration is broken); the same abstract program rendered as C3; and one
hand-written assembler snippet per target.  A build that fails in the same way
in every variant is not a C30 event (counted under ``observed.build``); a build
that fails in some variants only is.
"""
import hashlib
import json
import os
import subprocess

from vlib.core import rng, h

PROPERTY = "C30"
RULE = ("generated C translation units (6..34 live int variables, loops, arrays, calls, globals; per-target C subset), "
        "the same programs rendered as C3, and one assembler snippet per target, compiled for 12 targets x opt levels "
        "{0,2}; each (input,target,level) is built in 6 processes in the quick tier (hash seeds 0,1,2,random; seed 0 "
        "again; seed 0 after an unrelated module and all earlier inputs), 11 in the thorough tier (+ seeds 3,4, a second "
        "random, seed 1 again, seed 3 after unrelated) and the sha256 of obj.save text and of the linked image are "
        "compared with the seed-0 build; non-trivial = the build succeeded; distinct by (input,target,level)")
ASSUMPTIONS = ["sha256 equality of ObjectFile.save text / image bytes is byte identity",
               "a forked child of an interpreter that only imported ppci.api and called get_arch(target) is a process that "
               "compiled nothing before",
               "PYTHONHASHSEED=random draws a seed different from 0..4 (probability 1 - 2^-32 per run)"]
MANIFEST_ENTRY = {
    "text": "Every generated source is compiled in 6 (quick) / 11 (thorough) differently seeded / differently pre-loaded "
            "processes per target and level; object text and linked image digests must all be equal.",
    "note": "Private program generator (semantics irrelevant); weak targets (m68k, msp430, xtensa, mips, avr) get the C "
            "subset they can compile, failing builds are compared by exception type only. While a finding in the target "
            "independent code generator is open, C and C3 inputs are not compiled in the main sweep (assembler inputs are).",
    "technique": "runtime monitoring: digest comparison of real compiler output across processes, hash seeds and compile "
                 "histories",
}

TARGETS = ["x86_64", "arm", "arm:thumb", "riscv", "riscv:rvc", "msp430", "avr", "m68k", "mips", "or1k", "xtensa",
           "microblaze"]
LEVELS = [0, 2]
SHARD_TIMEOUT = {"quick": 3000, "thorough": 4 * 3600}

LAYOUT = """
MEMORY code LOCATION=0x1000 SIZE=0x6000 { SECTION(code) }
MEMORY ram LOCATION=0x8000 SIZE=0x4000 { SECTION(data) }
"""

# Features the instruction selectors of the weaker back-ends do not cover
# (probed feature by feature on the unchanged tree; a generated construct that
# is not covered only costs a deterministic build failure, never a verdict).
DISABLED = {
    "arm": {"not"},  # `~` becomes a call of __inv32, which no runtime library defines
    "or1k": {"not"},
    "mips": {"not", "mod", "larray"},
    "xtensa": {"xor", "not", "larray", "fewvars"},  # no spill code: loads from the frame are not covered
    "msp430": {"xor", "not", "larray", "bigconst"},
    "arm:thumb": {"not"},
    "m68k": {"xor", "mul", "div", "mod", "shift", "loop", "array", "larray", "global", "call", "const", "bigconst",
             "tiny"},
    "avr": set(),
}
C3_DISABLED = {"not", "larray"}

# ---------------------------------------------------------------------------
# program generator: abstract program -> C / C3 text


def gen_prog(r, dis, idx):
    """Abstract program.  The rng stream does not depend on `dis` (a disabled
    operator is replaced after it was drawn), so the per-target renderings of
    program idx have the same shape."""
    nvars = (6, 14, 22, 34, 10, 18, 26, 30)[idx % 8]
    if "fewvars" in dis:
        nvars = 5 + idx % 4
    if "tiny" in dis:
        # m68k: register allocation does not terminate (memory grows without bound) for any function with two
        # operations at -O0, e.g. `return (a - b) | a;`: only single-operation functions are generated
        funcs = []
        for k in range(4 + idx % 4):
            c = r.randrange(7)
            a, b = r.sample(["a", "b"], 2)
            if c < 4:
                body = [("ret", ("bin", r.choice(["+", "-", "&", "|"]), ("v", a), ("v", b)))]
            elif c == 4:
                body = [("ret", ("neg", ("v", a)))]
            elif c == 5:
                body = [("ret", ("not", ("v", a)))]
            else:
                body = [("if", (r.choice(["<", ">", "==", "!="]), ("v", a), ("v", b)), [("ret", ("v", a))], []),
                        ("ret", ("v", b))]
            funcs.append(("t%d_%d" % (idx, k), 2, [], body))
        return {"globals": False, "garray": False, "funcs": funcs, "nvars": 0}
    nhelp = 1 + r.randrange(2)

    def op():
        o = r.choice(["+", "-", "*", "&", "|", "^", "+", "-", "<<", ">>", "/", "%"])
        if o == "^" and "xor" in dis:
            o = "|"
        if o == "*" and "mul" in dis:
            o = "+"
        if o in ("<<", ">>") and "shift" in dis:
            o = "-"
        if o == "/" and "div" in dis:
            o = "&"
        if o == "%" and "mod" in dis:
            o = "-"
        return o

    def const():
        c = r.choice([1, 2, 3, 5, 7, 12, 100, 255, 1000, 30000, 70000, 1 << 20])
        if "bigconst" in dis and c > 30000:
            c = c % 251
        return c

    def leaf(names):
        k = r.randrange(10)
        if k < 7 or "const" in dis:
            return ("v", r.choice(names))
        return ("c", const())

    def expr(names, depth):
        if depth <= 0 or r.random() < 0.25:
            return leaf(names)
        o = op()
        a = expr(names, depth - 1)
        b = expr(names, depth - 1)
        if o in ("<<", ">>"):
            b = ("c", r.randrange(1, 8)) if "const" not in dis else ("v", r.choice(names))
        if o in ("/", "%"):
            b = ("bin", "|", b, ("c", 1))
        k = r.randrange(12)
        e = ("bin", o, a, b)
        if k == 0:
            e = ("neg", e)
        elif k == 1 and "not" not in dis:
            e = ("not", e)
        return e

    def cond(names):
        rel = r.choice(["<", ">", "<=", ">=", "==", "!="])
        if rel == "<=" and "le" in dis:  # thumb: KeyError '<=' in the conditional branch table
            rel = "<"
        return (rel, expr(names, 1), leaf(names))

    helpers = []
    for k in range(nhelp):
        names = ["a", "b"]
        body = [("ret", expr(names, 2))]
        if r.random() < 0.5:
            body.insert(0, ("if", cond(names), [("ret", expr(names, 1))], []))
        helpers.append(("h%d" % k, 2, [], body))

    params = ["a", "b", "c", "d"][: 2 + r.randrange(3)]
    vs = ["v%d" % i for i in range(nvars)]
    body = []
    avail = list(params)
    for v in vs:
        e = expr(avail, 1)
        if "global" not in dis and r.random() < 0.15:
            e = ("bin", "+", e, ("g", "g%d" % r.randrange(2)))
        body.append(("set", v, e))
        avail.append(v)
    names = params + vs

    def block(depth, n):
        out = []
        for _ in range(n):
            k = r.randrange(10)
            if k < 4:
                out.append(("set", r.choice(vs), expr(names, 2)))
            elif k == 4 and "array" not in dis:
                arr = "la" if ("larray" not in dis and r.random() < 0.4) else "ga"
                out.append(("aset", arr, expr(names, 1), expr(names, 1)))
                out.append(("set", r.choice(vs), ("bin", "+", ("aget", arr, leaf(names)), leaf(names))))
            elif k == 5 and "call" not in dis:
                out.append(("set", r.choice(vs), ("call", "h%d" % r.randrange(nhelp), [leaf(names), leaf(names)])))
            elif k == 6 and "global" not in dis:
                out.append(("gset", "g%d" % r.randrange(2), expr(names, 1)))
            elif k == 7 and depth > 0:
                out.append(("if", cond(names), block(depth - 1, 1 + r.randrange(3)), block(depth - 1, r.randrange(3))))
            elif k == 8 and depth > 0 and "loop" not in dis:
                out.append(("loop", ("bin", "&", leaf(names), ("c", 15)), block(depth - 1, 2 + r.randrange(4))))
            else:
                a, b = r.sample(vs, 2)
                out.append(("set", a, ("bin", op() if "const" not in dis else "+", ("v", a), ("v", b))))
        return out

    if "loop" not in dis:
        body.append(("loop", ("bin", "&", ("v", params[0]), ("c", 15)), block(1, 4 + r.randrange(5))))
    body.extend(block(2, 3 + r.randrange(4)))
    total = ("v", vs[0])
    for v in vs[1:]:
        total = ("bin", r.choice(["+", "-", "|"]) if "xor" in dis else r.choice(["+", "-", "^"]), total, ("v", v))
    if "global" not in dis:
        body.append(("gset", "g1", total))
        body.append(("ret", ("bin", "+", ("g", "g0"), ("v", r.choice(vs)))))
    else:
        body.append(("ret", total))
    uses_la = "larray" not in dis and "array" not in dis
    main = ("f%d" % idx, len(params), vs + (["la"] if uses_la else []), body)
    return {"globals": "global" not in dis, "garray": "array" not in dis, "funcs": helpers + [main], "nvars": nvars}


def _expr(e, c3):
    k = e[0]
    if k == "v" or k == "g":
        return e[1]
    if k == "c":
        return str(e[1])
    if k == "bin":
        return "(%s %s %s)" % (_expr(e[2], c3), e[1], _expr(e[3], c3))
    if k == "neg":
        return ("(0 - %s)" if c3 else "(-%s)") % _expr(e[1], c3)
    if k == "not":
        return "(~%s)" % _expr(e[1], c3)
    if k == "aget":
        return "%s[(%s) & 7]" % (e[1], _expr(e[2], c3))
    if k == "call":
        return "%s(%s)" % (e[1], ", ".join(_expr(a, c3) for a in e[2]))
    raise ValueError(k)


def _stmts(stmts, c3, ind, out, ctr):
    p = "  " * ind
    for s in stmts:
        k = s[0]
        if k == "set" or k == "gset":
            out.append("%s%s = %s;" % (p, s[1], _expr(s[2], c3)))
        elif k == "aset":
            out.append("%s%s[(%s) & 7] = %s;" % (p, s[1], _expr(s[2], c3), _expr(s[3], c3)))
        elif k == "ret":
            out.append("%sreturn %s;" % (p, _expr(s[1], c3)))
        elif k == "if":
            out.append("%sif (%s %s %s) {" % (p, _expr(s[1][1], c3), s[1][0], _expr(s[1][2], c3)))
            _stmts(s[2], c3, ind + 1, out, ctr)
            if s[3]:
                out.append("%s} else {" % p)
                _stmts(s[3], c3, ind + 1, out, ctr)
            out.append("%s}" % p)
        elif k == "loop":
            i = "i%d" % (ctr[0] % 3)
            ctr[0] += 1
            out.append("%s%s = 0;" % (p, i))
            out.append("%swhile (%s < %s) {" % (p, i, _expr(s[1], c3)))
            _stmts(s[2], c3, ind + 1, out, ctr)
            out.append("%s  %s = %s + 1;" % (p, i, i))
            out.append("%s}" % p)
        else:
            raise ValueError(k)


def render(prog, c3, modname="m"):
    out = []
    if c3:
        out.append("module %s;" % modname)
    if prog["globals"]:
        out += ["var int g0 = 3;", "var int g1;"] if c3 else ["int g0 = 3;", "int g1;"]
    if prog["garray"]:
        out.append("var int[8] ga;" if c3 else "int ga[8];")
    for name, npar, locs, body in prog["funcs"]:
        pars = ", ".join("int %s" % x for x in ["a", "b", "c", "d"][:npar])
        out.append(("function int %s(%s)" if c3 else "int %s(%s)") % (name, pars))
        out.append("{")
        for v in locs + (["i0", "i1", "i2"] if locs else []):
            if v == "la":
                out.append("  var int[8] la;" if c3 else "  int la[8];")
            else:
                out.append(("  var int %s;" if c3 else "  int %s;") % v)
        if "la" in locs:
            out.append("  la[0] = a;")
        _stmts(body, c3, 1, out, [0])
        out.append("}")
        out.append("")
    return "\n".join(out) + "\n"


ASM = {
    "x86_64": """section code
global start
start:
 mov rax, 60
 mov rdi, rbx
 add rax, rdi
 cmp rax, 5
 jz done
 call helper
 jmp start
done:
 ret
helper:
 push rbx
 pop rbx
 ret
section data
 dd 0x11223344
msg:
 db 1
 db 2
 dd 77
""",
    "arm": """section code
global start
start:
 mov r0, 5
 add r1, r0, r2
 cmp r1, 3
 beq done
 bl helper
 b start
done:
 mov pc, lr
helper:
 push {r4, lr}
 ldr r4, lit
 ldr r0, [r4, #4]
 pop {r4, pc}
lit:
 dd 0x12345678
section data
 dd 0x11223344
 dcd =start
 db 7
""",
    "arm:thumb": """section code
global start
start:
 mov r0, 5
 add r1, r0, r2
 cmp r1, 3
 beq done
 bl helper
 b start
done:
 mov pc, lr
helper:
 push {r4, lr}
 ldr r0, [r4, 4]
 lsl r0, r4
 pop {r4, pc}
section data
 dd 0x11223344
 db 7
""",
    "riscv": """section code
global start
start:
 addi x5, x6, 12
 add x7, x5, x6
 beq x5, x7, done
 jal x1, helper
 j start
done:
 jalr x0, x1, 0
helper:
 lw x8, 4(x2)
 sw x8, 8(x2)
 lui x9, 0x12345
 jalr x0, x1, 0
section data
 dd 0x11223344
 db 7
""",
    "msp430": """section code
global start
start:
 mov.w #5, r10
 add.w r10, r11
 cmp.w #3, r11
 jeq done
 call #helper
 jmp start
done:
 ret
helper:
 push r10
 pop r10
 ret
section data
 dw 0x1122
 db 7
""",
    "avr": """section code
global start
start:
 ldi r16, 5
 add r16, r17
 cpi r16, 3
 breq done
 call helper
 rjmp start
done:
 ret
helper:
 push r16
 pop r16
 ret
section data
 dw 0x1122
 db 7
""",
    "m68k": """section code
global start
start:
 movel d0, d1
 addl d1, d2
 rts
section data
 dd 0x11223344
 db 7
""",
    "mips": """section code
global start
start:
 addi v0, v1, 12
 add a0, v0, v1
 slt a1, v0, a0
 jal helper
 j start
done:
 jr ra
helper:
 lw r8, 4(sp)
 sw r8, 8(sp)
 jr ra
section data
 dd 0x11223344
 db 7
""",
    "or1k": """section code
global start
start:
 l.addi r3, r4, 12
 l.add r5, r3, r4
 l.sfeq r3, r5
 l.bf done
 l.nop 0
 l.jal helper
 l.nop 0
 l.j start
 l.nop 0
done:
 l.jr r9
 l.nop 0
helper:
 l.lwz r6, 4(r1)
 l.sw 8(r1), r6
 l.jr r9
 l.nop 0
section data
 dd 0x11223344
 db 7
""",
    "xtensa": """section code
global start
start:
 addi a2, a3, 12
 add a4, a2, a3
 beq a2, a4, done
 call0 helper
 j start
done:
 ret
 align 4
helper:
 l32i a5, a1, 4
 s32i a5, a1, 8
 ret
section data
 dd 0x11223344
 db 7
""",
    "microblaze": """section code
global start
start:
 addik r3, r4, 12
 add r5, r3, r4
 beqi r5, done
 brlid r15, helper
 or r0, r0, r0
 bri start
done:
 rtsd r15, 8
 or r0, r0, r0
helper:
 lwi r6, r1, 4
 swi r6, r1, 8
 rtsd r15, 8
 or r0, r0, r0
""",
}
ASM["riscv:rvc"] = ASM["riscv"]

UNRELATED_C = ("int zz_tab[4];\nint zz(int a, int b)\n{\n  int i;\n  int s;\n  s = 0;\n  i = 0;\n"
               "  while (i < a) {\n    s = s + (b - i);\n    zz_tab[i & 3] = s;\n    i = i + 1;\n  }\n  return s;\n}\n")
UNRELATED_M68K = "int zz(int a, int b)\n{\n  return a - b;\n}\nint zy(int a, int b)\n{\n  return a | b;\n}\n"


def make_input(seed, target, inp):
    """inp = "c-<k>" | "c3-<k>" | "asm" -> (kind, source text)."""
    if inp == "asm":
        return "asm", ASM[target]
    if inp.startswith("c3-"):
        idx = int(inp[3:])
        dis = set(DISABLED.get(target, set())) | C3_DISABLED
        return "c3", render(gen_prog(rng(seed, PROPERTY, "c3-%d" % idx), dis, idx), True, "m%d" % idx)
    idx = int(inp[2:])
    dis = DISABLED.get(target, set())
    return "c", render(gen_prog(rng(seed, PROPERTY, "c-%d" % idx), dis, idx), False)


# ---------------------------------------------------------------------------
# the child: one interpreter per variant, one forked process per compile

CHILD = r'''
import sys, os, json, io, hashlib, signal, logging
logging.disable(logging.CRITICAL)
spec = json.load(open(sys.argv[1]))
import ppci
from ppci import api

def sha(b):
    if isinstance(b, str):
        b = b.encode("utf-8", "replace")
    return hashlib.sha256(b).hexdigest()

def compile_one(job):
    kind, target, level, src = job["kind"], job["target"], job["level"], job["src"]
    if kind == "c":
        return api.cc(io.StringIO(src), target, opt_level=level)
    if kind == "c3":
        return api.c3c([io.StringIO(src)], [], target, opt_level=level)
    return api.asm(io.StringIO(src), target)

def build(job):
    res = {}
    try:
        obj = compile_one(job)
        f = io.StringIO()
        obj.save(f)
        text = f.getvalue()
    except Exception as e:
        return {"obj": "ERR:" + type(e).__name__, "img": "-", "err": str(e)[:300]}
    res["obj"] = sha(text)
    res["size"] = sum(len(s.data) for s in obj.sections)
    if spec.get("keep"):
        p = os.path.join(spec["keep"], res["obj"][:24] + ".txt")
        if not os.path.exists(p):
            with open(p + ".%d" % os.getpid(), "w") as g:
                g.write(text)
            os.replace(p + ".%d" % os.getpid(), p)
    try:
        out = api.link([obj], layout=io.StringIO(spec["layout"]), use_runtime=True)
        m = hashlib.sha256()
        n = 0
        for img in sorted(out.images, key=lambda i: i.name):
            m.update(("%s@%x:%d;" % (img.name, img.address, len(img.data))).encode())
            m.update(bytes(img.data))
            n += len(img.data)
        res["img"] = m.hexdigest()
        res["imgsize"] = n
    except Exception as e:
        res["img"] = "ERR:" + type(e).__name__
        res["imgerr"] = str(e)[:300]
    return res

results = {"ppci": os.path.abspath(ppci.__file__), "hashseed": os.environ.get("PYTHONHASHSEED"), "jobs": {}}
# the architecture description (instruction classes, assembler tables) is built once per interpreter, before
# any fork: importing and describing a target is not compiling
for t in sorted(set(j["target"] for j in spec["jobs"])):
    try:
        api.get_arch(t)
    except BaseException:
        pass
class Alarm(BaseException):
    pass

def on_alarm(*a):
    raise Alarm()

def guarded(job):
    # CPU-time budget per build (ITIMER_VIRTUAL counts user time of this process: independent of machine load)
    signal.signal(signal.SIGVTALRM, on_alarm)
    signal.setitimer(signal.ITIMER_VIRTUAL, spec["alarm"])
    try:
        return build(job)
    except Alarm:
        return {"obj": "DIED", "img": "-", "err": "cpu budget"}
    except MemoryError:
        return {"obj": "DIED", "img": "-", "err": "memory budget"}
    finally:
        signal.setitimer(signal.ITIMER_VIRTUAL, 0)

try:
    import resource
    resource.setrlimit(resource.RLIMIT_AS, (spec["mem"], spec["mem"]))
except Exception:
    pass
import gc
gc.collect()
gc.freeze()   # keeps the collector of the forked children away from the pages shared with this process

if spec["mode"] == "chain":
    for job in spec["pre"]:
        results.setdefault("pre", []).append(guarded(job)["obj"][:12])
    for job in spec["jobs"]:
        results["jobs"][job["id"]] = guarded(job)
else:
    groups = {}
    for job in spec["jobs"]:
        groups.setdefault(job["group"], []).append(job)
    for gname in sorted(groups):
        r, w = os.pipe()
        pid = os.fork()
        if pid == 0:
            try:
                os.close(r)
                out = {}
                for job in groups[gname]:
                    out[job["id"]] = guarded(job)
                os.write(w, json.dumps(out).encode())
            finally:
                os._exit(0)
        os.close(w)
        data = b""
        while True:
            chunk = os.read(r, 65536)
            if not chunk:
                break
            data += chunk
        os.close(r)
        _, status = os.waitpid(pid, 0)
        got = json.loads(data.decode()) if data else {}
        for job in groups[gname]:
            results["jobs"][job["id"]] = got.get(job["id"], {"obj": "DIED", "img": "-", "err": "status %s" % status})
with open(sys.argv[2] + ".tmp", "w") as f:
    json.dump(results, f)
os.replace(sys.argv[2] + ".tmp", sys.argv[2])
'''

VARIANTS_QUICK = [("seed0", "0", "fork"), ("seed1", "1", "fork"), ("seed2", "2", "fork"), ("random", "random", "fork"),
                  ("seed0-again", "0", "fork"), ("after-unrelated", "0", "chain")]
VARIANTS_THOROUGH = VARIANTS_QUICK + [("seed3", "3", "fork"), ("seed4", "4", "fork"), ("random-b", "random", "fork"),
                                      ("seed1-again", "1", "fork"), ("after-unrelated-seed3", "3", "chain")]
CLAUSE = {"seed1": "hashseed", "seed2": "hashseed", "seed3": "hashseed", "seed4": "hashseed", "random": "hashseed",
          "random-b": "hashseed", "seed0-again": "fresh_process_same_seed", "seed1-again": "fresh_process_same_seed",
          "after-unrelated": "after_prior_compiles", "after-unrelated-seed3": "after_prior_compiles"}
# which variant a variant is compared with
BASE = {"seed1-again": "seed1", "after-unrelated-seed3": "seed3"}


def run_variant(name, hashseed, mode, jobs, tmp, keep, alarm=40, pre=None):
    """Start one interpreter for a variant; -> results dict or {"error": ...}."""
    repo = os.environ.get("VERIF_REPO", "/repo")
    script = os.path.join(tmp, "c30child.py")
    if not os.path.exists(script):
        with open(script, "w") as f:
            f.write(CHILD)
    tag = h([name, [j["id"] for j in jobs]])
    specfile = os.path.join(tmp, "cs-%s-%s.json" % (name, tag))
    outfile = os.path.join(tmp, "co-%s-%s.json" % (name, tag))
    if os.path.exists(outfile):
        os.remove(outfile)
    with open(specfile, "w") as f:
        json.dump({"mode": mode, "jobs": jobs, "pre": pre or [], "layout": LAYOUT, "keep": keep, "alarm": alarm,
                   "mem": 2 << 30}, f)
    env = dict(os.environ)
    env["PYTHONHASHSEED"] = hashseed
    env["PYTHONPATH"] = repo
    env.pop("PYTHONSTARTUP", None)
    python = os.environ.get("VERIF_PYTHON", "/venv/bin/python")
    try:
        with open(os.path.join(tmp, "c30child.log"), "ab") as log:
            p = subprocess.run([python, script, specfile, outfile], env=env, cwd=tmp, stdin=subprocess.DEVNULL,
                               stdout=log, stderr=log, timeout=1200)
    except subprocess.TimeoutExpired:
        return {"error": "variant %s: child interpreter exceeded its watchdog" % name}
    if not os.path.exists(outfile):
        tail = ""
        try:
            with open(os.path.join(tmp, "c30child.log"), "rb") as f:
                tail = f.read()[-600:].decode("utf-8", "replace")
        except OSError:
            pass
        return {"error": "variant %s: child rc=%s wrote no result: %s" % (name, p.returncode, tail)}
    with open(outfile) as f:
        res = json.load(f)
    if not res["ppci"].startswith(os.path.abspath(repo) + os.sep):
        return {"error": "child imported ppci from %s, expected %s" % (res["ppci"], repo)}
    return res


def unrelated_jobs(target):
    if target == "avr":
        return [{"id": "pre", "kind": "asm", "target": target, "level": 0, "src": ASM[target]}]
    src = UNRELATED_M68K if target == "m68k" else UNRELATED_C
    return [{"id": "pre", "kind": "c", "target": target, "level": 2, "src": src},
            {"id": "pre2", "kind": "c", "target": target, "level": 0, "src": src}]


def first_diff(keep, d1, d2):
    try:
        a = open(os.path.join(keep, d1[:24] + ".txt")).read()
        b = open(os.path.join(keep, d2[:24] + ".txt")).read()
    except OSError:
        return None
    i = 0
    n = min(len(a), len(b))
    while i < n and a[i] == b[i]:
        i += 1
    return {"offset": i, "base": a[max(0, i - 60): i + 60], "other": b[max(0, i - 60): i + 60], "len": [len(a), len(b)]}


# ---------------------------------------------------------------------------
# known findings.  All four mechanisms sit in target-independent code that every C / C3 compile runs through
# (tree splitting of the selection DAG, construction of the interference graph, the move sets of its nodes,
# node merging while coalescing), for every target and at every optimisation level: on the unchanged tree each
# of the 10 targets with a working C back-end showed differing object files at -O2 and arm, thumb, mips (and,
# seed dependent, riscv) at -O0.  Whether a given function is hit depends on addresses, so no (target, level)
# can be promised to be safe: while one of them is open only the assembler-only inputs are compiled.

RA_KEYS = ("selection-dag-split-in-set-order", "interference-graph-built-in-set-order",
           "interference-node-moves-in-set-order", "graph-combine-reroutes-edges-in-set-order")


def _codegen(target, level, kind):
    return kind in ("c", "c3")


AVOID_COMBOS = {k: _codegen for k in RA_KEYS}


def avoided(avoid, target, level, kind):
    for key in avoid:
        fn = AVOID_COMBOS.get(key)
        if fn and fn(target, level, kind):
            return key
    return None


# ---------------------------------------------------------------------------


def inputs_for(tier):
    if tier == "quick":
        return ["c-%d" % i for i in range(4)] + ["c3-0"]  # 11 builds per target: 4 C + 1 C3 at two levels, 1 asm
    return ["c-%d" % i for i in range(24)] + ["c3-%d" % i for i in range(6)]


def plan(tier, seed, avoid):
    specs = []
    inputs = inputs_for(tier)
    chunk = 6 if tier == "quick" else 10
    for target in TARGETS:
        for k in range(0, len(inputs), chunk):
            specs.append({"target": target, "levels": LEVELS, "inputs": inputs[k:k + chunk] + (["asm"] if k == 0 else [])})
    return specs


def floors(tier):
    from vlib.core import open_keys

    # every floor is <= 40% of what the quick tier observes (the counts are fixed by the plan, only builds that
    # exhaust their budget or fail on a weak target vary)
    if any(k in RA_KEYS for k in open_keys(PROPERTY)):
        # only the assembler inputs are swept: 12 targets x 5 comparisons x 2 digests = 120
        return {"evaluations": 48, "distinct_nontrivial": 5, "observed.clause.hashseed": 28,
                "observed.clause.fresh_process_same_seed": 9, "observed.clause.after_prior_compiles": 9,
                "observed.targets_built": 8, "observed.avoided": 1}
    # full sweep: 12 targets x 11 builds x 5 comparisons x 2 digests = 1320, 117..122 builds succeed,
    # clauses 792/264/264, kinds c 96 / c3 24 / asm 12, levels 72/60
    return {"evaluations": 520, "distinct_nontrivial": 45, "observed.clause.hashseed": 310,
            "observed.clause.fresh_process_same_seed": 100, "observed.clause.after_prior_compiles": 100,
            "observed.targets_built": 8, "observed.kinds.c": 38, "observed.kinds.c3": 9, "observed.kinds.asm": 5,
            "observed.levels.0": 28, "observed.levels.2": 24}


def run_shard(spec):
    tmp = os.environ.get("VERIF_TMP") or os.getcwd()
    keep = os.path.join(tmp, "objs")
    os.makedirs(keep, exist_ok=True)
    target = spec["target"]
    variants = spec.get("variants") or (VARIANTS_QUICK if spec["tier"] == "quick" else VARIANTS_THOROUGH)
    res = {"evaluations": 0, "nontrivial_hashes": [], "observed": {"clause": {}, "build": {}, "distinct_digests": {},
                                                                  "kinds": {}, "avoided": {}, "levels": {}},
           "discarded": {}, "samples": [], "violations": [], "inconclusive": []}
    obs = res["observed"]
    jobs = []
    for level in spec["levels"]:
        for inp in spec["inputs"]:
            if inp == "asm" and level != spec["levels"][0]:
                continue
            kind, src = make_input(spec["seed"], target, inp)
            key = avoided(spec["avoid"], target, level, kind)
            if key:
                obs["avoided"][key] = obs["avoided"].get(key, 0) + 1
                continue
            jobs.append({"id": "%s@O%d" % (inp, level), "inp": inp, "kind": kind, "target": target, "level": level,
                         "src": src, "group": "asm" if kind == "asm" else "O%d" % level})
    if not jobs:
        return res
    out = {}
    live = list(jobs)
    for name, hashseed, mode in variants:
        r = run_variant(name, hashseed, mode, live, tmp, keep, pre=unrelated_jobs(target) if mode == "chain" else None)
        if "error" in r:
            res["inconclusive"].append("%s: %s" % (target, r["error"]))
            return res
        out[name] = r["jobs"]
        if name == variants[0][0]:  # a build that exhausts its budget is not repeated five more times
            live = [j for j in live if r["jobs"].get(j["id"], {}).get("obj") != "DIED"]
            if not live:
                break
    built = False
    for job in jobs:
        jid, level = job["id"], job["level"]
        per = {name: out.get(name, {}).get(jid, {"obj": "MISSING", "img": "-"}) for name, _, _ in variants}
        if any(p["obj"] in ("DIED", "MISSING", "ERR:MemoryError") for p in per.values()):
            res["discarded"]["compile_timeout_or_died"] = res["discarded"].get("compile_timeout_or_died", 0) + 1
            continue
        base = per["seed0"]
        ok = not base["obj"].startswith("ERR:")
        bk = obs["build"].setdefault(target, {})
        lab = "ok" if ok else base["obj"]
        bk[lab] = bk.get(lab, 0) + 1
        if ok and base["img"].startswith("ERR:"):
            bk["link-" + base["img"]] = bk.get("link-" + base["img"], 0) + 1
        obs["kinds"][job["kind"]] = obs["kinds"].get(job["kind"], 0) + 1
        obs["levels"][str(level)] = obs["levels"].get(str(level), 0) + 1
        digs = set()
        bad = []
        for name, _, _ in variants:
            digs.add((per[name]["obj"], per[name]["img"]))
            if name == "seed0":
                continue
            ref = per[BASE.get(name, "seed0")]
            for what in ("obj", "img"):
                res["evaluations"] += 1
                cl = CLAUSE[name]
                obs["clause"][cl] = obs["clause"].get(cl, 0) + 1
                if per[name][what] != ref[what]:
                    bad.append((name, BASE.get(name, "seed0"), what))
        dd = obs["distinct_digests"].setdefault("%s-O%d" % (target, level), {})
        dd[str(len(digs))] = dd.get(str(len(digs)), 0) + 1
        if ok:
            built = True
            res["nontrivial_hashes"].append(h([job["src"], target, level]))
            if len(res["samples"]) < 1 and (job["kind"] != "asm" or len(jobs) == 1):
                res["samples"].append({"target": target, "level": level, "input": jid, "source": job["src"][:1200],
                                       "obj_sha256": base["obj"], "image_sha256": base["img"],
                                       "code_bytes": base.get("size"), "processes": len(variants)})
        if bad and len(res["violations"]) < 4:
            name, refname, what = bad[0]
            case = {"target": target, "level": level, "input": jid, "kind": job["kind"], "source": job["src"],
                    "digests": {n: {"obj": per[n]["obj"], "img": per[n]["img"], "err": per[n].get("err")}
                                for n in per},
                    "differing": ["%s vs %s: %s" % b for b in bad]}
            if what == "obj" or per[name]["obj"] != per[refname]["obj"]:
                case["first_difference_in_obj_text"] = first_diff(keep, per[refname]["obj"], per[name]["obj"])
            res["violations"].append({
                "summary": "%s O%d %s: %s differs between %s and %s (%d distinct results in %d processes)" % (
                    target, level, job["inp"], "object text" if what == "obj" else "linked image", refname, name,
                    len(digs), len(variants)),
                "case": case,
                "replay_spec": {"target": target, "levels": [level], "inputs": [job["inp"]], "tier": spec["tier"],
                                "seed": spec["seed"], "avoid": []}})
    if built:
        obs["targets_built"] = {target: 1}
    return res


# ---------------------------------------------------------------------------
# witness probes: one interpreter per hash seed observes all four mechanisms in isolation

PROBE_SRC = """int g1, g2; int arr[16];
int ext(int a, int b) { return a - b; }
int f(int a, int b, int c, int d) {
  int v0=a+b, v1=a-c, v2=b*d, v3=c^d, v4=a&b, v5=b|c, v6=a+d, v7=c-b, v8=d+d, v9=a*3;
  int i;
  for (i = 0; i < a; i++) {
    v0 += v1 * v2; v3 ^= v4 + v5; v6 -= v7 & v8; v9 += v0 ^ v3;
    arr[i & 15] = v6 + v9;
    if (v0 > v3) { v1 = ext(v2, v4); g1 += v1; } else { v5 = v5 + v8 - v7; }
  }
  g2 = v0+v1+v2+v3+v4+v5+v6+v7+v8+v9;
  return g1 + arr[3];
}
"""

PROBE_CHILD = r"""
import sys, os, json, io, re, hashlib, logging
logging.disable(logging.CRITICAL)
out = {}
def guard(key, fn):
    try:
        out[key] = fn()
    except BaseException as e:
        out[key] = "ERR:%s:%s" % (type(e).__name__, str(e)[:200])

def combine():
    # Graph.combine(n, m) re-routes the edges of m; the order in which they are appended to adj_map[n]
    from ppci.graph.graph import Graph, Node
    g = Graph()
    n = Node(g); m = Node(g)
    others = [Node(g) for _ in range(60)]
    for o in others:
        g.add_edge(m, o)
    g.combine(n, m)
    return [others.index(o) for o in g.adj_map[n]]

def make_ig():
    from ppci.arch.registers import Register
    from ppci.codegen.interferencegraph import InterferenceGraph
    class R(Register):
        pass
    regs = [R("t%d" % i) for i in range(60)]
    class FakeIns:
        clobbers = []
        def __init__(self, regs):
            self.used_registers = list(regs); self.defined_registers = []
            self.live_in = set(regs); self.live_out = set(regs); self.kill = set()
    class FakeNode:
        def __init__(self, ins):
            self.instructions = ins
    ig = InterferenceGraph()
    ig.calculate_interference([FakeNode([FakeIns(regs)])])
    return ig, regs

def ig_order():
    # one instruction with 60 simultaneously live registers: order of node creation and of the first node's edges
    ig, regs = make_ig()
    first = ig.get_node(regs[0])
    return [[sorted(t.name for t in nd.temps)[0] for nd in ig.nodes],
            [sorted(t.name for t in nd.temps)[0] for nd in first.adjecent]]

def moves():
    # iteration order of the moves attached to one interference graph node (freeze_moves / enable_moves iterate it)
    ig, regs = make_ig()
    class FakeMove:
        def __init__(self, i):
            self.i = i
    node = ig.get_node(regs[1])
    for i in range(60):
        node.moves.add(FakeMove(i))
    return [mv.i for mv in node.moves]

def select():
    # instruction sequence after instruction selection (before register allocation) of a real compile, virtual
    # register names reduced to their number (the names carry phi names, which are a different matter)
    from ppci import api
    from ppci.codegen import codegen as cg
    lines = []
    orig = cg.CodeGenerator.select_and_schedule
    def sas(self, irf, frame):
        orig(self, irf, frame)
        for i in frame.instructions:
            lines.append(re.sub(r"vreg(\d+)\w*", r"vreg\1", str(i)))
    cg.CodeGenerator.select_and_schedule = sas
    spec = json.load(open(sys.argv[1]))
    api.cc(io.StringIO(spec["src"]), spec["target"], opt_level=spec["level"])
    return [hashlib.sha256("\n".join(lines).encode()).hexdigest()[:16], len(lines)]

guard("combine", combine)
guard("ig", ig_order)
guard("moves", moves)
guard("select", select)
import ppci
out["ppci"] = os.path.abspath(ppci.__file__)
json.dump(out, open(sys.argv[2], "w"))
"""

_probe_cache = {}


def probe_observations():
    """Run the probe child under hash seeds 0, 1, 2, random (once per probe process)."""
    if _probe_cache:
        return _probe_cache
    tmp = os.environ.get("VERIF_TMP") or os.getcwd()
    repo = os.environ.get("VERIF_REPO", "/repo")
    script = os.path.join(tmp, "c30probe.py")
    with open(script, "w") as f:
        f.write(PROBE_CHILD)
    specfile = os.path.join(tmp, "c30probe-spec.json")
    with open(specfile, "w") as f:
        json.dump({"src": PROBE_SRC, "target": "x86_64", "level": 2}, f)
    obs = []
    for k, seed in enumerate(["0", "1", "2", "random"]):
        outfile = os.path.join(tmp, "c30probe-out-%d.json" % k)
        env = dict(os.environ)
        env["PYTHONHASHSEED"] = seed
        env["PYTHONPATH"] = repo
        with open(os.path.join(tmp, "c30probe.log"), "ab") as log:
            subprocess.run([os.environ.get("VERIF_PYTHON", "/venv/bin/python"), script, specfile, outfile], env=env,
                           cwd=tmp, stdin=subprocess.DEVNULL, stdout=log, stderr=log, timeout=600)
        with open(outfile) as f:
            r = json.load(f)
        if not r["ppci"].startswith(os.path.abspath(repo) + os.sep):
            raise RuntimeError("probe child imported ppci from %s" % r["ppci"])
        obs.append(r)
    _probe_cache["obs"] = obs
    return _probe_cache


def _probe(key, what):
    def run():
        obs = probe_observations()["obs"]
        vals = [json.dumps(o[key]) for o in obs]
        for v in vals:
            if v.startswith('"ERR:'):
                raise RuntimeError("probe %s could not observe: %s" % (key, v))
        n = len(set(vals))
        if n == 1:
            return None
        return "%s: %d different orders in %d processes (hash seeds 0, 1, 2, random)" % (what, n, len(vals))
    return run


PROBES = {
    "selection-dag-split-in-set-order": _probe(
        "select", "instruction sequence after selection of the witness function (x86_64 -O2, registers by number)"),
    "interference-graph-built-in-set-order": _probe(
        "ig", "order of interference-graph nodes and edges for one instruction with 60 live registers"),
    "interference-node-moves-in-set-order": _probe(
        "moves", "iteration order of 60 moves attached to one interference-graph node"),
    "graph-combine-reroutes-edges-in-set-order": _probe(
        "combine", "adjacency order of n after Graph.combine(n, m) with 60 neighbours of m"),
}
