"""C35 GDB remote serial protocol: framing and acknowledgement (DESIGN 4, C35).

Two runtime monitors over the real ``ppci.binutils.dbg.gdb.rsp`` code.

1. Framing (single-threaded, exhaustive for the stated space).  Every payload
   of length <= 4 (thorough: <= 5) over the alphabet ``a $ # } * + - '`` is
   framed by the real ``RspHandler.rsp_pack`` and by an independent reference
   framer written from the GDB RSP specification; the two must agree (modulo
   the letter case of the two checksum digits, which the specification leaves
   open).  The wire bytes of the real framing are cut in ALL 2^(n-1) ways into
   chunks (the reference framing, which differs at most in the case of the
   checksum digits, on sampled chunkings) and fed to a fresh ``RspHandler`` through the transport's
   ``on_byte`` entry point (= ``RspHandler._process_byte``).  That entry point
   takes exactly one byte per call -- ``transport.TCP.recv`` reads one byte --
   so a chunk is delivered the way ``TCP.recv_thread`` delivers it: one
   ``on_byte`` call per byte; at every chunk boundary the monitor asserts that
   nothing was delivered or written yet.  Oracle: exactly one ``on_message``
   call, argument equal to the payload (escapes restored), exactly one ``+``
   written, both only after the last byte; a following sentinel packet is
   delivered normally (decoder state reset).  Corrupted packets (checksum+1:
   all chunkings; non-hex checksum digit / altered body byte: sampled
   chunkings) must give exactly one ``-`` and no delivery.  The apostrophe is
   one character more than the design's alphabet: it triggers a decoder
   defect found while building this check.

2. Ack/retransmit histories under real threads.  A fake transport (or, in
   the ``tcp`` shard, the real ``transport.TCP`` over a loopback socket), a
   scripted *remote* thread (the only caller of ``on_byte``, like the real
   receiver thread) answering every transmission with ``+``, ``-``, a late
   ``+``, or silence, optionally preceded/followed by notification packets
   (some first sent with a corrupted checksum and retransmitted after the
   ``-``), 2-4 sender threads calling the real ``sendpkt``; a fifth of the
   histories go through ``client.GdbDebugDriver._send_message`` /
   ``_handle_message``.  Stray ``+`` bytes are injected only at quiescent
   points between two phases of sending (a stray ``+`` racing with a packet in
   flight is indistinguishable from its acknowledgement by protocol design).
   Yields are injected at statement boundaries of rsp.py through
   ``sys.monitoring`` LINE events (seeded per thread, only for code objects
   of rsp.py).  A thread-safe recorder notes, at the boundary, every
   ``transport.send``, every byte unit handed to ``on_byte`` (begin / last
   byte / end), every ``on_message`` delivery and every ``sendpkt``
   call/return/exception.  The offline checker then decides
     (i)   a ``-`` is followed by a retransmission of the same bytes while
           the retry budget lasts, never more than ``retries`` of them, none
           after a ``+``; ``sendpkt`` returns normally only after the ``+``
           that answers its last transmission was handed to ``on_byte`` and
           reports failure otherwise;
     (ii)  stop-and-wait: no packet of another sender is written while a
           packet waits for its acknowledgement;
     (iii) every well-formed incoming packet is delivered exactly once, in
           order, within the ``on_byte`` call of its last byte;
     (iv)  every incoming packet is answered by exactly one ``+`` (good) or
           ``-`` (bad checksum) and nothing else is ever written;
     and that ``on_byte`` never raises (the receiver thread would die).

Narrowings (stated, not silent):
* the quantifier's "model-checked" clause is randomised schedule exploration;
  interleavings depend on the OS scheduler and do not replay exactly -- the
  violation file carries the script, the yield seed and the full event log;
* the 0.5 s timeouts inside rsp.py are real time.  A ``queue.Empty`` out of
  ``sendpkt`` although the remote did answer is a *discard* (load), and is
  reported as a violation only when the answer had been handed over more
  than 0.25 s before the exception and this happens in two histories of a
  shard (systematic).  The per-history watchdog (20 s) discards;
* chunking is realised by the harness at the ``on_byte`` boundary (see 1.);
  the ``tcp`` shard additionally drives real chunk boundaries through
  ``TCP.recv_thread`` (a transport that hands more than one byte to
  ``on_byte`` is reported: the decoder silently drops such a chunk);
* DESIGN 3.2 step 3 (unrestricted sweep + neutralise) is not implemented.
"""
import os
import sys
import threading
import time

from vlib.core import rng, h

PROPERTY = "C35"
ALPHABET = "a$#}*+-'"
ESCAPED = "$#}*"
RULE = ("framing: ALL payloads of length <= 4 (thorough <= 5) over the alphabet {a $ # } * + - '} "
        "(payloads ending in an apostrophe are left out while finding decoder-apostrophe-hides-packet-end "
        "is open; for payloads containing $ # } * the received-content clause is off while "
        "unpack-keeps-escapes is open) x {real rsp_pack wire, reference wire with checksum+1} x ALL "
        "2^(n-1) chunkings of the n wire bytes, plus the reference wire (lower-case checksum) and two "
        "more corruptions on 2+6 sampled chunkings; "
        "non-trivial = at least two chunks; distinct by construction. histories: seeded scripts "
        "(2-4 sender threads, 1-3 packets each in 1-2 phases, per transmission an answer from "
        "{+, -, late +, silence} with optional notification packets, quiescent stray + and "
        "notifications between phases) x seeded yield schedules injected at rsp.py statement "
        "boundaries; non-trivial = the history has >= 2 senders overlapping in time or >= 1 nack; "
        "distinct = hash of (script, yield seed)")
ASSUMPTIONS = [
    "the 10-line reference framer/unframer in this file implements the GDB RSP packet format "
    "($data#cs, cs = sum of data bytes mod 256 in two hex digits, '}' escapes $ # } * as byte^0x20)",
    "the harness' recorder lock and the inbox queue of the scripted remote are correct (Python "
    "threading.Lock / queue.Queue)",
    "sys.monitoring LINE events do not change the semantics of the monitored code",
    "an exception out of on_byte is fatal for the connection (TCP.recv_thread has no handler)",
]
MANIFEST_ENTRY = {
    "text": "Every payload up to 4 (thorough 5) characters over an alphabet with all RSP special characters, "
            "framed by the real sender, is recognised by the real byte decoder as exactly one packet under "
            "every chunking, bad checksums are nacked exactly once; in some thousand multi-threaded histories "
            "with injected yields the sender obeys stop-and-wait, retransmits exactly per nack within the retry "
            "budget and the receiver delivers and acknowledges every incoming packet exactly once.",
    "note": "framing space enumerated completely (exhaustive: true refers to that part only); thread "
            "interleavings are sampled, not enumerated; open findings switch off nacks / stray acks / "
            "escaped-content comparison until the proposed fixes are applied; reference framer is trusted",
    "technique": "runtime monitoring: reference framer + offline history checker over exhaustive chunkings and "
                 "seeded multi-threaded schedules (sys.monitoring yield injection) of the real rsp.py",
}

K_NACK = "decoder-drops-nack"
K_UNESC = "unpack-keeps-escapes"
K_STRAY = "stray-plus-poisons-ack-queue"
K_APOS = "decoder-apostrophe-hides-packet-end"
K_BUDGET = "retry-budget-exhausted-despite-ack"

SHARD_TIMEOUT = {"quick": 900, "thorough": 3 * 3600}
WATCHDOG = 20.0
ONE = [bytes([i]) for i in range(256)]


def EXHAUSTIVE(tier):
    return True


# --------------------------------------------------------------------------
# plan / floors


def plan(tier, seed, avoid):
    specs = []
    maxlen = 4 if tier == "quick" else 5
    specs.append({"part": "frame", "lens": [0, 1, 2, 3], "prefix": ""})
    for c in ALPHABET:
        if maxlen == 4:
            specs.append({"part": "frame", "lens": [4], "prefix": c})
        else:
            specs.append({"part": "frame", "lens": [4], "prefix": c})
            for d in ALPHABET:
                specs.append({"part": "frame", "lens": [5], "prefix": c + d})
    if tier == "quick":
        nscripts, yseeds, nshards = 256, 3, 16
    else:
        nscripts, yseeds, nshards = 500, 20, 50
    per = (nscripts + nshards - 1) // nshards
    for i in range(nshards):
        lo, hi = i * per, min(nscripts, (i + 1) * per)
        if lo < hi:
            specs.append({"part": "hist", "lo": lo, "hi": hi, "yseeds": yseeds})
    specs.append({"part": "tcp", "frames": 150 if tier == "quick" else 1500,
                  "scripts": 6 if tier == "quick" else 40})
    return specs


def floors(tier):
    from vlib.core import open_keys

    opened = open_keys(PROPERTY)
    q = tier == "quick"
    f = {
        "evaluations": 4000000 if q else 100000000,
        "observed.framing.payloads": 4000 if q else 30000,
        "observed.framing.sender_vs_reference": 4000 if q else 30000,
        "observed.framing.good_delivered": 1500000 if q else 40000000,
        "observed.framing.corrupt_nacked": 1500000 if q else 40000000,
        "observed.framing.tcp_cases": 100 if q else 1000,
        "observed.history.checked": 550 if q else 8000,
        "observed.history.interleavings": 450 if q else 6000,
        "observed.history.scripts_with_several_orders": 160 if q else 400,
        "observed.history.senders_overlapped": 450 if q else 7000,
        "observed.history.yields_taken": 25000 if q else 400000,
        "observed.history.notifications_good": 1200 if q else 15000,
        "observed.history.notifications_corrupt": 600 if q else 7000,
        "observed.history.mode.client": 60 if q else 1000,
        "observed.history.mode.tcp": 6 if q else 40,
    }
    if K_NACK not in opened:
        # the retransmission clause is only waived through the avoid switch of the open finding
        f["observed.history.nacks_injected"] = 800 if q else 30000
        f["observed.history.retransmissions"] = 800 if q else 30000
        f["observed.history.budget_exhausted"] = 80 if q else 3000
    if K_STRAY not in opened:
        f["observed.history.stray_plus_injected"] = 80 if q else 1500
    return f


# --------------------------------------------------------------------------
# reference model (GDB RSP specification; independent of ppci)


def ref_frame(payload):
    body = "".join("}" + chr(ord(c) ^ 0x20) if c in ESCAPED else c for c in payload)
    return "$%s#%02x" % (body, sum(body.encode("latin-1")) % 256)


def ref_unframe(raw):
    """-> payload, or None when the packet is malformed / has a bad checksum."""
    if len(raw) < 4 or raw[0] != "$" or raw[-3] != "#":
        return None
    body = raw[1:-3]
    try:
        cs = int(raw[-2:], 16)
    except ValueError:
        return None
    if sum(body.encode("latin-1")) % 256 != cs:
        return None
    out, i = [], 0
    while i < len(body):
        if body[i] == "}":
            if i + 1 >= len(body):
                return None
            out.append(chr(ord(body[i + 1]) ^ 0x20))
            i += 2
        else:
            out.append(body[i])
            i += 1
    return "".join(out)


class RefStream:
    """Cuts the bytes written by ppci into units: packets and ack characters."""

    def __init__(self):
        self.buf = None
        self.tail = 0

    def feed(self, data):
        out = []
        for b in data:
            c = chr(b)
            if self.buf is None:
                if c == "$":
                    self.buf, self.tail = ["$"], -1
                elif c in "+-":
                    out.append(("ack", c))
                else:
                    out.append(("junk", c))
            else:
                self.buf.append(c)
                if self.tail >= 0:
                    self.tail += 1
                    if self.tail == 2:
                        out.append(("pkt", "".join(self.buf)))
                        self.buf = None
                elif c == "#":
                    self.tail = 0
        return out


def corrupt(wire, kind):
    """wire: reference framing (str). -> a packet that must be rejected."""
    if kind == "cs":
        cs = (int(wire[-2:], 16) + 1) % 256
        return wire[:-2] + "%02x" % cs
    if kind == "nonhex":
        return wire[:-1] + "g"
    if kind == "body":  # alter one body byte, keep the checksum
        body = wire[1:-3]
        if not body:
            return wire[:-3] + "b" + wire[-3:]
        c = "b" if body[0] != "b" else "c"
        return "$" + c + body[1:] + wire[-3:]
    raise ValueError(kind)


def quiet():
    import logging

    logging.disable(logging.CRITICAL)


# --------------------------------------------------------------------------
# framing monitor


class SinkTransport:
    def __init__(self):
        self.w = []
        self.on_byte = None

    def send(self, data):
        self.w.append(bytes(data))


def payloads(lens, prefix, avoid):
    import itertools

    for n in lens:
        if n < len(prefix):
            continue
        for tail in itertools.product(ALPHABET, repeat=n - len(prefix)):
            p = prefix + "".join(tail)
            if K_APOS in avoid and p.endswith("'"):
                continue
            yield p


def cut(wire, mask):
    chunks, start = [], 0
    for i in range(len(wire) - 1):
        if mask >> i & 1:
            chunks.append(wire[start:i + 1])
            start = i + 1
    chunks.append(wire[start:])
    return chunks


SENTINEL = b"$z#7a"


def feed_case(RspHandler, wire, mask):
    """One execution: fresh handler, wire cut by mask.  -> (delivered, written, error)"""
    tr = SinkTransport()
    hd = RspHandler(tr)
    got = []
    hd.on_message = got.append
    on_byte = tr.on_byte
    n = len(wire)
    try:
        for i in range(n):
            on_byte(ONE[wire[i]])
            if i < n - 1 and (mask >> i & 1) and (got or tr.w):
                return got, tr.w, "delivered %r / wrote %r before the last byte (after chunk ending at byte %d)" % (
                    got, tr.w, i)
        first = (list(got), list(tr.w))
        for b in SENTINEL:
            on_byte(ONE[b])
    except BaseException as e:  # noqa
        return got, tr.w, "on_byte raised %s: %s" % (type(e).__name__, e)
    if got[len(first[0]):] != ["z"] or tr.w[len(first[1]):] != [b"+"]:
        return got, tr.w, "sentinel packet $z#7a after it: delivered %r wrote %r" % (
            got[len(first[0]):], tr.w[len(first[1]):])
    return first[0], first[1], None


def run_frame(spec):
    from ppci.binutils.dbg.gdb.rsp import RspHandler

    quiet()
    avoid = spec["avoid"]
    r = rng(spec["seed"], PROPERTY, "frame" + spec["prefix"] + str(spec["lens"]))
    evals = nontriv = 0
    ob = {"payloads": 0, "sender_vs_reference": 0, "good_delivered": 0, "corrupt_nacked": 0,
          "content_clause_off": 0, "chunkings": 0, "wire_len": {}, "variant": {}}
    viol, samples = [], []

    def bad(summary, case):
        if len(viol) < 5:
            viol.append({"summary": summary, "case": case})

    for p in payloads(spec["lens"], spec["prefix"], avoid):
        ob["payloads"] += 1
        ref = ref_frame(p)
        try:
            real = RspHandler.rsp_pack(p)
        except BaseException as e:  # noqa
            bad("rsp_pack(%r) raised %s: %s" % (p, type(e).__name__, e), {"payload": p})
            continue
        evals += 1
        ob["sender_vs_reference"] += 1
        if not (isinstance(real, str) and real[:-2] == ref[:-2] and real[-2:].lower() == ref[-2:]):
            bad("rsp_pack(%r) = %r, RSP specification gives %r" % (p, real, ref),
                {"payload": p, "real": real, "reference": ref})
            continue
        if ref_unframe(real) != p:  # self-check of the reference pair
            return {"inconclusive": ["reference unframer disagrees with reference framer on %r" % p]}
        content = not (K_UNESC in avoid and any(c in ESCAPED for c in p))
        if not content:
            ob["content_clause_off"] += 1
        variants = [("real", real, True)]
        if real != ref:
            variants.append(("ref", ref, True))
        variants.append(("cs", corrupt(ref, "cs"), False))
        n = len(ref)
        ob["wire_len"][str(n)] = ob["wire_len"].get(str(n), 0) + 1
        allmasks = range(1 << (n - 1))
        some = sorted({0, (1 << (n - 1)) - 1} | {r.randrange(1 << (n - 1)) for _ in range(6)})
        variants.append(("nonhex", corrupt(ref, "nonhex"), False))
        variants.append(("body", corrupt(ref, "body"), False))
        for name, wire_s, good in variants:
            wire = wire_s.encode("latin-1")
            masks = allmasks if name in ("real", "cs") else some
            if not good and ref_unframe(wire_s) is not None:
                return {"inconclusive": ["corruption %s of %r is accepted by the reference" % (name, p)]}
            for mask in masks:
                got, w, err = feed_case(RspHandler, wire, mask)
                evals += 1
                ob["chunkings"] += 1
                if mask:
                    nontriv += 1
                if err is None:
                    if good:
                        if len(got) != 1 or w != [b"+"]:
                            err = "delivered %r and wrote %r, expected exactly one message and one '+'" % (got, w)
                        elif content and got[0] != p:
                            err = "delivered %r, payload sent was %r" % (got[0], p)
                        else:
                            ob["good_delivered"] += 1
                    else:
                        if got or w != [b"-"]:
                            err = "corrupted packet: delivered %r and wrote %r, expected no message and one '-'" % (
                                got, w)
                        else:
                            ob["corrupt_nacked"] += 1
                if err is not None:
                    bad("payload %r wire %r (%s) chunks %r: %s" % (p, wire_s, name, cut(wire_s, mask), err),
                        {"payload": p, "wire": wire_s, "variant": name, "mask": mask,
                         "chunks": cut(wire_s, mask), "delivered": got, "written": [x.decode("latin-1") for x in w],
                         "expected": p if good else None})
                    break
            ob["variant"][name] = ob["variant"].get(name, 0) + 1
        if len(samples) < 1 and spec["prefix"] in ("", "}") and any(c in ESCAPED for c in p) and len(p) >= 3:
            samples.append({"payload": p, "wire": real, "chunkings": 1 << (n - 1)})
        if len(viol) >= 5:
            break
    return {"evaluations": evals, "nontrivial_count": nontriv, "observed": {"framing": ob},
            "violations": viol, "samples": samples}


# --------------------------------------------------------------------------
# history monitor: recording


class Recorder:
    """Thread-safe event log.  Events get their sequence number under the lock."""

    def __init__(self):
        self.lock = threading.Lock()
        self.events = []

    def rec(self, k_, **kw):
        th = threading.current_thread().name
        with self.lock:
            n = len(self.events)
            e = {"n": n, "k": k_, "th": th, "t": time.monotonic()}
            e.update(kw)
            self.events.append(e)
        return n


class Yielder:
    """Seeded yield decisions per thread; used by the LINE callback and the harness threads."""

    def __init__(self, seed, sidx, yseed, level):
        self.key = "%s/%s" % (sidx, yseed)
        self.seed = seed
        self.level = level
        self.rngs = {}
        self.lines = {}
        self.taken = {}
        self.active = True

    def point(self):
        if not self.active:
            return
        name = role(threading.current_thread().name)
        r = self.rngs.get(name)
        if r is None:
            r = self.rngs[name] = rng(self.seed, PROPERTY, "y/%s/%s" % (self.key, name))
            self.lines[name] = 0
            self.taken[name] = 0
        self.lines[name] += 1
        x = r.random()
        if x < self.level:
            self.taken[name] += 1
            time.sleep(0)
        elif x < self.level * 1.1:
            self.taken[name] += 1
            time.sleep(0.0002 + r.random() * 0.001)


CURRENT = {"y": None}
_MON = {"installed": False}


def install_line_hook():
    """LINE events for every code object of rsp.py only."""
    if _MON["installed"]:
        return True
    mon = getattr(sys, "monitoring", None)
    if mon is None:
        return False
    from ppci.binutils.dbg.gdb import rsp

    tool = None
    for cand in (3, 4):
        try:
            mon.use_tool_id(cand, "c35-yield")
            tool = cand
            break
        except ValueError:
            continue
    if tool is None:
        return False
    codes = []

    def walk(code):
        codes.append(code)
        for c in code.co_consts:
            if hasattr(c, "co_code"):
                walk(c)

    for obj in list(vars(rsp.RspHandler).values()) + [rsp.decoder]:
        fn = getattr(obj, "__func__", obj)
        if hasattr(fn, "__code__") and fn.__code__.co_filename == rsp.__file__:
            walk(fn.__code__)

    def on_line(code, line):
        y = CURRENT["y"]
        if y is not None:
            y.point()

    mon.register_callback(tool, mon.events.LINE, on_line)
    for c in codes:
        mon.set_local_events(tool, c, mon.events.LINE)
    _MON["installed"] = True
    _MON["codes"] = len(codes)
    return True


# --------------------------------------------------------------------------
# history monitor: script generation


def note_unit(nid, r, client):
    payload = ("T05n%d" % nid) if client else ("n%d" % nid) + r.choice(["", ";a", "+-", ":ok"])
    kind = r.choice([None, None, None, "cs", "body", "nonhex"])
    return {"u": "note", "payload": payload, "corrupt": kind}


def make_script(seed, sidx, avoid, mode=None):
    r = rng(seed, PROPERTY, "script%d" % sidx)
    if mode is None:
        mode = "client" if r.random() < 0.2 else "fake"
    client = mode == "client"
    nsend = r.choice([2, 2, 3, 3, 4])
    phases = r.choice([1, 2, 2])
    allow_silence = r.random() < 0.2
    nid = [0]
    silence_used = [False]

    def notes(prob, most=1):
        out = []
        while r.random() < prob and len(out) < most:
            nid[0] += 1
            out.append(note_unit(nid[0], r, client))
        return out

    def reaction(ack):
        return {"pre": notes(0.15), "ack": ack, "post": notes(0.15)}

    senders = []
    for t in range(nsend):
        per_phase = []
        for ph in range(phases):
            sends = []
            for c in range(r.choice([1, 1, 2, 3])):
                suffix = "".join(r.choice("a$#}*+-") for _ in range(r.choice([0, 0, 1, 3])))
                pid = "s%d.%d.%d:%s" % (t, ph, c, suffix)
                retries = None if client else r.choice([None, None, 1, 2, 3])
                budget = 10 if retries is None else retries
                if K_NACK in avoid:
                    nn = 0
                else:
                    nn = r.choice([0] * 8 + [1] * 4 + [2] * 2 + [3, budget, budget + 1, budget + 1])
                    if K_BUDGET in avoid and nn == budget:
                        nn = budget - 1 if r.random() < 0.5 else budget + 1
                if nn > budget:
                    acks = ["-"] * (budget + 1)
                else:
                    x = r.random()
                    final = "+"
                    if x < 0.12:
                        final = "late+"
                    elif x < 0.2 and allow_silence and not silence_used[0]:
                        final = "silence"
                        silence_used[0] = True
                    acks = ["-"] * nn + [final]
                sends.append({"pid": pid, "retries": retries, "reactions": [reaction(a) for a in acks]})
            per_phase.append(sends)
        senders.append(per_phase)
    inject = []
    for gap in range(phases + 1):
        units = notes(0.35, 2)
        if K_STRAY not in avoid and 0 < gap < phases and r.random() < 0.6:
            for _ in range(r.choice([1, 1, 2])):
                units.insert(r.randrange(len(units) + 1), {"u": "stray+"})
        inject.append(units)
    return {"sidx": sidx, "mode": mode, "senders": senders, "inject": inject, "phases": phases}


# --------------------------------------------------------------------------
# history monitor: execution


class Remote:
    """The scripted peer.  In fake mode it is also the receiver thread (the only caller of on_byte)."""

    def __init__(self, rec, script, yielder, tcp=None):
        import queue

        self.rec = rec
        self.script = script
        self.y = yielder
        self.inbox = queue.Queue()
        self.reactions = {}
        for per_phase in script["senders"]:
            for sends in per_phase:
                for s in sends:
                    self.reactions[s["pid"]] = s["reactions"]
        self.seen = {}
        self.stream = RefStream()
        self.outstanding = []  # notification transmissions awaiting ppci's ack
        self.uid = 0
        self.dead = False
        self.on_byte = None
        self.tcp = tcp
        self.thread = None
        self.crash = None

    # -- delivery of one unit to ppci
    def emit(self, kind, data, cause=None, payload=None):
        if self.dead:
            return
        self.uid += 1
        uid = self.uid
        if self.tcp is not None:
            self.tcp.emit(uid, kind, data, cause, payload)
            if self.tcp.dead:
                self.dead = True
            return
        self.rec.rec("rx_begin", uid=uid, kind=kind, data=data.decode("latin-1"), cause=cause, payload=payload)
        last = len(data) - 1
        for i, b in enumerate(data):
            if i == last:
                self.rec.rec("rx_last", uid=uid)
            try:
                self.on_byte(ONE[b])
            except BaseException as e:  # noqa
                self.rec.rec("rx_exc", uid=uid, type=type(e).__name__, msg=str(e)[:200])
                self.dead = True
                return
            if i != last:
                self.y.point()
        self.rec.rec("rx_end", uid=uid)

    def emit_unit(self, u, cause=None):
        if u["u"] == "stray+":
            self.emit("stray+", b"+", cause)
            return
        wire = ref_frame(u["payload"])
        if u.get("corrupt"):
            self.outstanding.append({"payload": u["payload"], "good": False})
            self.emit("note-bad", corrupt(wire, u["corrupt"]).encode("latin-1"), cause, u["payload"])
        else:
            self.outstanding.append({"payload": u["payload"], "good": True})
            self.emit("note-good", wire.encode("latin-1"), cause, u["payload"])

    def react(self, txn, unit):
        kind, val = unit
        if kind == "junk":
            self.rec.rec("junk", cause=txn, data=val)
            return
        if kind == "ack":
            if not self.outstanding:
                self.rec.rec("unexpected_ack", cause=txn, data=val)
                return
            o = self.outstanding.pop(0)
            if val == "-" and not o["good"]:
                # the peer retransmits the packet, this time intact
                self.outstanding.append({"payload": o["payload"], "good": True})
                self.emit("note-good", ref_frame(o["payload"]).encode("latin-1"), txn, o["payload"])
            return
        pid = ref_unframe(val)
        if pid is None:
            self.rec.rec("react", cause=txn, pid=None, j=0, ack="malformed")
            return
        j = self.seen.get(pid, 0) + 1
        self.seen[pid] = j
        rs = self.reactions.get(pid, [])
        ra = rs[j - 1] if j <= len(rs) else {"pre": [], "ack": "+", "post": []}
        self.rec.rec("react", cause=txn, pid=pid, j=j, ack=ra["ack"])
        for u in ra["pre"]:
            self.emit_unit(u, txn)
        if ra["ack"] == "late+":
            time.sleep(0.03)
            self.emit("ack+", b"+", txn)
        elif ra["ack"] == "+":
            self.emit("ack+", b"+", txn)
        elif ra["ack"] == "-":
            self.emit("ack-", b"-", txn)
        for u in ra["post"]:
            self.emit_unit(u, txn)

    def main(self):
        try:
            self.main_()
        except BaseException:  # noqa  the scripted peer itself failed: harness error
            import traceback

            self.crash = traceback.format_exc()[-800:]

    def main_(self):
        import queue

        stopping = False
        while True:
            try:
                item = self.inbox.get(timeout=(0.05 if self.tcp else 0.001) if stopping else WATCHDOG + 5)
            except queue.Empty:
                return
            if item[0] == "stop":
                stopping = True
                continue
            if item[0] == "inject":
                for u in item[1]:
                    self.emit_unit(u)
                item[2].set()
                continue
            _, txn, data = item
            for unit in self.stream.feed(data):
                self.react(txn, unit)


class FakeTransport:
    def __init__(self, rec, remote, yielder):
        self.rec = rec
        self.remote = remote
        self.y = yielder
        self.on_byte = None

    def send(self, data):
        data = bytes(data)
        n = self.rec.rec("tx", data=data.decode("latin-1"))
        self.remote.inbox.put(("tx", n, data))
        self.y.point()


class TcpSide:
    """Real transport.TCP over a loopback connection, observed at send() and on_byte."""

    def __init__(self, rec, yielder):
        import collections
        import queue
        import socket

        from ppci.binutils.dbg.gdb.transport import TCP

        self.rec = rec
        self.y = yielder
        self.srv = socket.socket()
        self.srv.bind(("127.0.0.1", 0))
        self.srv.listen(1)
        self.tcp = TCP(self.srv.getsockname()[1])
        self.sendlock = threading.Lock()
        self.fifo = queue.Queue()
        self.pending = collections.deque()
        self.dead = False
        self.conn = None
        self.remote = None
        real_send = self.tcp.send

        def send(data):
            data = bytes(data)
            with self.sendlock:  # a socket serialises writes; keeps log order == wire order
                n = self.rec.rec("tx", data=data.decode("latin-1"))
                self.fifo.put((n, len(data)))
                real_send(data)
            self.y.point()

        self.tcp.send = send

    def attach(self, remote):
        """Call after RspHandler(tcp) took over tcp.on_byte."""
        self.remote = remote
        inner = self.tcp.on_byte

        def on_byte(b):
            if len(b) != 1:  # rsp.decoder takes single bytes; anything else is silently dropped by it
                self.rec.rec("bad_chunk", size=len(b))
                self.dead = True
                for x in list(self.pending):
                    x["done"].set()
                return inner(b)
            u = self.pending[0]
            i = u["i"]
            if i == 0:
                self.rec.rec("rx_begin", uid=u["uid"], kind=u["kind"], data=u["data"].decode("latin-1"),
                             cause=u["cause"], payload=u["payload"])
            last = i == len(u["data"]) - 1
            if last:
                self.rec.rec("rx_last", uid=u["uid"])
            u["i"] = i + 1
            try:
                inner(b)
            except BaseException as e:  # noqa
                self.rec.rec("rx_exc", uid=u["uid"], type=type(e).__name__, msg=str(e)[:200])
                self.dead = True
                u["done"].set()
                raise
            if last:
                self.rec.rec("rx_end", uid=u["uid"])
                self.pending.popleft()
                u["done"].set()

        self.tcp.on_byte = on_byte
        self.tcp.connect()
        self.conn, _ = self.srv.accept()
        self.conn.settimeout(WATCHDOG)
        self.pump = threading.Thread(target=self.pump_main, name="pump", daemon=True)
        self.pump.start()

    def pump_main(self):
        try:
            while True:
                item = self.fifo.get()
                if item is None:
                    return
                n, ln = item
                data = b""
                while len(data) < ln:
                    got = self.conn.recv(ln - len(data))
                    if not got:
                        return
                    data += got
                self.remote.inbox.put(("tx", n, data))
        except OSError:
            return

    def emit(self, uid, kind, data, cause, payload):
        u = {"uid": uid, "kind": kind, "data": data, "cause": cause, "payload": payload, "i": 0,
             "done": threading.Event()}
        self.pending.append(u)
        try:
            self.conn.sendall(data)
        except OSError:
            self.dead = True
            return
        if not u["done"].wait(WATCHDOG):
            self.dead = True

    def close(self):
        self.fifo.put(None)
        try:
            self.tcp.disconnect()
        except BaseException:  # noqa
            pass
        for s in (self.conn, self.srv):
            try:
                if s is not None:
                    s.close()
            except OSError:
                pass


def run_history(seed, script, yseed, level):
    """Executes one history against the real code. -> (events, info)"""
    import queue

    from ppci.binutils.dbg.gdb.rsp import RspHandler

    sidx, mode = script["sidx"], script["mode"]
    tag = "h%d.%d" % (sidx, yseed)
    rec = Recorder()
    y = Yielder(seed, sidx, yseed, level)
    info = {"watchdog": False, "client_stop_queue": None}
    tside = None
    if mode == "tcp":
        tside = TcpSide(rec, y)
        remote = Remote(rec, script, y, tcp=tside)
        transport = tside.tcp
    else:
        remote = Remote(rec, script, y)
        transport = FakeTransport(rec, remote, y)
    driver = None
    if mode == "client":
        from ppci.api import get_arch
        from ppci.binutils.dbg.gdb.client import GdbDebugDriver

        driver = GdbDebugDriver(get_arch("example"), transport)
        handler = driver._rsp
        inner = handler.on_message  # GdbDebugDriver._handle_message

        def on_message(msg):
            rec.rec("deliver", payload=msg)
            inner(msg)

        def do_send(pid, retries):
            driver._send_message(pid)
    else:
        handler = RspHandler(transport)

        def on_message(msg):
            rec.rec("deliver", payload=msg)

        def do_send(pid, retries):
            if retries is None:
                handler.sendpkt(pid)
            else:
                handler.sendpkt(pid, retries=retries)

    handler.on_message = on_message
    if tside is not None:
        tside.attach(remote)
    else:
        remote.on_byte = transport.on_byte

    nphase = script["phases"]
    go = [threading.Event() for _ in range(nphase)]
    done = queue.Queue()
    abandon = threading.Event()

    def sender(t):
        for ph in range(nphase):
            go[ph].wait(WATCHDOG + 5)
            if abandon.is_set():
                return
            for s in script["senders"][t][ph]:
                retries = None if driver is not None else s["retries"]
                rec.rec("call", pid=s["pid"], retries=10 if retries is None else retries)
                try:
                    do_send(s["pid"], retries)
                except BaseException as e:  # noqa
                    rec.rec("exc", pid=s["pid"], type=type(e).__name__, msg=str(e)[:120])
                else:
                    rec.rec("ret", pid=s["pid"])
            done.put((t, ph))

    threads = [threading.Thread(target=sender, args=(t,), name="%s-s%d" % (tag, t), daemon=True)
               for t in range(len(script["senders"]))]
    remote.thread = threading.Thread(target=remote.main, name="%s-remote" % tag, daemon=True)
    deadline = time.monotonic() + WATCHDOG
    CURRENT["y"] = y
    try:
        remote.thread.start()
        for th in threads:
            th.start()

        def inject(units):
            if not units:
                return True
            ev = threading.Event()
            remote.inbox.put(("inject", units, ev))
            return ev.wait(max(0.0, deadline - time.monotonic()))

        ok = inject(script["inject"][0])
        for ph in range(nphase):
            if not ok:
                break
            go[ph].set()
            for _ in threads:
                try:
                    done.get(timeout=max(0.0, deadline - time.monotonic()))
                except queue.Empty:
                    ok = False
                    break
            if ok:
                ok = inject(script["inject"][ph + 1])
        if not ok:
            info["watchdog"] = True
            abandon.set()
            for e in go:
                e.set()
        remote.inbox.put(("stop",))
        remote.thread.join(max(0.5, deadline - time.monotonic()))
        if remote.thread.is_alive():
            info["watchdog"] = True
        for th in threads:
            th.join(0.2 if info["watchdog"] else 2)
    finally:
        y.active = False
        CURRENT["y"] = None
        if tside is not None:
            tside.close()
    if driver is not None:
        got = []
        while True:
            try:
                got.append(driver._stop_msg_queue.get_nowait())
            except queue.Empty:
                break
        info["client_stop_queue"] = got
    if remote.crash:
        raise RuntimeError("scripted remote crashed: " + remote.crash)
    if remote.dead and not any(e["k"] in ("rx_exc", "bad_chunk") for e in rec.events):
        info["watchdog"] = True  # a unit never arrived (TCP mode): harness trouble, not a verdict
    info["lines"] = sum(y.lines.values())
    info["yields"] = sum(y.taken.values())
    info["threads_yielding"] = len(y.lines)
    with rec.lock:
        events = list(rec.events)
    return events, info


# --------------------------------------------------------------------------
# history monitor: offline checker


def role(th):
    if "recv_thread" in th:
        return "recv"
    return th.split("-", 1)[1] if "-" in th and th.startswith("h") else th


def check_history(ev, script, info):
    """-> (violations [str], stats {str: int}, discard reason or None, stuck [str])"""
    viol, st, stuck = [], {}, []

    def count(k, n=1):
        st[k] = st.get(k, 0) + n

    sends, units, reacts = {}, {}, {}
    for e in ev:
        k = e["k"]
        if k == "call":
            sends[e["pid"]] = {"pid": e["pid"], "call": e["n"], "th": e["th"], "retries": e["retries"],
                               "tx": [], "end": None, "outcome": None}
        elif k in ("ret", "exc"):
            s = sends[e["pid"]]
            s.update(end=e["n"], outcome=k, exc=e.get("type"), msg=e.get("msg"), t_end=e["t"])
        elif k == "rx_begin":
            units[e["uid"]] = {"uid": e["uid"], "kind": e["kind"], "cause": e["cause"], "payload": e.get("payload"),
                               "begin": e["n"], "last": None, "end": None, "exc": None, "th": e["th"],
                               "data": e["data"]}
        elif k == "rx_last":
            units[e["uid"]]["last"] = e["n"]
        elif k == "rx_end":
            units[e["uid"]].update(end=e["n"], t_end=e["t"])
        elif k == "rx_exc":
            units[e["uid"]]["exc"] = "%s: %s" % (e["type"], e["msg"])
        elif k == "react":
            reacts[e["cause"]] = e
    for e in ev:
        if e["k"] == "bad_chunk":
            return ["transport.TCP handed %d bytes to on_byte in one call; the packet decoder takes single bytes "
                    "and drops the rest of the stream" % e["size"]], st, None, []
    if info.get("watchdog") or any(s["end"] is None for s in sends.values()):
        return [], st, "watchdog", []

    # classify every write
    ack_writes = []
    pkt_tx = []
    wrote_at = []  # positions of the writes judged below, parallel to viol
    for e in ev:
        if e["k"] != "tx":
            continue
        d = e["data"]
        if d in ("+", "-"):
            ack_writes.append(e)
            continue
        pid = ref_unframe(d) if d.startswith("$") else None
        s = sends.get(pid)
        if s is None:
            viol.append("unexplained bytes %r written to the transport by %s" % (d, role(e["th"])))
            wrote_at.append(e["n"])
            continue
        if e["th"] != s["th"] or not (s["call"] < e["n"] < s["end"]):
            viol.append("packet %r written outside its sendpkt call (thread %s)" % (d, role(e["th"])))
            wrote_at.append(e["n"])
            continue
        s["tx"].append(e)
        pkt_tx.append((e, s))

    ack_unit = {}  # tx n -> unit answering it
    for u in units.values():
        if u["kind"] in ("ack+", "ack-"):
            ack_unit[u["cause"]] = u

    # real-time races first: they poison the rest of the history (what happened before the first one stands)
    for s in sorted(sends.values(), key=lambda s: s["end"]):
        if s["outcome"] == "exc" and s["exc"] == "Empty" and s["tx"]:
            last = s["tx"][-1]
            ra = reacts.get(last["n"])
            if ra is not None and ra["ack"] in ("+", "-", "late+"):
                u = ack_unit.get(last["n"])
                if u is not None and u["end"] is not None and s["t_end"] - u["t_end"] > 0.25 and u["end"] < s["end"]:
                    stuck.append("sendpkt(%r) raised queue.Empty although the remote's %r had been handed to "
                                 "on_byte %.2f s earlier%s" % (
                                     s["pid"], u["data"], s["t_end"] - u["t_end"],
                                     " (nack neither retransmitted nor reported)" if u["data"] == "-" else ""))
                died = ["on_byte raised %s while receiving %s %r (the receiver thread dies)" % (
                    x["exc"], x["kind"], x["data"]) for x in units.values()
                    if x["exc"] is not None and x["begin"] < s["end"]]
                died += [m for m, n in zip(viol, wrote_at) if n < s["end"]]
                if died:
                    return died, st, None, []
                return [], st, "timeout-race", stuck

    # receiver side: (iii), (iv), on_byte never raises
    good_payloads, delivered = [], []
    by_thread = {}
    for e in ev:
        by_thread.setdefault(e["th"], []).append(e)
    for u in sorted(units.values(), key=lambda u: u["begin"]):
        if u["exc"] is not None:
            viol.append("on_byte raised %s while receiving %s %r (the receiver thread dies)" % (
                u["exc"], u["kind"], u["data"]))
            continue
        if u["end"] is None:
            return [], st, "watchdog", []
        mine = [e for e in by_thread[u["th"]] if u["begin"] < e["n"] < u["end"] and e["k"] in ("tx", "deliver")]
        early = [e for e in mine if e["n"] < u["last"]]
        late = [e for e in mine if e["n"] > u["last"]]
        if early:
            viol.append("%s %r: %s before its last byte arrived" % (u["kind"], u["data"], describe(early)))
        txs = [e["data"] for e in late if e["k"] == "tx"]
        dels = [e["payload"] for e in late if e["k"] == "deliver"]
        if u["kind"] == "note-good":
            good_payloads.append(u["payload"])
            count("notifications_good")
            if txs != ["+"]:
                viol.append("good incoming packet %r answered by %r, expected exactly one '+'" % (u["data"], txs))
            if dels != [u["payload"]]:
                viol.append("good incoming packet %r (payload %r): delivered %r, expected exactly once" % (
                    u["data"], u["payload"], dels))
        elif u["kind"] == "note-bad":
            count("notifications_corrupt")
            if txs != ["-"]:
                viol.append("incoming packet with bad checksum %r answered by %r, expected exactly one '-'" % (
                    u["data"], txs))
            if dels:
                viol.append("incoming packet with bad checksum %r was delivered: %r" % (u["data"], dels))
        else:
            if u["kind"] == "stray+":
                count("stray_plus_injected")
            if txs or dels:
                viol.append("acknowledgement byte %r caused %s" % (u["data"], describe(late)))
    for e in ev:
        if e["k"] == "deliver":
            delivered.append(e["payload"])
    if delivered != good_payloads and not viol:
        viol.append("deliveries %r differ from the good incoming packets %r (lost, duplicated or reordered)" % (
            delivered, good_payloads))
    count("deliveries", len(delivered))
    inside = set()
    for u in units.values():
        if u["end"] is not None:
            for e in by_thread[u["th"]]:
                if u["begin"] < e["n"] < u["end"] and e["k"] == "tx":
                    inside.add(e["n"])
    for e in ack_writes:
        count("acks_written_plus" if e["data"] == "+" else "acks_written_minus")
        if e["n"] not in inside:
            viol.append("%r written by %s outside the reception of any packet" % (e["data"], role(e["th"])))
    if info.get("client_stop_queue") is not None and info["client_stop_queue"] != good_payloads and not viol:
        viol.append("client stop-message queue holds %r, good stop packets received were %r" % (
            info["client_stop_queue"], good_payloads))

    # sender side: (i)
    for s in sends.values():
        count("sends")
        txs = s["tx"]
        count("tx_packets", len(txs))
        rs = []
        for e in txs:
            ra = reacts.get(e["n"])
            rs.append(ra["ack"] if ra else "pending")
        count("outcome." + (s["outcome"] if s["outcome"] == "ret" else "exc_" + str(s["exc"])))
        if not txs:
            viol.append("sendpkt(%r) ended (%s) without writing the packet" % (s["pid"], s["outcome"]))
            continue
        if any(e["data"] != txs[0]["data"] for e in txs):
            viol.append("sendpkt(%r): retransmission differs from the first transmission: %r" % (
                s["pid"], [e["data"] for e in txs]))
        if len(txs) - 1 > s["retries"]:
            viol.append("sendpkt(%r, retries=%d) transmitted %d times" % (s["pid"], s["retries"], len(txs)))
        for j, a in enumerate(rs):
            more = j + 1 < len(txs)
            if a == "-":
                count("nacks_injected")
                if more:
                    count("retransmissions")
                    u = ack_unit.get(txs[j]["n"])
                    if u is None or u["begin"] > txs[j + 1]["n"]:
                        viol.append("sendpkt(%r) retransmitted before the '-' arrived" % s["pid"])
                elif j < s["retries"]:
                    viol.append("sendpkt(%r, retries=%d): transmission %d was answered with '-' but the packet "
                                "was not retransmitted (outcome: %s %s)" % (
                                    s["pid"], s["retries"], j + 1, s["outcome"], s.get("exc") or ""))
                else:
                    count("budget_exhausted")
            elif a in ("+", "late+"):
                if a == "late+":
                    count("late_acks")
                if more:
                    viol.append("sendpkt(%r): transmission %d was acknowledged with '+' but the packet was "
                                "written again" % (s["pid"], j + 1))
            elif a == "silence":
                count("silences")
        final = rs[-1]
        if s["outcome"] == "ret":
            u = ack_unit.get(txs[-1]["n"])
            if final not in ("+", "late+"):
                viol.append("sendpkt(%r) returned normally but its last transmission was answered with %s" % (
                    s["pid"], final))
            elif u is None or u["begin"] > s["end"]:
                viol.append("sendpkt(%r) returned before the '+' answering it was handed to on_byte" % s["pid"])
        else:
            if final in ("+", "late+"):
                viol.append("sendpkt(%r, retries=%d) raised %s(%s) although its last transmission (number %d) "
                            "was acknowledged with '+'" % (s["pid"], s["retries"], s["exc"], s["msg"], len(txs)))

    # (ii) stop-and-wait on the wire
    for (e1, s1), (e2, s2) in zip(pkt_tx, pkt_tx[1:]):
        if s1 is s2:
            continue
        u = ack_unit.get(e1["n"])
        if s1["outcome"] == "exc":
            continue
        if u is None or u["kind"] != "ack+" or u["begin"] > e2["n"]:
            viol.append("packet %r of %s written while %r of %s was still waiting for its acknowledgement" % (
                e2["data"], role(e2["th"]), e1["data"], role(e1["th"])))

    # how concurrent was it
    iv = sorted((s["call"], s["end"], s["th"]) for s in sends.values())
    overlap = any(a[1] > b[0] and a[2] != b[2] for a, b in zip(iv, iv[1:]))
    if overlap:
        count("senders_overlapped")
    contended = 0
    for e, s in pkt_tx:
        contended += sum(1 for o in sends.values() if o is not s and o["call"] < e["n"] < o["end"])
    if contended:
        count("histories_with_lock_contention")
    st["nontrivial"] = 1 if (overlap or st.get("nacks_injected")) else 0
    return viol, st, None, stuck


def describe(events):
    return ", ".join("wrote %r" % e["data"] if e["k"] == "tx" else "delivered %r" % e["payload"] for e in events)


def order_hash(ev):
    seq = []
    for e in ev:
        if e["k"] in ("call", "ret", "exc"):
            seq.append((role(e["th"]), e["k"], e["pid"]))
        elif e["k"] == "tx":
            seq.append((role(e["th"]), "tx", e["data"]))
        elif e["k"] in ("rx_begin", "rx_end"):
            seq.append((role(e["th"]), e["k"], e["uid"]))
        elif e["k"] == "deliver":
            seq.append((role(e["th"]), "deliver", e["payload"]))
    return h(seq)[:12]


def slim(ev):
    out = []
    for e in ev:
        e = dict(e)
        e["t"] = round(e["t"], 4)
        e["th"] = role(e["th"])
        out.append(e)
    return out


def run_hist(spec):
    quiet()
    if not install_line_hook():
        return {"inconclusive": ["sys.monitoring is not available: no yield injection"]}
    avoid = spec["avoid"]
    seed = spec["seed"]
    tcp = spec["part"] == "tcp"
    if spec.get("only"):
        todo = [tuple(x) for x in spec["only"]]
    elif tcp:
        todo = [(100000 + s, ys) for s in range(spec["scripts"]) for ys in range(2)]
    else:
        todo = [(s, ys) for s in range(spec["lo"], spec["hi"]) for ys in range(spec["yseeds"])]
    ob = {"checked": 0, "interleavings": {}, "mode": {}, "senders": {}, "scripts_with_several_orders": 0,
          "line_events": 0, "yields_taken": 0, "rsp_code_objects_hooked": _MON.get("codes", 0)}
    disc, viol, samples, hashes, stuck_cases = {}, [], [], [], []
    orders = {}
    evals = 0
    for sidx, ys in todo:
        script = make_script(seed, sidx, avoid, mode="tcp" if tcp else None)
        level = [0.03, 0.1, 0.25][rng(seed, PROPERTY, "lvl%d/%d" % (sidx, ys)).randrange(3)]
        try:
            ev, info = run_history(seed, script, ys, level)
        except BaseException as e:  # noqa  harness trouble, not a verdict
            import traceback

            disc["harness_error"] = disc.get("harness_error", 0) + 1
            if disc["harness_error"] > 3:
                return {"inconclusive": ["history harness failed: " + traceback.format_exc()[-600:]]}
            continue
        ob["line_events"] += info["lines"]
        ob["yields_taken"] += info["yields"]
        v, st, reason, stuck = check_history(ev, script, info)
        case = {"script": script, "yield_seed": ys, "yield_level": level, "events": slim(ev),
                "note": "thread interleaving depends on the OS scheduler; the event log is the witness"}
        rspec = {"part": spec["part"], "only": [[sidx, ys]]}
        if stuck:
            stuck_cases.append({"summary": "history %d/%d: %s" % (sidx, ys, stuck[0]), "case": case,
                                "replay_spec": rspec})
        if reason:
            disc[reason] = disc.get(reason, 0) + 1
            continue
        evals += 1
        ob["checked"] += 1
        ob["mode"][script["mode"]] = ob["mode"].get(script["mode"], 0) + 1
        ns = str(len(script["senders"]))
        ob["senders"][ns] = ob["senders"].get(ns, 0) + 1
        oh = order_hash(ev)
        ob["interleavings"][oh] = ob["interleavings"].get(oh, 0) + 1
        orders.setdefault(sidx, set()).add(oh)
        for k, n in st.items():
            if k == "nontrivial":
                if n:
                    hashes.append(h([script, ys]))
                continue
            cur = ob
            parts = k.split(".")
            for p in parts[:-1]:
                cur = cur.setdefault(p, {})
            cur[parts[-1]] = cur.get(parts[-1], 0) + n
        if v and len(viol) < 4:
            viol.append({"summary": "history script %d yield seed %d (%s): %s" % (sidx, ys, script["mode"], v[0]),
                         "case": dict(case, all_findings=v[:10]), "replay_spec": rspec})
        elif (not v and len(samples) < 1 and st.get("notifications_good") and len(ev) < 70
              and (tcp or spec.get("lo") == 0)):
            samples.append({"script": script, "yield_seed": ys,
                            "event_order": ["%s %s %s" % (role(e["th"]), e["k"], e.get("pid") or e.get("data")
                                                          or e.get("payload") or e.get("uid")) for e in ev]})
    ob["scripts_with_several_orders"] = sum(1 for s in orders.values() if len(s) > 1)
    need = 1 if spec.get("only") else 2
    if len(stuck_cases) >= need:
        viol.extend(stuck_cases[:2])
    res = {"evaluations": evals, "nontrivial_hashes": hashes, "observed": {"history": ob}, "discarded": disc,
           "violations": viol, "samples": samples}
    if tcp and not spec.get("only"):
        fr = run_tcp_frames(spec)
        res["evaluations"] += fr["evaluations"]
        res["observed"]["framing"] = fr["observed"]
        res["violations"].extend(fr["violations"])
        for k, n in fr["discarded"].items():
            res["discarded"][k] = res["discarded"].get(k, 0) + n
    return res


# --------------------------------------------------------------------------
# framing through the real TCP transport (real chunk boundaries in recv_thread)


def run_tcp_frames(spec):
    import socket

    from ppci.binutils.dbg.gdb.rsp import RspHandler
    from ppci.binutils.dbg.gdb.transport import TCP

    avoid = spec["avoid"]
    r = rng(spec["seed"], PROPERTY, "tcpframes")
    ob = {"tcp_cases": 0, "tcp_chunks": 0}
    viol, disc, evals = [], {}, 0
    srv = socket.socket()
    srv.bind(("127.0.0.1", 0))
    srv.listen(1)
    tcp = TCP(srv.getsockname()[1])
    hd = RspHandler(tcp)
    got = []
    hd.on_message = got.append
    consumed = [0]
    cond = threading.Condition()
    inner = tcp.on_byte

    def on_byte(b):
        try:
            inner(b)
        finally:
            with cond:
                consumed[0] += len(b)
                cond.notify_all()

    tcp.on_byte = on_byte
    wrote = []
    real_send = tcp.send

    def send(data):
        wrote.append(bytes(data))
        real_send(data)

    tcp.send = send
    tcp.connect()
    conn, _ = srv.accept()
    conn.settimeout(5)
    try:
        for i in range(spec["frames"]):
            n = r.choice([1, 2, 3, 4, 4])
            p = "".join(r.choice(ALPHABET) for _ in range(n))
            if K_APOS in avoid and p.endswith("'"):
                continue
            content = not (K_UNESC in avoid and any(c in ESCAPED for c in p))
            good = r.random() < 0.7
            wire_s = RspHandler.rsp_pack(p) if good else corrupt(ref_frame(p), r.choice(["cs", "body", "nonhex"]))
            wire = wire_s.encode("latin-1")
            mask = r.randrange(1 << (len(wire) - 1))
            chunks = cut(wire, mask)
            del got[:]
            del wrote[:]
            base = consumed[0]
            sent, ok = 0, True
            for ch in chunks:
                conn.sendall(ch)
                sent += len(ch)
                with cond:
                    ok = cond.wait_for(lambda: consumed[0] >= base + sent, timeout=5)
                if not ok:
                    break
                ob["tcp_chunks"] += 1
            if not ok:
                disc["tcp_timeout"] = disc.get("tcp_timeout", 0) + 1
                break
            # every byte went through on_byte, which acknowledges synchronously: judge what was written
            ack = b"".join(wrote)
            try:
                if ack:
                    conn.recv(16)
            except OSError:
                pass
            evals += 1
            ob["tcp_cases"] += 1
            want_ack = b"+" if good else b"-"
            err = None
            if ack != want_ack:
                err = "all bytes were consumed by the transport, it wrote %r, expected %r" % (ack, want_ack)
            elif good and (len(got) != 1 or (content and got[0] != p)):
                err = "delivered %r, expected exactly [%r]" % (got, p)
            elif not good and got:
                err = "corrupted packet delivered %r" % (got,)
            if err:
                viol.append({"summary": "TCP transport: payload %r wire %r chunks %r: %s" % (p, wire_s, chunks, err),
                             "case": {"payload": p, "wire": wire_s, "chunks": [c.decode("latin-1") for c in chunks],
                                      "delivered": list(got), "ack": ack.decode("latin-1")}})
                break
    finally:
        try:
            tcp.disconnect()
        except BaseException:  # noqa
            pass
        conn.close()
        srv.close()
    return {"evaluations": evals, "observed": ob, "violations": viol, "discarded": disc}


def run_shard(spec):
    if spec["part"] == "frame":
        return run_frame(spec)
    return run_hist(spec)


# --------------------------------------------------------------------------
# witness probes of the known findings


class EchoTransport:
    """Answers the k-th write with answers[k] (bytes fed to on_byte from inside send, like the repo's TransportMock)."""

    def __init__(self, answers):
        self.answers = list(answers)
        self.w = []
        self.on_byte = None

    def send(self, data):
        self.w.append(bytes(data))
        if self.answers:
            for b in self.answers.pop(0):
                self.on_byte(ONE[b])


def probe_nack():
    from ppci.binutils.dbg.gdb.rsp import RspHandler

    quiet()
    tr = EchoTransport([b"-", b"+"])
    hd = RspHandler(tr)
    try:
        hd.sendpkt("x", retries=3)
    except BaseException as e:  # noqa
        return ("remote answers '-' to $x#78: packet written %d time(s), no retransmission, sendpkt raised %s "
                "(decoder() has no branch for '-', the nack never reaches the ack queue); the retransmission "
                "clause of C35 is not exercised while this is open" % (len(tr.w), type(e).__name__))
    if tr.w != [b"$x#78", b"$x#78"]:
        return "remote answers '-' then '+': wire shows %r" % (tr.w,)
    return None


def probe_unescape():
    from ppci.binutils.dbg.gdb.rsp import RspHandler

    quiet()
    tr = SinkTransport()
    hd = RspHandler(tr)
    got = []
    hd.on_message = got.append
    wire = RspHandler.rsp_pack("a#b")
    for b in wire.encode("latin-1"):
        tr.on_byte(ONE[b])
    if got != ["a#b"]:
        return "payload 'a#b' framed by rsp_pack as %r is delivered as %r (rsp_unpack keeps the '}' escapes)" % (
            wire, got)
    return None


def probe_stray():
    import queue

    from ppci.binutils.dbg.gdb.rsp import RspHandler

    quiet()
    tr = EchoTransport([])
    hd = RspHandler(tr)
    tr.on_byte(b"+")  # unsolicited acknowledgement while nothing is in flight
    try:
        hd.sendpkt("x")
    except queue.Empty:
        pass
    else:
        return ("a stray '+' received while idle is kept in the one-slot ack queue: the next sendpkt('x') returns "
                "although the remote never acknowledged $x#78")
    tr.on_byte(b"+")
    try:
        tr.on_byte(b"+")
    except queue.Full:
        return "two stray '+' while idle: the second raises queue.Full in the receiver thread after 0.5 s"
    return None


def probe_apostrophe():
    from ppci.binutils.dbg.gdb.rsp import RspHandler

    quiet()
    tr = SinkTransport()
    hd = RspHandler(tr)
    got = []
    hd.on_message = got.append
    for b in b"$'#27":
        tr.on_byte(ONE[b])
    if got != ["'"] or tr.w != [b"+"]:
        return ("packet $'#27 (payload is one apostrophe): delivered %r, wrote %r; the decoder does not see the "
                "end of a packet whose data ends in an apostrophe and swallows what follows" % (got, tr.w))
    return None


def probe_budget():
    from ppci.binutils.dbg.gdb.rsp import RspHandler

    quiet()
    box = {}

    class T(EchoTransport):
        def send(self, data):
            self.w.append(bytes(data))
            if len(self.w) == 1:
                self.on_byte(b"-")
                if box["hd"]._ack_queue.empty():
                    # masked by decoder-drops-nack: put the nack where a decoded '-' would go
                    box["hd"]._ack_queue.put("-")
            else:
                self.on_byte(b"+")

    tr = T([])
    hd = box["hd"] = RspHandler(tr)
    try:
        hd.sendpkt("x", retries=1)
    except ValueError as e:
        return ("sendpkt('x', retries=1): '-' then '+' on the retransmission, yet it raises ValueError(%s): the "
                "budget is tested after the acknowledgement was read" % e)
    return None


PROBES = {K_NACK: probe_nack, K_UNESC: probe_unescape, K_STRAY: probe_stray, K_APOS: probe_apostrophe,
          K_BUDGET: probe_budget}
