"""C24 IR -> Python backend executes IR semantics exactly (DESIGN C24).

The generated Python of ``ppci.api.ir_to_python`` is exec'd in a fresh
namespace and every function is called on the argument vectors; return value,
bytes of every global in ``rt.heap`` and the external-call trace are compared
with vlib.refinterp (ptr_size 4: the backend stores pointers as 32-bit).
"""
import io
import struct
import sys

from vlib.core import rng, h

PROPERTY = "C24"
RULE = ("vlib.irgen modules (all integer and float types, every operator, casts, phis, loops, memory-form CFGs, globals, "
        "calls incl. indirect, externals) compiled by ppci.api.ir_to_python, exec'd, every function called on 3 argument "
        "vectors; compared with vlib.refinterp: return value, global bytes, external-call trace; plus a directed "
        "operator/cast matrix on boundary operands; runs undefined under refinterp are discarded; non-trivial = defined "
        "run with >= 10 instructions and >= 1 branch, distinct by (module hash, function, vector)")
ASSUMPTIONS = ["vlib.refinterp implements IR semantics", "CPython executes the generated code faithfully"]
MANIFEST_ENTRY = {
    "text": "Differential execution of the real generated Python against the reference interpreter on generated modules "
            "and a boundary operand matrix.",
    "note": "Pointers never compared as numbers (only through what they designate); generated code is bounded by a "
            "line-event step budget (sys.monitoring) -> inconclusive for that case.",
    "technique": "runtime monitoring: reference IR interpreter vs executed ir_to_python output",
}


def plan(tier, seed, avoid):
    n, per = (640, 20) if tier == "quick" else (15000, 250)
    specs = [{"part": "gen", "start": s, "count": per} for s in range(0, n, per)]
    specs += [{"part": "matrix", "ty": t} for t in ("i8", "u8", "i16", "u16", "i32", "u32", "i64", "u64", "f32", "f64")]
    return specs


def floors(tier):
    return {"evaluations": 1500, "distinct_nontrivial": 300, "observed.matrix_ops": 10}


class Budget(Exception):
    pass


def run_python(code, fname, args, ext_decl, global_names, max_lines=400000):
    """exec generated code, call fname(args). -> dict(status, ret, globals, trace)"""
    ns = {}
    trace = []
    counter = [0]
    try:
        exec(compile(code, "<ir2py>", "exec"), ns)
    except Exception as e:
        return {"status": "exec-error", "reason": "%s: %s" % (type(e).__name__, e)}
    rt = ns["rt"]
    count = [0]

    def mk(name, ret):
        def ext(*a):
            count[0] += 1
            trace.append([name, list(a)])
            from vlib.refinterp import default_external
            return default_external(name, [x for x in a if isinstance(x, int)], count[0], ret)
        return ext
    for name, ret in ext_decl.items():
        rt.externals[name] = mk(name, ret)

    def tracer(frame, event, arg):
        if frame.f_code.co_filename != "<ir2py>":
            return None
        def local(frame, event, arg):
            counter[0] += 1
            if counter[0] > max_lines:
                raise Budget()
            return local
        return local
    old = sys.gettrace()
    sys.settrace(tracer)
    try:
        ret = ns[fname](*args)
        status = "ok"
        reason = None
    except Budget:
        status, ret, reason = "timeout", None, "line budget"
    except RecursionError:
        status, ret, reason = "timeout", None, "recursion"
    except Exception as e:
        status, ret, reason = "raised", None, "%s: %s" % (type(e).__name__, str(e)[:200])
    finally:
        sys.settrace(old)
    out = {"status": status, "ret": ret, "trace": trace, "reason": reason, "globals": {}}
    if status == "ok":
        for g, size in global_names.items():
            addr = ns[g] - rt.HEAP_START
            out["globals"][g] = bytes(rt.heap[addr:addr + size]).hex()
    return out


def norm_ret(v, ty):
    from ppci import ir
    from vlib.refinterp import fbits
    if v is None:
        return None
    if ty in (ir.f32, ir.f64):
        try:
            return fbits(float(v), 32 if ty is ir.f32 else 64)
        except (OverflowError, struct.error):
            return "unrepresentable float %r" % (v,)
    return v


def compare_case(module, fnames_args, mon, case, stop=True):
    from ppci import ir, api
    from vlib.refinterp import Interp
    from vlib import ircmp

    f = io.StringIO()
    try:
        api.ir_to_python([module], f)
    except Exception as e:
        import traceback
        mon["viol"].append({"summary": "ir_to_python raised %s: %s" % (type(e).__name__, str(e)[:150]),
                            "case": dict(case, traceback=traceback.format_exc()[-1200:])})
        return
    code = f.getvalue()
    ext_decl = {e.name: (e.return_ty if isinstance(e, ir.ExternalFunction) else None) for e in module.externals
                if isinstance(e, ir.ExternalSubRoutine)}
    gl = {v.name: v.amount for v in module.variables}
    it = Interp(module, ptr_size=4)
    mh = None
    for fname, vecs in fnames_args.items():
        fn = module.get_function(fname)
        rty = fn.return_ty if isinstance(fn, ir.Function) else None
        for k, vec in enumerate(vecs):
            ref = it.run(fname, vec, max_steps=60000)
            if ref.status != "ok":
                mon["disc"][ref.status + ":" + (ref.reason or "")[:28]] = mon["disc"].get(ref.status + ":" + (ref.reason or "")[:28], 0) + 1
                continue
            got = run_python(code, fname, vec, ext_decl, gl)
            if got["status"] == "timeout":
                mon["disc"]["python side: " + got["reason"]] = mon["disc"].get("python side: " + got["reason"], 0) + 1
                continue
            mon["evals"] += 1
            if ref.steps >= 10 and ref.branches >= 1:
                if mh is None:
                    mh = ircmp.structural_hash(module)
                mon["nontrivial"].add(h([mh, fname, vec]))
            want_ret = ref.retval
            want_gl = {}
            ok_gl = True
            for g, items in ref.globals.items():
                if all(isinstance(x, str) for x in items):
                    want_gl[g] = "".join(items)
                else:
                    ok_gl = False  # pointer stored in a global: representation specific, not compared
            diffs = []
            if got["status"] != "ok":
                diffs.append("generated python %s (%s); reference returns %r" % (got["status"], got["reason"], want_ret))
            else:
                if rty is not None and rty is not ir.ptr and norm_ret(got["ret"], rty) != want_ret:
                    diffs.append("return %r, reference %r" % (norm_ret(got["ret"], rty), want_ret))
                for g, hx in want_gl.items():
                    if got["globals"].get(g) != hx:
                        diffs.append("global %s = %s, reference %s" % (g, got["globals"].get(g), hx))
                ref_trace = [[n, a] for n, a in ref.trace]
                got_trace = [[n, [norm_ret(x, None) for x in a]] for n, a in got["trace"]]
                if ref_trace != got_trace:
                    diffs.append("external trace %r, reference %r" % (got_trace[:4], ref_trace[:4]))
            if diffs:
                if len(mon["viol"]) < 40:
                    from vlib.optmon import module_text
                    mon["viol"].append({"summary": "%s%r: %s" % (fname, tuple(vec), diffs[0][:250]),
                                        "case": dict(case, function=fname, args=vec, differences=diffs[:4],
                                                     ir=module_text(module)[:8000] if stop else None)})
                if stop:
                    return
                break
            elif len(mon["samples"]) < 2 and ref.steps > 30:
                mon["samples"].append({"case": case, "function": fname, "args": vec, "ret": want_ret, "steps": ref.steps})


def gen_cfg(r, avoid):
    cfg = {"ptr_size": 4, "shape": "mem" if r.random() < 0.25 else "ssa", "size": r.choice([6, 10, 14])}
    if "ir2py-blob-copy-unsupported" in avoid:
        cfg["blobs"] = False
    if "ir2py-float-to-int-rounds" in avoid:
        cfg["float_to_int"] = False
    if "ir2py-f32-not-rounded" in avoid:
        cfg["types"] = ["i8", "u8", "i16", "u16", "i32", "u32", "i64", "u64", "f64"]
    if "ir2py-float-division-by-zero-raises" in avoid:
        cfg["no_ops"] = ("/",) if False else ()
    return cfg


def run_shard(spec):
    from vlib import irgen
    mon = {"evals": 0, "nontrivial": set(), "viol": [], "disc": {}, "samples": [], "tags": {}, "matrix_ops": {}}
    avoid = spec["avoid"]
    if spec["part"] == "gen":
        for idx in range(spec["start"], spec["start"] + spec["count"]):
            r = rng(spec["seed"], PROPERTY, idx)
            cfg = gen_cfg(r, avoid)
            m, info = irgen.gen_module(r, cfg)
            for t in info["tags"]:
                mon["tags"][t] = mon["tags"].get(t, 0) + 1
            argv = {fn: irgen.gen_args(r, m, fn, 3) for fn in info["functions"]}
            compare_case(m, argv, mon, {"id": "irgen/%s/%d" % (spec["seed"], idx), "index": idx})
    else:
        matrix(spec, mon, avoid)
    return {"evaluations": mon["evals"], "nontrivial_hashes": sorted(mon["nontrivial"]),
            "observed": {"tags": mon["tags"], "matrix_ops": mon["matrix_ops"]}, "discarded": mon["disc"],
            "violations": mon["viol"][:40], "samples": mon["samples"]}


def matrix(spec, mon, avoid):
    """Directed: every operator / cast on boundary operands, one function per op,
    operands passed as parameters (so nothing is folded)."""
    from ppci import ir
    from vlib.irgen import boundary_int
    ty = ir.get_ty(spec["ty"])
    r = rng(spec["seed"], PROPERTY, "matrix" + spec["ty"])
    isf = not ty.is_integer
    if isf and spec["ty"] == "f32" and "ir2py-f32-not-rounded" in avoid:
        return
    ops = ["+", "-", "*", "/"] if isf else ["+", "-", "*", "/", "%", "&", "|", "^", "<<", ">>"]
    m = ir.Module("matrix")
    argv = {}
    fvals = [0.0, -0.0, 1.0, -1.0, 0.5, 2.5, -2.5, 3.75, 1e10, -1e10, 1e-10, 16777217.0, 0.1, 255.9, -128.9, 65535.5]

    def vals():
        if isf:
            v = r.choice(fvals)
            return struct.unpack("<f", struct.pack("<f", v))[0] if ty.bits == 32 else v
        return boundary_int(r, ty)
    for op in ops:
        f = ir.Function("op_%d" % len(argv), ir.Binding.GLOBAL, ty)
        m.add_function(f)
        a, b = ir.Parameter("a", ty), ir.Parameter("b", ty)
        f.add_parameter(a)
        f.add_parameter(b)
        blk = ir.Block("e")
        f.add_block(blk)
        f.entry = blk
        t = ir.Binop(a, op, b, "t", ty)
        blk.add_instruction(t)
        blk.add_instruction(ir.Return(t))
        vecs = []
        for _ in range(60):
            x, y = vals(), vals()
            if op in ("/", "%") and not isf and (y == 0 or (ty.signed and y == -1)):
                y = 3
            if op == "/" and isf and y == 0.0:
                y = 2.0  # float division by zero is outside the defined semantics
            if op in ("<<", ">>"):
                y = r.randrange(ty.bits)
            vecs.append([x, y])
        argv[f.name] = vecs
        mon["matrix_ops"][op] = mon["matrix_ops"].get(op, 0) + len(vecs)
    if not isf:
        for op in "-~":
            f = ir.Function("op_%d" % len(argv), ir.Binding.GLOBAL, ty)
            m.add_function(f)
            a = ir.Parameter("a", ty)
            f.add_parameter(a)
            blk = ir.Block("e")
            f.add_block(blk)
            f.entry = blk
            t = ir.Unop(op, a, "t", ty)
            blk.add_instruction(t)
            blk.add_instruction(ir.Return(t))
            argv[f.name] = [[vals()] for _ in range(30)]
            mon["matrix_ops"]["u" + op] = mon["matrix_ops"].get("u" + op, 0) + 30
    # casts from this type to every other
    for dn in ("i8", "u8", "i16", "u16", "i32", "u32", "i64", "u64", "f32", "f64"):
        dty = ir.get_ty(dn)
        if dn == "f32" and "ir2py-f32-not-rounded" in avoid:
            continue
        if isf and dty.is_integer and "ir2py-float-to-int-rounds" in avoid:
            continue
        f = ir.Function("cast_%s" % dn, ir.Binding.GLOBAL, dty)
        m.add_function(f)
        a = ir.Parameter("a", ty)
        f.add_parameter(a)
        blk = ir.Block("e")
        f.add_block(blk)
        f.entry = blk
        t = ir.Cast(a, "t", dty)
        blk.add_instruction(t)
        blk.add_instruction(ir.Return(t))
        vecs = []
        for _ in range(40):
            v = vals()
            if isf and dty.is_integer:
                lo = -(1 << (dty.bits - 1)) if dty.signed else 0
                hi = (1 << (dty.bits - 1)) - 1 if dty.signed else (1 << dty.bits) - 1
                if not (lo <= int(v) <= hi):
                    v = r.choice([0.5, 1.5, 2.5, 3.7, 100.99, 0.999])
                    if dty.signed and r.random() < 0.5:
                        v = -v
            vecs.append([v])
        argv[f.name] = vecs
        mon["matrix_ops"]["cast"] = mon["matrix_ops"].get("cast", 0) + len(vecs)
    compare_case(m, argv, mon, {"id": "matrix/" + spec["ty"]}, stop=False)


# ---- regression probes for repaired defects ---------------------------------

def _run_probe(build):
    def run():
        mon = {"evals": 0, "nontrivial": set(), "viol": [], "disc": {}, "samples": [], "tags": {}, "matrix_ops": {}}
        m, argv = build()
        compare_case(m, argv, mon, {"id": "probe"}, stop=False)
        if mon["viol"]:
            return mon["viol"][0]["summary"]
        if not mon["evals"]:
            return "probe made no comparison (%r)" % (mon["disc"],)
        return None
    return run


def _f(m, name, ret, ptys):
    from ppci import ir
    f = ir.Function(name, ir.Binding.GLOBAL, ret)
    m.add_function(f)
    ps = []
    for i, t in enumerate(ptys):
        p = ir.Parameter("p%d" % i, t)
        f.add_parameter(p)
        ps.append(p)
    b = ir.Block(name + "_b0")
    f.add_block(b)
    f.entry = b
    return f, ps, b


def _b_cast():
    from ppci import ir
    m = ir.Module("p")
    f, (x,), b = _f(m, "f", ir.i32, [ir.f64])
    c = ir.Cast(x, "c", ir.i32); b.add_instruction(c); b.add_instruction(ir.Return(c))
    return m, {"f": [[2.7], [-2.7], [0.5], [1.5]]}


def _b_two_returns():
    from ppci import ir
    m = ir.Module("p")
    f, (x,), b = _f(m, "f", ir.i32, [ir.i32])
    b1 = ir.Block("b1"); f.add_block(b1); b2 = ir.Block("b2"); f.add_block(b2)
    z = ir.Const(0, "z", ir.i32); b.add_instruction(z)
    b.add_instruction(ir.CJump(x, "==", z, b1, b2))
    b1.add_instruction(ir.Return(z))
    a = ir.Alloc("a", 4, 4); b2.add_instruction(a)
    p = ir.AddressOf(a, "p"); b2.add_instruction(p)
    b2.add_instruction(ir.Store(x, p))
    v = ir.Load(p, "v", ir.i32); b2.add_instruction(v); b2.add_instruction(ir.Return(v))
    g, (y,), gb = _f(m, "g", ir.i32, [ir.i32])
    r1 = ir.FunctionCall(f, [z2 := ir.Const(0, "z2", ir.i32)], "r1", ir.i32)
    gb.add_instruction(z2); gb.add_instruction(r1)
    r2 = ir.FunctionCall(f, [y], "r2", ir.i32); gb.add_instruction(r2)
    gb.add_instruction(ir.Return(r2))
    return m, {"f": [[0], [5]], "g": [[7], [0]]}


def _b_blob():
    from ppci import ir
    m = ir.Module("p")
    f, (x,), b = _f(m, "f", ir.i32, [ir.i32])
    a1 = ir.Alloc("a1", 8, 4); b.add_instruction(a1); p1 = ir.AddressOf(a1, "p1"); b.add_instruction(p1)
    a2 = ir.Alloc("a2", 8, 4); b.add_instruction(a2); p2 = ir.AddressOf(a2, "p2"); b.add_instruction(p2)
    a3 = ir.Alloc("a3", 8, 4); b.add_instruction(a3); p3 = ir.AddressOf(a3, "p3"); b.add_instruction(p3)
    four = ir.Const(4, "four", ir.ptr); b.add_instruction(four)
    q1 = ir.Binop(p1, "+", four, "q1", ir.ptr); b.add_instruction(q1)
    b.add_instruction(ir.Store(x, p1)); b.add_instruction(ir.Store(x, q1))
    b.add_instruction(ir.CopyBlob(p2, p1, 8))
    b.add_instruction(ir.Store(a2, p3))
    q3 = ir.Binop(p3, "+", four, "q3", ir.ptr); b.add_instruction(q3)
    v = ir.Load(q3, "v", ir.i32); b.add_instruction(v); b.add_instruction(ir.Return(v))
    return m, {"f": [[5], [-9]]}


def _b_phi():
    from ppci import ir
    m = ir.Module("p")
    f, (n,), b = _f(m, "f", ir.i32, [ir.i32])
    head = ir.Block("head"); f.add_block(head); ex = ir.Block("ex"); f.add_block(ex)
    z = ir.Const(0, "z", ir.i32); b.add_instruction(z); one = ir.Const(1, "one", ir.i32); b.add_instruction(one)
    b.add_instruction(ir.Jump(head))
    i = ir.Phi("i", ir.i32); head.add_instruction(i)
    i2 = ir.Binop(i, "+", one, "i2", ir.i32); head.add_instruction(i2)
    i.set_incoming(b, z); i.set_incoming(head, i2)
    head.add_instruction(ir.CJump(i2, "<", n, head, ex))
    ex.add_instruction(ir.Return(i))      # value of the phi in the last iteration, not i2
    return m, {"f": [[1], [4], [0]]}


def _b_f32():
    from ppci import ir
    m = ir.Module("p")
    f, (x, y), b = _f(m, "f", ir.f64, [ir.f32, ir.f32])
    t = ir.Binop(x, "*", y, "t", ir.f32); b.add_instruction(t)
    u = ir.Binop(t, "+", y, "u", ir.f32); b.add_instruction(u)
    c = ir.Cast(u, "c", ir.f64); b.add_instruction(c); b.add_instruction(ir.Return(c))
    th = struct.unpack("<f", struct.pack("<f", 0.1))[0]
    return m, {"f": [[th, th], [16777216.0, th], [th, 3.0]]}


def _b_nan():
    from ppci import ir
    m = ir.Module("p")
    f, (x,), b = _f(m, "f", ir.i32, [ir.f64])
    nan = ir.Const(float("nan"), "nan", ir.f64); b.add_instruction(nan)
    b1 = ir.Block("b1"); f.add_block(b1); b2 = ir.Block("b2"); f.add_block(b2)
    b.add_instruction(ir.CJump(x, "<", nan, b1, b2))
    o = ir.Const(1, "o", ir.i32); b1.add_instruction(o); b1.add_instruction(ir.Return(o))
    t = ir.Const(2, "t", ir.i32); b2.add_instruction(t); b2.add_instruction(ir.Return(t))
    return m, {"f": [[1.0], [0.0]]}


PROBES = {
    "ir2py-float-to-int-rounds": _run_probe(_b_cast),
    "ir2py-static-stack-free": _run_probe(_b_two_returns),
    "ir2py-blob-copy-unsupported": _run_probe(_b_blob),
    "ir2py-phis-of-both-targets-assigned": _run_probe(_b_phi),
    "ir2py-f32-not-rounded": _run_probe(_b_f32),
    "ir2py-nan-constant-nameerror": _run_probe(_b_nan),
}
