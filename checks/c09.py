"""C09 assembling an instruction's printed form reproduces its encoding (DESIGN 4, C09).

R  ``ppci.api.asm(str(instr))`` fails to parse, or yields other section bytes or another
   relocation list than ``instr.encode()`` / ``instr.relocations()``.
O  the direct encoding of the instance (self-consistency; independence comes from C08).
W  ``vlib.isaenum`` over all 14 ISAs with syntax, label operands included.  The text is
   printed BEFORE the instance is encoded (some ``encode`` methods rewrite operands) and the
   direct side uses a second, fresh object of the same assignment.
H  ``ppci.api.asm`` on a one-line source; sections' bytes and ``obj.relocations``; a tap on
   ``BinaryOutputStream.do_emit`` records which class the assembler built (diagnosis only).

Outside the quantifier (listed in the evidence, not judged): pseudo-instructions whose
``encode`` raises "Cannot encode virtual ..." (VirtualInstruction subclasses: ``li``, ``la``,
``.align``, ``.section``, x86 ``push xmm`` ...), operand combinations the class itself
refuses to build or encode (range errors are C10's subject).

Second dial (separate counters, also judged): mnemonics of the ISA used as label names - the
assembler has an explicit rule that lets keywords be identifiers.  Register names are NOT used
as labels: reading ``jmp rdx`` as a jump to register rdx is what an assembler must do.
"""
import contextlib
import io

from vlib.core import rng, h

PROPERTY = "C09"
RULE = ("every instruction class with a syntax of every ppci ISA (arm, thumb, riscv, rvc, x86_64, msp430, avr, "
        "m68k, mips, or1k, xtensa, microblaze, stm8, mcs6500) is instantiated N times by vlib.isaenum (slot "
        "cyclers: every register of each register operand, the boundary values of each integer operand's "
        "bit-field, every constructor alternative, label names); an instance counts when it builds, prints and "
        "encodes; evaluation = asm(printed text) compared with encode()+relocations(); non-trivial = has at "
        "least one operand; distinct by hash of (isa, class, printed text)")
ASSUMPTIONS = ["the direct encoding is taken as the reference (its own correctness is C08's subject)",
               "PYTHONHASHSEED=0 in workers: the Earley parser's choice between equal-priority derivations "
               "depends on set iteration order"]
MANIFEST_ENTRY = {
    "text": "For every instruction class of all 14 instruction sets, instances over all registers, bit-field "
            "boundary immediates, constructor alternatives and labels are printed, re-assembled with "
            "ppci.api.asm and must give exactly the bytes and relocations of the direct encoding.",
    "note": "Pseudo-instructions without direct encoding are listed, not judged. Constructs of the open "
            "findings (glued syntax elements, arm push/pop, copy-paste mnemonics, ambiguous x86/msp430/rvc "
            "syntaxes) are not generated in the deciding sweep; each has a witness probe.",
    "technique": "runtime monitoring: direct-encoding oracle over an enumerated ISA workload (print -> assemble "
                 "round trip)",
}

SHARD_TIMEOUT = {"quick": 1500, "thorough": 4 * 3600}

# slices per ISA (cost-balanced: stm8 has 338 classes, x86_64 174)
SLICES = {"arm": 2, "arm:thumb": 2, "riscv": 2, "riscv:rvc": 3, "x86_64": 6, "msp430": 2, "avr": 2, "m68k": 2,
          "mips": 1, "or1k": 2, "xtensa": 2, "microblaze": 3, "stm8": 10, "mcs6500": 2}
PER_CLASS = {"quick": 90, "thorough": 1200}
PER_CLASS_KW = {"quick": 12, "thorough": 150}


def EXHAUSTIVE(tier):
    return False


def plan(tier, seed, avoid):
    specs = []
    for arch, k in SLICES.items():
        for s in range(k):
            specs.append({"arch": arch, "slice": s, "of": k, "n": PER_CLASS[tier], "labels": "neutral"})
    for arch in SLICES:
        specs.append({"arch": arch, "slice": 0, "of": 1, "n": PER_CLASS_KW[tier], "labels": "keywords"})
    return specs


def floors(tier):
    f = {"evaluations": 25000, "distinct_nontrivial": 15000, "observed.isas": 14,
         "observed.keyword_labels.evaluations": 800, "observed.with_relocation": 1500}
    for arch in SLICES:
        f["observed.per_isa.%s.classes_judged" % arch] = 25
        f["observed.per_isa.%s.evaluations" % arch] = 300
    return f


# ---------------------------------------------------------------------------
# avoid switches of the open findings: structural predicates over (isa, class, instance)


def _glued(stx):
    """An identifier literal immediately followed by a (non-alternative) operand: renders as one word."""
    from ppci.arch.encoding import Operand

    s = stx.syntax
    for a, b in zip(s, s[1:]):
        if isinstance(a, str) and a.isidentifier() and isinstance(b, Operand) and not isinstance(b._cls, tuple):
            return True
    return False


def alt_names(obj, out=None):
    """Names of the constructor alternatives chosen anywhere inside an instance."""
    from vlib import isaenum

    out = [] if out is None else out
    if getattr(obj, "syntax", None):
        for op in obj.syntax.formal_arguments:
            if isaenum.operand_kind(op) == "alt":
                v = op.__get__(obj)
                out.append(type(v).__name__)
                alt_names(v, out)
    return out


def any_glued(obj):
    from vlib import isaenum

    if _glued(obj.syntax):
        return True
    for op in obj.syntax.formal_arguments:
        if isaenum.operand_kind(op) == "alt" and any_glued(op.__get__(obj)):
            return True
    return False


X86_MEM_ALTS = {"RmMem", "RmMemDisp", "RmMemDisp2", "RmRip", "RmAbsLabel", "RmAbs"}
# classes whose memory-operand form does not spell the operand size: the 8/16/32/64-bit siblings print alike
X86_SIZELESS = {"Shr", "Shl", "Sar", "Not", "Neg", "ShrCl", "ShlCl", "SarCl", "RolCl8", "RorCl8", "ShlCl8",
                "ShrCl8", "SarCl8", "MovsxReg64Rm8", "MovsxReg64Rm16", "MovsxReg32Rm8", "MovsxReg32Rm16",
                "Cvtsi2ss", "Cvtsi2ss_32", "Cvtsi2sd", "Cvtsi2sd_32"}
# `op reg, reg` is derivable from the `op rm, reg` and the `op reg, rm` class: two byte strings, one meaning
X86_TWIN_MNEMONICS = {"add", "or", "and", "sub", "xor", "mov", "cmp", "adc", "sbb", "test", "movss", "movsd"}
X86_REG_ALTS = {"RmReg64", "RmReg32", "RmReg16", "RmReg8", "RmXmmReg", "RmXmmRegSingle"}
MB_DUP = {"idiv", "pcmpeq", "sra", "wic", "rtsd"}


def av_glued(arch, ci, inst):
    return any_glued(inst.obj)


def av_arm_reglist(arch, ci, inst):
    return arch == "arm" and ci.cls.__name__ in ("Push", "Pop")


def av_riscv_ble(arch, ci, inst):
    return arch in ("riscv", "riscv:rvc") and ci.mnemonic == "bge"


def av_thumb_asr(arch, ci, inst):
    return arch == "arm:thumb" and ci.mnemonic == "lsr" and ci.cls.__name__ == "lsr_ins"


def av_avr_subi(arch, ci, inst):
    return arch == "avr" and ci.mnemonic == "sbci"


def av_xtensa_callx0(arch, ci, inst):
    return arch == "xtensa" and ci.mnemonic == "call0"


def av_microblaze_dup(arch, ci, inst):
    return arch == "microblaze" and ci.mnemonic in MB_DUP


def av_x86_sizeless(arch, ci, inst):
    return (arch == "x86_64" and ci.cls.__name__ in X86_SIZELESS
            and bool(set(alt_names(inst.obj)) & X86_MEM_ALTS))


def av_redundant(arch, ci, inst):
    if arch == "x86_64":
        return ci.mnemonic in X86_TWIN_MNEMONICS and bool(set(alt_names(inst.obj)) & X86_REG_ALTS)
    if arch == "msp430":
        return "SmallConstSrc" in alt_names(inst.obj)
    return False


def av_x86_jmp_reg(arch, ci, inst):
    return arch == "x86_64" and ci.cls.__name__ == "Jmp" and "RmReg64" in alt_names(inst.obj)


def av_rvc_relax(arch, ci, inst):
    return arch == "riscv:rvc" and ci.cls.__name__ in ("CB", "CBl", "B", "Bl")


AVOID = {
    "syntax-elements-glued": av_glued,
    "arm-reglist-printed-without-braces": av_arm_reglist,
    "riscv-ble-prints-bge": av_riscv_ble,
    "thumb-asr-prints-lsr": av_thumb_asr,
    "avr-subi-prints-sbci": av_avr_subi,
    "xtensa-callx0-prints-call0": av_xtensa_callx0,
    "microblaze-sibling-mnemonics": av_microblaze_dup,
    "x86-operand-size-not-printed": av_x86_sizeless,
    "redundant-encoding-not-reproduced": av_redundant,
    "x86-register-operand-parsed-as-label": av_x86_jmp_reg,
    "rvc-relaxable-jump-shares-syntax": av_rvc_relax,
}


# ---------------------------------------------------------------------------
# observation


class Tap:
    """Records what the assembler emitted (class names); diagnosis only."""

    def __init__(self):
        from ppci.binutils.outstream import BinaryOutputStream

        self.items = []
        orig = BinaryOutputStream.do_emit
        tap = self

        def do_emit(stream, item):
            tap.items.append(type(item).__name__)
            return orig(stream, item)

        BinaryOutputStream.do_emit = do_emit


def direct_observation(obj):
    data = obj.encode()
    rel = sorted((r.name, r.symbol_name, r.offset, r.addend) for r in obj.relocations())
    return {"sections": [["code", bytes(data).hex()]] if data or rel else [], "relocs": [list(x) for x in rel]}


def asm_observation(text, arch):
    from ppci.api import asm

    sink = io.StringIO()
    with contextlib.redirect_stdout(sink), contextlib.redirect_stderr(sink):
        obj = asm(io.StringIO(text), arch)
    secs = [[s.name, bytes(s.data).hex()] for s in obj.sections if s.data or s.name != "code"]
    rel = sorted((r.reloc_type, obj.symbols_by_id[r.symbol_id].name, r.offset, r.addend) for r in obj.relocations)
    if not secs and rel:
        secs = [["code", ""]]
    return {"sections": secs, "relocs": [list(x) for x in rel]}


def judge(archname, arch, ci, inst, tap):
    """Returns (verdict, detail): 'skip-*', 'ok', or 'violation'."""
    from vlib import isaenum

    if inst.error:
        return "skip-construct-rejected", None
    if isaenum.is_virtual(inst.obj):
        return "skip-virtual", None
    try:
        with contextlib.redirect_stdout(io.StringIO()):
            d = direct_observation(inst.fresh())
    except BaseException as e:  # the class refuses this operand combination (C10 judges ranges)
        return "skip-encode-rejected", "%s: %s" % (type(e).__name__, str(e)[:80])
    del tap.items[:]
    try:
        a = asm_observation(inst.text, arch)
    except BaseException as e:
        cause = e.__cause__
        return "violation", {"kind": "does-not-assemble", "direct": d,
                             "error": "%s: %s" % (type(e).__name__, str(e)[:160]),
                             "cause": ("%s: %s" % (type(cause).__name__, str(cause)[:160])) if cause else None}
    if a != d:
        kind = "relocations-differ" if a["sections"] == d["sections"] else "bytes-differ"
        return "violation", {"kind": kind, "direct": d, "assembled": a, "assembler_built": tap.items[1:]}
    return "ok", d


def run_shard(spec):
    from vlib import isaenum

    if "cases" in spec:
        return replay(spec)
    archname = spec["arch"]
    arch = isaenum.get_arch(archname)
    tap = Tap()
    kw = spec["labels"] == "keywords"
    r = rng(spec["seed"], PROPERTY, "%s/%s/%s/%s" % (archname, spec["slice"], spec["of"], spec["labels"]))
    en = isaenum.Enumerator(archname, r, labels="mnemonics" if kw else "neutral")
    avoid = [k for k in spec["avoid"] if k in AVOID]
    cls_list = [ci for i, ci in enumerate(isaenum.classes(archname)) if i % spec["of"] == spec["slice"]]
    if kw:
        cls_list = [ci for ci in cls_list if has_label_operand(ci.cls)]
    evals = 0
    hashes = set()
    violations = []
    samples = []
    discarded = {}
    per = {"classes": len(cls_list), "classes_judged": 0, "instances": 0, "evaluations": 0, "repeats": 0,
           "parse_failures": {}}
    virtual = {}
    avoided = {}
    with_reloc = 0
    alts_seen = {}
    viol_classes = {}
    for ci in cls_list:
        judged = 0
        n = instances_for(en, ci, spec["n"])
        seen_text = set()
        for inst in isaenum.instances(en, ci, n):
            per["instances"] += 1
            if inst.text is not None:
                if inst.text in seen_text:  # same class, same text: same observation
                    per["repeats"] += 1
                    continue
                seen_text.add(inst.text)
            if inst.error is None and not isaenum.is_virtual(inst.obj):
                hit = None
                for key in avoid:
                    try:
                        if AVOID[key](archname, ci, inst):
                            hit = key
                            break
                    except Exception:
                        pass
                if hit:
                    avoided[hit] = avoided.get(hit, 0) + 1
                    continue
            verdict, detail = judge(archname, arch, ci, inst, tap)
            if verdict == "skip-virtual":
                virtual[ci.key] = virtual.get(ci.key, 0) + 1
                continue
            if verdict.startswith("skip-"):
                discarded[verdict[5:]] = discarded.get(verdict[5:], 0) + 1
                continue
            evals += 1
            judged += 1
            if inst.obj.syntax.formal_arguments:
                hashes.add(h([archname, ci.key, inst.text]))
            for an in alt_names(inst.obj):
                alts_seen[an] = alts_seen.get(an, 0) + 1
            if verdict == "ok":
                if detail["relocs"]:
                    with_reloc += 1
                if len(samples) < 2 and len(inst.text) > 12 and r.random() < 0.02:
                    samples.append({"isa": archname, "class": ci.key, "text": inst.text, "direct": detail})
                continue
            vc = viol_classes.get(ci.key, 0)
            viol_classes[ci.key] = vc + 1
            if detail["kind"] == "does-not-assemble":
                per["parse_failures"][ci.key] = per["parse_failures"].get(ci.key, 0) + 1
            if vc < 2 and len(violations) < 12:
                summ = "%s %s: `%s` %s" % (archname, ci.key, inst.text, detail["kind"])
                if detail["kind"] != "does-not-assemble":
                    summ += " direct=%s assembled=%s built=%s" % (
                        detail["direct"], detail["assembled"], detail["assembler_built"])
                else:
                    summ += " (%s)" % (detail.get("cause") or detail["error"])
                case = inst.describe()
                case.update(detail)
                case["labels"] = spec["labels"]
                violations.append({"summary": summ, "case": case,
                                   "replay_spec": {"cases": [[archname, ci.key, inst.assignment]],
                                                   "labels": spec["labels"]}})
        if judged:
            per["classes_judged"] += 1
    per["evaluations"] = evals
    observed = {"virtual_listed_not_judged": {archname: virtual}, "avoided_by_open_finding": avoided,
                "alternatives": {archname: alts_seen}}
    if kw:
        observed["keyword_labels"] = {"evaluations": evals, "per_isa": {archname: evals}}
    else:
        observed["per_isa"] = {archname: per}
        observed["isas"] = {archname: 1}
        observed["with_relocation"] = with_reloc
    return {"evaluations": evals, "nontrivial_hashes": sorted(hashes), "observed": observed,
            "discarded": discarded, "samples": samples, "violations": violations}


def instances_for(en, ci, n):
    """Instances drawn for one class: 1 if it has no operands, else enough to walk every slot's values."""
    if not ci.cls.syntax.formal_arguments:
        return 1
    card = en.slot_cardinality(ci)
    return max(6, min(n, (4 if n <= 200 else 40) * card))     # thorough: 40 passes over the largest slot


def has_label_operand(cls):
    from vlib import isaenum

    for op in cls.syntax.formal_arguments:
        k = isaenum.operand_kind(op)
        if k == "str":
            return True
        if k == "alt" and any(has_label_operand(a) for a in op._cls if getattr(a, "syntax", None)):
            return True
    return False


def replay(spec):
    from vlib import isaenum

    tap = Tap()
    out = {"evaluations": 0, "violations": []}
    for archname, key, assignment in spec["cases"]:
        arch = isaenum.get_arch(archname)
        ci = isaenum.class_by_key(archname, key)
        inst = isaenum.Instance(ci, assignment, [])
        verdict, detail = judge(archname, arch, ci, inst, tap)
        out["evaluations"] += 1
        if verdict == "violation":
            case = inst.describe()
            case.update(detail)
            out["violations"].append({"summary": "%s %s: `%s` %s" % (archname, key, inst.text, detail["kind"]),
                                      "case": case})
    return out


# ---------------------------------------------------------------------------
# witness probes of the open findings


def _rt(archname, obj_fn):
    from vlib import isaenum

    arch = isaenum.get_arch(archname)
    obj = obj_fn(arch)
    text = str(obj)
    d = direct_observation(obj_fn(arch))
    try:
        a = asm_observation(text, arch)
    except BaseException as e:
        return "%s: `%s` does not assemble (%s)" % (archname, text, type(e).__name__)
    if a != d:
        return "%s: `%s` assembles to %s, direct encoding is %s" % (archname, text, _short(a), _short(d))
    return None


def _cls(arch, name, pred=None):
    for c in arch.isa.instructions:
        if c.__name__ == name and (pred is None or pred(c)):
            return c
    raise KeyError(name)


def probe_glued():
    from ppci.arch.arm.registers import R1, R2, R3

    return _rt("arm", lambda a: _cls(a, "Sdiv")(R1, R2, R3))


def probe_arm_reglist():
    from ppci.arch.arm.registers import R4, R5, RegisterSet

    return _rt("arm", lambda a: _cls(a, "Push")(RegisterSet([R4, R5])))


def _short(o):
    return "+".join(x[1] for x in o["sections"]) + ("".join(" %s(%s)" % (r[0], r[1]) for r in o["relocs"]))


def _twins(archname, fn_a, fn_b):
    """Two different instances print the same text but encode differently: at most one can round-trip."""
    from vlib import isaenum

    arch = isaenum.get_arch(archname)
    a, b = fn_a(arch), fn_b(arch)
    ta, tb = str(a), str(b)
    da, db = direct_observation(fn_a(arch)), direct_observation(fn_b(arch))
    if ta == tb and da != db:
        try:
            got = asm_observation(ta, arch)
        except BaseException as e:
            got = "no parse (%s)" % type(e).__name__
        return "%s: two instances print `%s` but encode as %s and %s; asm gives %s" % (
            archname, ta, _short(da), _short(db), got if isinstance(got, str) else _short(got))
    return None


def probe_riscv_ble():
    from ppci.arch.riscv.registers import R5, R6
    from ppci.arch.riscv.instructions import Ble, Bge

    return _twins("riscv", lambda a: Ble(R5, R6, "lab1"), lambda a: Bge(R5, R6, "lab1"))


def probe_thumb_asr():
    from ppci.arch.arm.thumb_instructions import Asr, Lsr
    from ppci.arch.arm.registers import R1, R2

    return _twins("arm:thumb", lambda a: Asr(R1, R2), lambda a: Lsr(R1, R2))


def probe_avr_subi():
    from ppci.arch.avr.instructions import Subi, Sbci
    from ppci.arch.avr.registers import r17

    return _twins("avr", lambda a: Subi(r17, 5), lambda a: Sbci(r17, 5))


def probe_xtensa_callx0():
    from ppci.arch.xtensa.instructions import Callx0, Call0
    from ppci.arch.xtensa.registers import a3

    return _twins("xtensa", lambda a: Callx0(a3), lambda a: Call0("a3"))


def probe_microblaze_dup():
    from ppci.arch.microblaze import instructions as mi
    from ppci.arch.microblaze.registers import R3, R4, R5

    for na, nb, args in (("Idivu", "Idiv", (R3, R4, R5)), ("Pcmpne", "Pcmpeq", (R3, R4, R5)),
                         ("Srl", "Sra", (R3, R4)), ("Src", "Sra", (R3, R4)), ("Wdc", "Wic", (R3, R4)),
                         ("Rtid", "Rtsd", (R3, 8))):
        what = _twins("microblaze", lambda a, n=na: getattr(mi, n)(*args), lambda a, n=nb: getattr(mi, n)(*args))
        if what:
            return what
    return None


def probe_x86_sizeless():
    from ppci.arch.x86_64 import instructions as xi
    from ppci.arch.x86_64.registers import rbx

    shr = [c for c in xi.isa.instructions if c.__name__ == "Shr"]  # 16, 32 and 64 bit `shr rm`
    for ca in shr:
        for cb in shr:
            if ca is not cb:
                what = _twins("x86_64", lambda a: ca(xi.RmMem(rbx)), lambda a: cb(xi.RmMem(rbx)))
                if what:
                    return what
    return None


def probe_redundant():
    from ppci.arch.msp430 import instructions as mi
    from ppci.arch.msp430.registers import r7

    movw = [c for c in mi.isa.instructions if c.__name__ == "Movw"][0]
    return _twins("msp430", lambda a: movw(mi.small_const_src(1), mi.RegDst(r7)),
                  lambda a: movw(mi.ConstSrc(1), mi.RegDst(r7)))


def probe_x86_jmp_reg():
    from ppci.arch.x86_64 import instructions as xi
    from ppci.arch.x86_64.registers import rdx

    return _rt("x86_64", lambda a: xi.Jmp(xi.RmReg64(rdx)))


def probe_rvc_relax():
    from ppci.arch.riscv.rvc_instructions import CB
    from ppci.arch.riscv.instructions import B

    return _twins("riscv:rvc", lambda a: CB("lab1"), lambda a: B("lab1"))


PROBES = {
    "syntax-elements-glued": probe_glued,
    "arm-reglist-printed-without-braces": probe_arm_reglist,
    "riscv-ble-prints-bge": probe_riscv_ble,
    "thumb-asr-prints-lsr": probe_thumb_asr,
    "avr-subi-prints-sbci": probe_avr_subi,
    "xtensa-callx0-prints-call0": probe_xtensa_callx0,
    "microblaze-sibling-mnemonics": probe_microblaze_dup,
    "x86-operand-size-not-printed": probe_x86_sizeless,
    "redundant-encoding-not-reproduced": probe_redundant,
    "x86-register-operand-parsed-as-label": probe_x86_jmp_reg,
    "rvc-relaxable-jump-shares-syntax": probe_rvc_relax,
}
