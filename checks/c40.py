"""C40 x86-64 code interoperates with the System V ABI (DESIGN C40).

For every generated signature ``T f(P0, ..., Pn-1)`` (0..12 parameters from
char/short/int/long/pointer/float/double and their unsigned variants, every
return type incl. void) ppci compiles three functions and gcc compiles the
other side; everything is linked by ``gcc -no-pie driver.c shim.s obj.o`` where
obj.o is the relocatable ELF written by ``ppci.api.objcopy(obj, None, "elf",
path)``:

 A  gcc calls ppci:   ``T fA(P...) { gotA_i = a_i; ...; return retA; }``
 B  ppci calls gcc:   ``void cB(long x, long y) { long t = x*3+y; outB = gB(inB_0, ...); liveB = t - x; }``
 C  pass-through:     ``T pC(P...) { long t = liveC_in*5; T r = gC(a_0, ...); liveC_out = t + 1; return r; }``
                      (gcc -> ppci -> gcc: incoming and outgoing stack arguments in one frame)

All data lives in the gcc-compiled driver (ppci only refers to extern symbols).
Every call INTO ppci code goes through an assembly thunk (GNU as) that puts
canaries into rbx, rbp, r12-r15, records rsp, calls the function with the
argument registers and the stack arguments exactly as gcc set them up (the
thunk pops its return address and ``call``s, so the stack arguments keep their
place) and afterwards compares the six registers and rsp.  Every call OUT of
ppci code goes through a thunk that checks ``rsp % 16 == 8`` at entry (16-byte
alignment at the call), calls the gcc function and then overwrites every
caller-saved register (rcx, rdx, rsi, rdi, r8-r11, xmm1-15, and rax / xmm0
when they do not carry the result) so that a value ppci wrongly kept in a
caller-saved register across the call is destroyed (``liveB`` / ``liveC_out``
observe that).  The driver prints one line per call with every observed
value as hex of the declared width (the ABI leaves the upper bits of sub-int
arguments and results unspecified); the check compares the lines with the
values it generated.  A crash / timeout of the executable is a violation
(behavioural difference), a ppci exception on a signature is a violation (the
property promises every signature), a gcc/ld failure is inconclusive.

Struct-by-value and variadic signatures are excluded (DESIGN C40 L).
"""
import os
import struct
import subprocess

from vlib.core import rng, h

PROPERTY = "C40"
RULE = ("signatures with 0..12 parameters drawn from char/short/int/long/pointer/float/double (+unsigned variants), mixed "
        "so that integer and SSE registers overflow to the stack independently, every return type incl. void, opt levels "
        "0 and 2; per signature three ppci functions (callee, caller, pass-through) exercised with 3 argument vectors of "
        "boundary/random bit patterns through callee-saved/rsp/alignment/clobber thunks; non-trivial = signature with at "
        "least one parameter or a non-void result; distinct by (signature, level)")
ASSUMPTIONS = ["gcc 12 implements the System V x86-64 calling convention for scalar arguments",
               "GNU as/ld link the ppci relocatable ELF as they would any object (C17 checks the ELF itself)",
               "the thunks (70 lines of GNU as, self-tested each run against a gcc-compiled callee and against "
               "deliberately misbehaving assembly functions) are correct"]
MANIFEST_ENTRY = {
    "text": "gcc-compiled drivers call ppci-compiled functions and are called by them for generated signatures; arguments, "
            "results, callee-saved registers, rsp, stack alignment at calls and caller-saved clobber tolerance are checked "
            "by assembly thunks around every cross-compiler call.",
    "note": "Structs by value and variadics excluded. Stack-passed char/short and stack-passed float/double parameters are "
            "excluded while the corresponding findings are open. Values compared in the declared width only.",
    "technique": "runtime monitoring: native execution of ppci code linked with gcc code, observed by assembly thunks",
}
SHARD_TIMEOUT = {"quick": 1500, "thorough": 3 * 3600}

# name -> (C spelling, bytes, class)
TYPES = {
    "char": ("char", 1, "I"), "uchar": ("unsigned char", 1, "I"),
    "short": ("short", 2, "I"), "ushort": ("unsigned short", 2, "I"),
    "int": ("int", 4, "I"), "uint": ("unsigned int", 4, "I"),
    "long": ("long", 8, "I"), "ulong": ("unsigned long", 8, "I"),
    "ptr": ("char *", 8, "I"),
    "float": ("float", 4, "F"), "double": ("double", 8, "F"),
}
INT_TYPES = ["char", "uchar", "short", "ushort", "int", "uint", "long", "ulong", "ptr"]
FP_TYPES = ["float", "double"]
RET_TYPES = ["void"] + INT_TYPES + FP_TYPES
SUBINT = ("char", "uchar", "short", "ushort")

DIRNAME = {"A": "callee (gcc calls ppci)", "B": "caller (ppci calls gcc)", "C": "pass-through (gcc -> ppci -> gcc)"}
FLAG_NAMES = ["rbx changed", "rbp changed", "r12 changed", "r13 changed", "r14 changed", "r15 changed",
              "rsp not restored", "stack not 16-byte aligned at call"]

# ---------------------------------------------------------------------------
# signature and value generation


def gen_signature(r, force_ret=None, force_n=None):
    n = r.choice([0, 1, 2, 3, 4, 5, 6, 7, 8, 9, 10, 11, 12, 7, 8, 9, 10, 11, 12])
    if force_n is not None:
        n = force_n
    profile = r.choice(["int", "fp", "mixed", "mixed", "alt"])
    params = []
    for i in range(n):
        if profile == "int":
            fp = r.random() < 0.1
        elif profile == "fp":
            fp = r.random() < 0.9
        elif profile == "alt":
            fp = i % 2 == 1
        else:
            fp = r.random() < 0.5
        params.append(r.choice(FP_TYPES) if fp else r.choice(INT_TYPES))
    ret = force_ret or r.choice(RET_TYPES)
    return ret, params


F_SUBINT = "stack-passed-char-short-argument"
F_FPCALL = "stack-passed-float-double-argument-in-call"
F_FPSLOT = "stack-passed-float-parameter-slot-is-4-bytes"


def apply_avoid(params, avoid):
    """The avoid switches rewrite exactly the parameter positions/types of the open findings.
    -> (params, directions, keys of the switches that changed something)"""
    out = []
    used = []
    dirs = "ABC"
    for t, where in zip(params, classify(params)):
        if where == "stack" and t in SUBINT and F_SUBINT in avoid:
            t = "int" if t in ("char", "short") else "uint"     # the same stack slot, passed as a full int
            used.append(F_SUBINT)
        if where == "stack" and t == "float" and F_FPSLOT in avoid:
            t = "double"                                        # the same stack slot, 8 bytes wide
            used.append(F_FPSLOT)
        if where == "stack" and TYPES[t][2] == "F" and F_FPCALL in avoid:
            dirs = "A"                                          # ppci is only the callee for this signature
            used.append(F_FPCALL)
        out.append(t)
    return out, dirs, sorted(set(used))


def classify(params):
    """-> list of 'ireg'/'freg'/'stack' per parameter (scalar System V classification)."""
    ni = nf = 0
    loc = []
    for t in params:
        if TYPES[t][2] == "I":
            ni += 1
            loc.append("ireg" if ni <= 6 else "stack")
        else:
            nf += 1
            loc.append("freg" if nf <= 8 else "stack")
    return loc


def gen_value(r, t):
    """-> bit pattern (int) of the type's width."""
    if t == "void":
        return 0
    _, size, cls = TYPES[t]
    bits = size * 8
    if t == "ptr":
        return None  # filled by the driver: address of a cell of `cells`
    if cls == "F":
        vals = [0.0, -0.0, 1.0, -1.5, 3.141592653589793, 1e30, -1e-30, float("inf"), float("-inf"), 123456.789,
                r.uniform(-1e6, 1e6), r.uniform(-1, 1)]
        v = r.choice(vals)
        if size == 4:
            return struct.unpack("<I", struct.pack("<f", v))[0]
        return struct.unpack("<Q", struct.pack("<d", v))[0]
    k = r.randrange(6)
    if k == 0:
        return r.choice([0, 1, (1 << bits) - 1, 1 << (bits - 1), (1 << (bits - 1)) - 1, (1 << bits) - 2])
    if k == 1:
        return r.getrandbits(bits) | (1 << (bits - 1))
    return r.getrandbits(bits)


# ---------------------------------------------------------------------------
# sources

SHIM_HEAD = r"""
    .text
    .macro CMPREG reg, canary, bit
    movabsq $\canary, %r10
    cmpq    %r10, \reg
    je      1f
    orq     $\bit, %r11
1:
    .endm

    # gcc -> ppci: canaries in the callee-saved registers, rsp recorded
    .macro THUNK_IN name, target
    .globl  \name
    .type   \name, @function
\name:
    popq    tin_ret(%rip)
    movq    %rbx, tin_save+0(%rip)
    movq    %rbp, tin_save+8(%rip)
    movq    %r12, tin_save+16(%rip)
    movq    %r13, tin_save+24(%rip)
    movq    %r14, tin_save+32(%rip)
    movq    %r15, tin_save+40(%rip)
    movq    %rsp, tin_save+48(%rip)
    movabsq $0x1b1b1b1b1b1b1b1b, %rbx
    movabsq $0x2b2b2b2b2b2b2b2b, %rbp
    movabsq $0x3c3c3c3c3c3c3c3c, %r12
    movabsq $0x4d4d4d4d4d4d4d4d, %r13
    movabsq $0x5e5e5e5e5e5e5e5e, %r14
    movabsq $0x6f6f6f6f6f6f6f6f, %r15
    call    \target
    xorl    %r11d, %r11d
    CMPREG  %rbx, 0x1b1b1b1b1b1b1b1b, 1
    CMPREG  %rbp, 0x2b2b2b2b2b2b2b2b, 2
    CMPREG  %r12, 0x3c3c3c3c3c3c3c3c, 4
    CMPREG  %r13, 0x4d4d4d4d4d4d4d4d, 8
    CMPREG  %r14, 0x5e5e5e5e5e5e5e5e, 16
    CMPREG  %r15, 0x6f6f6f6f6f6f6f6f, 32
    cmpq    tin_save+48(%rip), %rsp
    je      2f
    orq     $64, %r11
2:
    orq     %r11, thunk_flags(%rip)
    incq    thunk_in_calls(%rip)
    movq    tin_save+48(%rip), %rsp
    movq    tin_save+0(%rip), %rbx
    movq    tin_save+8(%rip), %rbp
    movq    tin_save+16(%rip), %r12
    movq    tin_save+24(%rip), %r13
    movq    tin_save+32(%rip), %r14
    movq    tin_save+40(%rip), %r15
    jmp     *tin_ret(%rip)
    .endm

    # ppci -> gcc: alignment at the call, then every caller-saved register is destroyed
    # keep: 0 = result in rax, 1 = result in xmm0, 2 = no result
    .macro THUNK_OUT name, target, keep
    .globl  \name
    .type   \name, @function
\name:
    movq    %rsp, %r11
    andq    $15, %r11
    cmpq    $8, %r11
    je      1f
    orq     $128, thunk_flags(%rip)
1:
    popq    tout_ret(%rip)
    call    \target
    incq    thunk_out_calls(%rip)
    movabsq $0xdeadbeefcafef00d, %r11
    movq    %r11, %rcx
    movq    %r11, %rdx
    movq    %r11, %rsi
    movq    %r11, %rdi
    movq    %r11, %r8
    movq    %r11, %r9
    movq    %r11, %r10
    .if \keep != 0
    movq    %r11, %rax
    .endif
    .if \keep != 1
    movq    %r11, %xmm0
    .endif
    movq    %r11, %xmm1
    movq    %r11, %xmm2
    movq    %r11, %xmm3
    movq    %r11, %xmm4
    movq    %r11, %xmm5
    movq    %r11, %xmm6
    movq    %r11, %xmm7
    movq    %r11, %xmm8
    movq    %r11, %xmm9
    movq    %r11, %xmm10
    movq    %r11, %xmm11
    movq    %r11, %xmm12
    movq    %r11, %xmm13
    movq    %r11, %xmm14
    movq    %r11, %xmm15
    jmp     *tout_ret(%rip)
    .endm

    .bss
    .align 16
tin_save:   .skip 64
tin_ret:    .skip 8
tout_ret:   .skip 8
    .globl thunk_flags
thunk_flags: .skip 8
    .globl thunk_in_calls
thunk_in_calls: .skip 8
    .globl thunk_out_calls
thunk_out_calls: .skip 8
    .text

    # self-test subjects: functions that break one rule each
    .globl bad_rbx
bad_rbx:
    movq    $5, %rbx
    ret
    .globl bad_r14
bad_r14:
    incq    %r14
    ret
    .globl bad_rbp
bad_rbp:
    xorl    %ebp, %ebp
    ret
    .globl bad_rsp
bad_rsp:
    popq    %r11
    subq    $8, %rsp
    jmp     *%r11
    .globl misaligned_caller
misaligned_caller:
    subq    $16, %rsp
    call    st_out
    addq    $16, %rsp
    ret
    .globl aligned_caller
aligned_caller:
    subq    $8, %rsp
    call    st_out
    addq    $8, %rsp
    ret
    THUNK_IN  bad_rbx_thunk, bad_rbx
    THUNK_IN  bad_r14_thunk, bad_r14
    THUNK_IN  bad_rbp_thunk, bad_rbp
    THUNK_IN  bad_rsp_thunk, bad_rsp
    THUNK_IN  good_thunk, st_good
    THUNK_IN  misaligned_thunk, misaligned_caller
    THUNK_IN  aligned_thunk, aligned_caller
    THUNK_OUT st_out, st_out_real, 0
"""

DRIVER_HEAD = r"""
#include <stdio.h>
#include <string.h>
extern unsigned long thunk_flags, thunk_in_calls, thunk_out_calls;
char cells[64];
static void put(const char *tag, const void *p, int n) {
    unsigned long v = 0; memcpy(&v, p, n); printf(" %s=%lx", tag, v);
}
#define LOAD(var, val) do { unsigned long t_ = (val); memcpy(&(var), &t_, sizeof(var)); } while (0)
#define FILL(var) memset(&(var), 0xA5, sizeof(var))
/* thunk self-test */
long st_good(long a, long b, long c, long d, long e, long f, long g, double h) { return a + g + (long)h; }
long st_out_real(void) { return 7; }
extern long good_thunk(long, long, long, long, long, long, long, double);
extern void bad_rbx_thunk(void), bad_r14_thunk(void), bad_rbp_thunk(void), bad_rsp_thunk(void);
extern long misaligned_thunk(void), aligned_thunk(void);
static void selftest(void) {
    thunk_flags = 0; long r = good_thunk(1, 2, 3, 4, 5, 6, 70, 8.0); printf("SELFTEST good r=%ld flags=%lx\n", r, thunk_flags);
    thunk_flags = 0; bad_rbx_thunk(); printf("SELFTEST bad_rbx flags=%lx\n", thunk_flags);
    thunk_flags = 0; bad_r14_thunk(); printf("SELFTEST bad_r14 flags=%lx\n", thunk_flags);
    thunk_flags = 0; bad_rbp_thunk(); printf("SELFTEST bad_rbp flags=%lx\n", thunk_flags);
    thunk_flags = 0; bad_rsp_thunk(); printf("SELFTEST bad_rsp flags=%lx\n", thunk_flags);
    thunk_flags = 0; r = misaligned_thunk(); printf("SELFTEST misaligned r=%ld flags=%lx\n", r, thunk_flags);
    thunk_flags = 0; r = aligned_thunk(); printf("SELFTEST aligned r=%ld flags=%lx\n", r, thunk_flags);
}
"""

SELFTEST_EXPECT = ["SELFTEST good r=79 flags=0", "SELFTEST bad_rbx flags=1", "SELFTEST bad_r14 flags=10",
                   "SELFTEST bad_rbp flags=2", "SELFTEST bad_rsp flags=40", "SELFTEST misaligned r=7 flags=80",
                   "SELFTEST aligned r=7 flags=0"]


def cty(t):
    return "void" if t == "void" else TYPES[t][0]


def plist(params, names=True):
    if not params:
        return "void"
    return ", ".join("%s%s" % (cty(t) + ("" if cty(t).endswith("*") else " "), "a%d" % i if names else "")
                     for i, t in enumerate(params)).replace(" ,", ",").rstrip()


def build_sources(sigs):
    """sigs: list of dict(k, ret, params, vectors). -> (ppci C, driver C, shim asm, expected lines)"""
    pc = []      # ppci side
    dc = [DRIVER_HEAD]
    sh = [SHIM_HEAD]
    runs = []
    expected = []
    for s in sigs:
        k, ret, params = s["k"], s["ret"], s["params"]
        dirs = s.get("dirs", "ABC")
        n = len(params)
        T = cty(ret)
        args = ", ".join("a%d" % i for i in range(n))
        proto = plist(params)
        keep = 2 if ret == "void" else (1 if TYPES[ret][2] == "F" else 0)
        # --- A: ppci callee
        if "A" in dirs:
            for i, t in enumerate(params):
                pc.append("extern %s gotA_%d_%d;" % (cty(t), k, i))
                dc.append("%s gotA_%d_%d;" % (cty(t), k, i))
            if ret != "void":
                pc.append("extern %s retA_%d;" % (T, k))
                dc.append("%s retA_%d;" % (T, k))
            body = " ".join("gotA_%d_%d = a%d;" % (k, i, i) for i in range(n))
            pc.append("%s fA_%d(%s) { %s %s }" % (T, k, proto, body, "return retA_%d;" % k if ret != "void" else ""))
            dc.append("extern %s fA_%d_thunk(%s);" % (T, k, proto))
            sh.append("    THUNK_IN fA_%d_thunk, fA_%d" % (k, k))
        # --- B: ppci caller
        if "B" in dirs:
            for i, t in enumerate(params):
                pc.append("extern %s inB_%d_%d;" % (cty(t), k, i))
                dc.append("%s inB_%d_%d; %s gotB_%d_%d;" % (cty(t), k, i, cty(t), k, i))
            pc.append("extern long liveB_%d;" % k)
            dc.append("long liveB_%d;" % k)
            if ret != "void":
                pc.append("extern %s outB_%d;" % (T, k))
                dc.append("%s outB_%d; %s retB_%d;" % (T, k, T, k))
            pc.append("%s gB_%d(%s);" % (T, k, proto))
            call = "gB_%d(%s);" % (k, ", ".join("inB_%d_%d" % (k, i) for i in range(n)))
            pc.append("void cB_%d(long x, long y) { long t = x * 3 + y; %s%s liveB_%d = t - x; }" % (
                k, "outB_%d = " % k if ret != "void" else "", call, k))
            dc.append("%s gB_%d_real(%s) { %s %s }" % (
                T, k, proto, " ".join("gotB_%d_%d = a%d;" % (k, i, i) for i in range(n)),
                "return retB_%d;" % k if ret != "void" else ""))
            dc.append("extern void cB_%d_thunk(long, long);" % k)
            sh.append("    THUNK_IN cB_%d_thunk, cB_%d" % (k, k))
            sh.append("    THUNK_OUT gB_%d, gB_%d_real, %d" % (k, k, keep))
        # --- C: pass-through
        if "C" in dirs:
            for i, t in enumerate(params):
                dc.append("%s gotC_%d_%d;" % (cty(t), k, i))
            pc.append("extern long liveC_in_%d; extern long liveC_out_%d;" % (k, k))
            dc.append("long liveC_in_%d, liveC_out_%d;" % (k, k))
            if ret != "void":
                dc.append("%s retC_%d;" % (T, k))
            pc.append("%s gC_%d(%s);" % (T, k, proto))
            if ret != "void":
                pc.append("%s pC_%d(%s) { long t = liveC_in_%d * 5; %s r = gC_%d(%s); liveC_out_%d = t + 1; return r; }" % (
                    T, k, proto, k, T, k, args, k))
            else:
                pc.append("void pC_%d(%s) { long t = liveC_in_%d * 5; gC_%d(%s); liveC_out_%d = t + 1; }" % (
                    k, proto, k, k, args, k))
            dc.append("%s gC_%d_real(%s) { %s %s }" % (
                T, k, proto, " ".join("gotC_%d_%d = a%d;" % (k, i, i) for i in range(n)),
                "return retC_%d;" % k if ret != "void" else ""))
            dc.append("extern %s pC_%d_thunk(%s);" % (T, k, proto))
            sh.append("    THUNK_IN pC_%d_thunk, pC_%d" % (k, k))
            sh.append("    THUNK_OUT gC_%d, gC_%d_real, %d" % (k, k, keep))
        # --- driver runs
        fn = ["static void run_%d(void) {" % k]
        for i, t in enumerate(params):
            fn.append("  %s x%d;" % (cty(t), i))
        if ret != "void":
            fn.append("  %s r;" % T)
        for v, vec in enumerate(s["vectors"]):
            def val(i):
                x = vec["args"][i]
                if x is None:
                    return "(unsigned long)&cells[%d]" % vec["cells"][i]
                return "0x%xUL" % x

            def rv():
                if vec["ret"] is None:
                    return "(unsigned long)&cells[%d]" % vec["retcell"]
                return "0x%xUL" % vec["ret"]

            def exp_val(x, cell, size):
                if x is None:
                    return "cell%d" % cell
                return "%x" % (x & ((1 << (8 * size)) - 1))
            for i in range(n):
                fn.append("  LOAD(x%d, %s);" % (i, val(i)))
            xs = ", ".join("x%d" % i for i in range(n))
            exp_args = "".join(" a%d=%s" % (i, exp_val(vec["args"][i], vec["cells"][i], TYPES[t][1]))
                               for i, t in enumerate(params))
            exp_ret = "" if ret == "void" else " ret=%s" % exp_val(vec["ret"], vec.get("retcell"), TYPES[ret][1])

            def puts(prefix):
                out = []
                for i, t in enumerate(params):
                    g = "%s_%d_%d" % (prefix, k, i)
                    if t == "ptr":
                        out.append('  if (%s >= cells && %s < cells + 64) printf(" a%d=cell%%d", (int)(%s - cells)); '
                                   'else put("a%d", &%s, 8);' % (g, g, i, g, i, g))
                    else:
                        out.append('  put("a%d", &%s, sizeof(%s));' % (i, g, g))
                return out

            def putret(lab):
                if ret == "ptr":
                    return ['  if (%s >= cells && %s < cells + 64) printf(" ret=cell%%d", (int)(%s - cells)); '
                            'else put("ret", &%s, 8);' % (lab, lab, lab, lab)]
                if ret != "void":
                    return ['  put("ret", &%s, sizeof(%s));' % (lab, lab)]
                return []
            # A
            if "A" in dirs:
                for i in range(n):
                    fn.append("  FILL(gotA_%d_%d);" % (k, i))
                if ret != "void":
                    fn.append("  LOAD(retA_%d, %s); FILL(r);" % (k, rv()))
                fn.append("  thunk_flags = 0;")
                fn.append("  %sfA_%d_thunk(%s);" % ("r = " if ret != "void" else "", k, xs))
                fn.append('  printf("A %d %d");' % (k, v))
                fn += putret("r") + puts("gotA")
                fn.append('  printf(" flags=%lx\\n", thunk_flags);')
                expected.append("A %d %d%s%s flags=0" % (k, v, exp_ret, exp_args))
            # B
            if "B" in dirs:
                for i in range(n):
                    fn.append("  inB_%d_%d = x%d; FILL(gotB_%d_%d);" % (k, i, i, k, i))
                if ret != "void":
                    fn.append("  LOAD(retB_%d, %s); FILL(outB_%d);" % (k, rv(), k))
                fn.append("  liveB_%d = 0; thunk_flags = 0;" % k)
                fn.append("  cB_%d_thunk(%dL, %dL);" % (k, vec["x"], vec["y"]))
                fn.append('  printf("B %d %d");' % (k, v))
                fn += putret("outB_%d" % k) + puts("gotB")
                fn.append('  printf(" live=%%ld flags=%%lx\\n", liveB_%d, thunk_flags);' % k)
                expected.append("B %d %d%s%s live=%d flags=0" % (k, v, exp_ret, exp_args, vec["x"] * 2 + vec["y"]))
            # C
            if "C" in dirs:
                for i in range(n):
                    fn.append("  FILL(gotC_%d_%d);" % (k, i))
                if ret != "void":
                    fn.append("  LOAD(retC_%d, %s); FILL(r);" % (k, rv()))
                fn.append("  liveC_in_%d = %dL; liveC_out_%d = 0; thunk_flags = 0;" % (k, vec["x"], k))
                fn.append("  %spC_%d_thunk(%s);" % ("r = " if ret != "void" else "", k, xs))
                fn.append('  printf("C %d %d");' % (k, v))
                fn += putret("r") + puts("gotC")
                fn.append('  printf(" live=%%ld flags=%%lx\\n", liveC_out_%d, thunk_flags);' % k)
                expected.append("C %d %d%s%s live=%d flags=0" % (k, v, exp_ret, exp_args, vec["x"] * 5 + 1))
        fn.append("}")
        runs.append("\n".join(fn))
    dc += runs
    dc.append("int main(void) {\n  setvbuf(stdout, 0, _IOFBF, 1 << 16);\n  selftest();")
    for s in sigs:
        dc.append("  run_%d();" % s["k"])
    dc.append('  printf("DONE in=%lu out=%lu\\n", thunk_in_calls, thunk_out_calls);\n  return 0;\n}')
    sh.append('    .section .note.GNU-stack,"",@progbits')
    return "\n".join(pc) + "\n", "\n".join(dc) + "\n", "\n".join(sh) + "\n", expected


def gen_vectors(r, ret, params, nvec=3):
    vecs = []
    for _ in range(nvec):
        args = [gen_value(r, t) for t in params]
        cells = [r.randrange(64) if t == "ptr" else None for t in params]
        vec = {"args": args, "cells": cells, "ret": gen_value(r, ret) if ret != "void" else 0,
               "x": r.randrange(-1000, 1000), "y": r.randrange(-1000, 1000)}
        if ret == "ptr":
            vec["retcell"] = r.randrange(64)
        vecs.append(vec)
    return vecs


# ---------------------------------------------------------------------------
# build and run


def build_and_run(sigs, level, tmp, tag):
    """-> dict(status, lines, expected, detail). status: ok | ppci-error | toolchain | crash | timeout"""
    import io
    from ppci import api

    psrc, dsrc, ssrc, expected = build_sources(sigs)
    base = os.path.join(tmp, tag)
    out = {"expected": expected, "ppci_source": psrc}
    try:
        obj = api.cc(io.StringIO(psrc), "x86_64", opt_level=level)
        api.objcopy(obj, None, "elf", base + ".o")
    except BaseException as e:  # judged by the caller (per signature retry)
        import traceback
        tb = traceback.extract_tb(e.__traceback__)
        out.update(status="ppci-error", detail="%s: %s (%s:%s)" % (type(e).__name__, str(e)[:200], tb[-1].name, tb[-1].lineno))
        return out
    with open(base + ".c", "w") as f:
        f.write(dsrc)
    with open(base + ".s", "w") as f:
        f.write(ssrc)
    p = subprocess.run(["gcc", "-O1", "-w", "-no-pie", "-o", base + ".exe", base + ".c", base + ".s", base + ".o"],
                       capture_output=True, text=True, timeout=300)
    if p.returncode != 0:
        out.update(status="toolchain", detail=p.stderr[-1500:])
        return out
    try:
        q = subprocess.run([base + ".exe"], capture_output=True, timeout=60, cwd=tmp)
    except subprocess.TimeoutExpired:
        out.update(status="timeout", detail="executable did not finish in 60 s", lines=[])
        return out
    finally:
        for ext in (".exe", ".o"):
            try:
                os.remove(base + ext)
            except OSError:
                pass
    lines = q.stdout.decode("ascii", "replace").splitlines()
    out["lines"] = lines
    if q.returncode != 0 or not lines or not lines[-1].startswith("DONE"):
        out.update(status="crash", detail="exit status %s after %d lines; last: %s" % (
            q.returncode, len(lines), lines[-1] if lines else ""))
        return out
    out["status"] = "ok"
    return out


def describe(sig):
    return "%s f(%s)" % (sig["ret"], ", ".join(sig["params"]))


def explain_flags(line):
    try:
        fl = int(line.rsplit("flags=", 1)[1], 16)
    except (IndexError, ValueError):
        return ""
    return ", ".join(n for i, n in enumerate(FLAG_NAMES) if fl >> i & 1)


def judge(sigs, res, level, mon):
    """Compare the transcript of one executable with the expectation."""
    lines = res.get("lines", [])
    st = lines[:len(SELFTEST_EXPECT)]
    if st != SELFTEST_EXPECT:
        mon["inconclusive"].append("thunk self-test failed: %r" % (st,))
        return
    mon["observed"]["thunk_selftests"] = mon["observed"].get("thunk_selftests", 0) + 1
    got = {}
    for ln in lines[len(SELFTEST_EXPECT):]:
        parts = ln.split(" ", 3)
        if len(parts) >= 3 and parts[0] in "ABC":
            got[(parts[0], parts[1], parts[2])] = ln
    bysig = {}
    for e in res["expected"]:
        parts = e.split(" ", 3)
        bysig.setdefault(int(parts[1]), []).append(((parts[0], parts[1], parts[2]), e))
    for s in sigs:
        bad = None
        for key, e in bysig[s["k"]]:
            g = got.get(key)
            mon["evaluations"] += 1
            d = mon["observed"]["direction"]
            d[key[0]] = d.get(key[0], 0) + 1
            if g != e and bad is None:
                bad = (key, e, g)
        account(s, level, mon)
        if bad:
            key, e, g = bad
            what = "no output (crashed before)" if g is None else first_field_diff(e, g)
            mon["violations"].append({
                "summary": "x86_64 -O%d %s: direction %s vector %s: %s" % (level, describe(s), key[0], key[2], what),
                "case": {"signature": describe(s), "level": level, "direction": key[0], "expected": e, "observed": g,
                         "flags": explain_flags(g) if g else None, "sig": s},
                "replay_spec": {"part": "replay", "sigs": [s], "level": level}})


def first_field_diff(e, g):
    ef, gf = e.split(" "), g.split(" ")
    for a, b in zip(ef, gf):
        if a != b:
            extra = ""
            if a.startswith("flags="):
                extra = " (%s)" % explain_flags(g)
            return "expected %s, observed %s%s" % (a, b, extra)
    return "expected %r, observed %r" % (e, g)


def account(s, level, mon):
    o = mon["observed"]
    loc = classify(s["params"])
    o["nparams"][str(len(s["params"]))] = o["nparams"].get(str(len(s["params"])), 0) + 1
    o["ret"][s["ret"]] = o["ret"].get(s["ret"], 0) + 1
    for t, l in zip(s["params"], loc):
        key = "%s:%s" % (t, l)
        o["param_location"][key] = o["param_location"].get(key, 0) + 1
        if l == "stack":
            cls = "subint" if t in SUBINT else ("float" if t == "float" else ("double" if t == "double" else "int_long_ptr"))
            o["stack_params"][cls] = o["stack_params"].get(cls, 0) + 1
    o["level"][str(level)] = o["level"].get(str(level), 0) + 1
    if s["params"] or s["ret"] != "void":
        mon["nontrivial_hashes"].append(h([s["ret"], s["params"], level]))


def new_mon():
    return {"evaluations": 0, "nontrivial_hashes": [], "violations": [], "inconclusive": [], "samples": [],
            "discarded": {}, "observed": {"direction": {}, "nparams": {}, "ret": {}, "param_location": {}, "level": {},
                                          "ppci_errors": {}, "avoid_switch_used": {}, "census": {}, "stack_params": {}}}


def run_batch(sigs, level, tmp, tag, mon, depth=0):
    res = build_and_run(sigs, level, tmp, tag)
    st = res["status"]
    if st == "toolchain":
        mon["inconclusive"].append("gcc/ld failed: %s" % res["detail"][-400:])
        return
    if st == "ppci-error":
        if len(sigs) > 1:  # find the signature(s) ppci cannot compile
            mid = len(sigs) // 2
            run_batch(sigs[:mid], level, tmp, tag + "a", mon, depth + 1)
            run_batch(sigs[mid:], level, tmp, tag + "b", mon, depth + 1)
            return
        s = sigs[0]
        if len(s.get("dirs", "ABC")) > 1:  # which of the three functions does not compile?
            for d in s.get("dirs", "ABC"):
                run_batch([dict(s, dirs=d)], level, tmp, tag + d, mon, depth + 1)
            return
        mon["evaluations"] += 1
        account(s, level, mon)
        k = res["detail"].split(":")[0]
        mon["observed"]["ppci_errors"][k] = mon["observed"]["ppci_errors"].get(k, 0) + 1
        mon["violations"].append({
            "summary": "x86_64 -O%d %s: ppci cannot compile the %s function: %s" % (
                level, describe(s), DIRNAME[s.get("dirs", "ABC")[0]], res["detail"]),
            "case": {"signature": describe(s), "level": level, "ppci_source": res["ppci_source"], "error": res["detail"],
                     "sig": s},
            "replay_spec": {"part": "replay", "sigs": [s], "level": level}})
        return
    if st in ("crash", "timeout") and len(sigs) > 1 and depth < 8:
        # isolate: a crash in one signature must not hide the others
        judge_partial = [s for s in sigs]
        mid = len(judge_partial) // 2
        run_batch(sigs[:mid], level, tmp, tag + "a", mon, depth + 1)
        run_batch(sigs[mid:], level, tmp, tag + "b", mon, depth + 1)
        return
    if st in ("crash", "timeout"):
        s = sigs[0]
        mon["evaluations"] += 1
        account(s, level, mon)
        mon["violations"].append({
            "summary": "x86_64 -O%d %s: executable %s: %s" % (level, describe(s), st, res["detail"]),
            "case": {"signature": describe(s), "level": level, "transcript_tail": res.get("lines", [])[-6:], "sig": s,
                     "ppci_source": res["ppci_source"]},
            "replay_spec": {"part": "replay", "sigs": [s], "level": level}})
        return
    judge(sigs, res, level, mon)
    if len(mon["samples"]) < 1 and sigs:
        s = max(sigs, key=lambda q: len(q["params"]))
        mon["samples"].append({"signature": describe(s), "level": level,
                               "transcript": [ln for ln in res["lines"] if ln.split(" ")[1:2] == [str(s["k"])]][:3]})


# ---------------------------------------------------------------------------


def plan(tier, seed, avoid):
    nsig, per = (320, 20) if tier == "quick" else (10000, 50)
    specs = []
    for start in range(0, nsig, per):
        specs.append({"part": "gen", "start": start, "count": per})
    if tier != "quick":  # DESIGN 3.2 (3): the trigger constructs of the open findings, counted, not judged
        for start in range(0, 2000, 100):
            specs.append({"part": "census", "start": start, "count": 100})
    return specs


def floors(tier):
    # Each floor is <= 40% of the minimum over VERIF_SEED 0..5 of the quick tier on the unchanged tree (evaluations
    # 5760, distinct 608, 32 executables, A = B = C = 1920; stack parameters int/long/ptr >= 86, all classes >= 30;
    # double:freg >= 1000, float:freg >= 970, char:ireg >= 190, ptr:ireg >= 200); return types, parameter counts
    # and levels are complete by construction (make_sig cycles through them).
    return {"evaluations": 2300, "distinct_nontrivial": 240, "observed.thunk_selftests": 12,
            "observed.direction.A": 760, "observed.direction.B": 680, "observed.direction.C": 680,
            "observed.ret": 12, "observed.nparams": 13, "observed.level": 2,
            "observed.stack_params.int_long_ptr": 34, "observed.stack_params": 2,
            "observed.param_location.double:freg": 380, "observed.param_location.float:freg": 380,
            "observed.param_location.char:ireg": 75, "observed.param_location.ptr:ireg": 80}


def make_sig(seed, j, avoid):
    r = rng(seed, PROPERTY, j)
    # every return type and every parameter count occurs in any 39 consecutive indices by construction
    force = RET_TYPES[(j // 3) % len(RET_TYPES)] if j % 3 == 0 else None
    force_n = (j // 3) % 13 if j % 3 == 1 else None
    ret, raw = gen_signature(r, force, force_n)
    params, dirs, used = apply_avoid(raw, avoid)
    # the vectors are drawn for the parameter list that is actually used
    sig = {"k": j, "ret": ret, "params": params, "dirs": dirs, "vectors": gen_vectors(r, ret, params)}
    return sig, raw, used


def run_shard(spec):
    tmp = os.environ.get("VERIF_TMP") or os.getcwd()
    mon = new_mon()
    if spec["part"] == "replay":
        run_batch(spec["sigs"], spec["level"], tmp, "replay", mon)
    elif spec["part"] == "census":
        census(spec, tmp, mon)
    else:
        sigs = []
        for j in range(spec["start"], spec["start"] + spec["count"]):
            sig, raw, used = make_sig(spec["seed"], j, spec["avoid"])
            for key in used:
                mon["observed"]["avoid_switch_used"][key] = mon["observed"]["avoid_switch_used"].get(key, 0) + 1
            sigs.append(sig)
        for level in (0, 2):
            run_batch(sigs, level, tmp, "b%d_%d" % (spec["start"], level), mon)
    mon["violations"] = mon["violations"][:6]
    return mon


def census(spec, tmp, mon):
    """Signatures whose raw form contains a trigger construct of an open finding are run unrestricted; the rewritten
    form of the same signature is part of the main sweep (that is the neutralise-and-retest), so a failure here is
    counted under the keys of the switches that rewrite it and never judged."""
    if not spec["avoid"]:
        return
    for j in range(spec["start"], spec["start"] + spec["count"]):
        sig, raw, used = make_sig(spec["seed"], j, spec["avoid"])
        if not used:
            continue
        r = rng(spec["seed"], PROPERTY, "census-%d" % j)
        rawsig = {"k": j, "ret": sig["ret"], "params": raw, "dirs": "ABC", "vectors": gen_vectors(r, sig["ret"], raw, 1)}
        sub = new_mon()
        run_batch([rawsig], 0, tmp, "census%d" % j, sub)
        mon["inconclusive"] += sub["inconclusive"]
        c = mon["observed"]["census"]
        lab = "+".join(used) + (": fails" if sub["violations"] else ": passes")
        c[lab] = c.get(lab, 0) + 1


# ---------------------------------------------------------------------------
# witness probes


def _probe(ret, params, dirs):
    def run():
        tmp = os.environ.get("VERIF_TMP") or os.getcwd()
        r = rng(0, PROPERTY, "probe")
        sig = {"k": 0, "ret": ret, "params": params, "dirs": dirs, "vectors": gen_vectors(r, ret, params, 2)}
        mon = new_mon()
        for level in (0, 2):
            run_batch([sig], level, tmp, "probe%d" % level, mon)
        if mon["inconclusive"]:
            raise RuntimeError(mon["inconclusive"][0])
        if mon["violations"]:
            return mon["violations"][0]["summary"]
        return None
    return run


PROBES = {
    F_SUBINT: _probe("void", ["long"] * 6 + ["char", "short"], "ABC"),
    F_FPCALL: _probe("void", ["double"] * 8 + ["double", "float"], "BC"),
    F_FPSLOT: _probe("void", ["double"] * 8 + ["float", "float", "double", "long"], "A"),
}
