"""C11 linked references resolve exactly to their symbols (DESIGN 4, C11).

For every generated link the monitor reads every relocated field of the output with a decoder
that is independent of ``Relocation.apply`` and compares what the field *designates* with the
referenced symbol's final address plus addend:

* instruction fields on x86_64, arm, thumb, riscv, riscv:rvc, mips, msp430, m68k (rel16) and the
  avr ``ldi`` parts: the linked instruction bytes are cut out of the output section and decoded
  by llvm-objdump-14 (``vlib.refdis.decode``); the printed branch target / pc-relative
  displacement / absolute operand gives the designated address (pc convention of the ISA applied
  to the *real* address of the instruction: ``P+8`` arm, ``Align(P+4,4)`` thumb literals, end of
  instruction on x86, region bits of ``PC+4`` for the mips ``j``);
* split relocations are read part by part (riscv ``%hi/%lo`` and ``%pcrel_hi/%pcrel_lo``, avr
  ``low()/high()``, or1k ``hi()/lo()``) and additionally recombined when the generator emitted the
  two instructions as an adjacent pair to one symbol;
* absolute data words (absaddr16/32/64) are read directly (little-endian, as the type defines);
* ISAs / types without usable reference decoder (or1k, xtensa, microblaze, mcs6500, avr
  rjmp/rcall/br**, m68k 68020 long branches) are read by small decode functions written from the
  ISA manuals (``weak_*``); they are listed as the weaker oracle in the evidence
  (``observed.oracle``);
* besides the designated value, the reference decode of the linked instruction must show the same
  mnemonic and registers as the decode of the unlinked instruction (a relocation may only touch
  its field), bytes outside relocation sites must be the input bytes (conservation at the merge
  offset computed by a 5-line model; a failed conservation is searched for before it is judged),
  and every symbol's value in the output symbol table must be section address + merge offset +
  input value.
* representability: per relocation type a table written from the ISA manuals gives the set of
  values its field can hold (range, step, extra conditions).  A link that raises although every
  value is representable is a violation (DESIGN 3.1), a link that succeeds with an unrepresentable
  value necessarily decodes to a wrong target and is reported as such.

Workload (``gen_case``): 1-3 objects whose code sections consist of relocation-carrying
instructions (every class of the ISA that ``vlib.isaenum`` can instantiate and whose
``relocations()`` is non-empty, emitted through ``BinaryOutputStream``; microblaze artificial
instructions are emitted directly) separated by random padding; targets are local/global symbols
in the same section, in the same-named section of another object, in small target sections placed
by the layout in memories of their own, DEFINESYMBOL symbols and absolute ``extra_symbols``; the
distance of each reference is drawn around the edges of its type's range (lo, lo+step, hi, hi-step,
0, +-step, random inside, and - in "reject" cases, one site per link - just outside, far outside
or misaligned); optionally two objects are partially linked first.

Narrowed: (1) relaxable riscv:rvc types cb_imm11/cbl_imm11 are only given even targets outside the
shrink window (the shrink decision is C13's); (2) arm ``rel8`` has no instruction that carries it and
is not generated (``observed.types_without_carrier``); (3) ARM ``adr`` and ``ldr`` literal distances
are kept to multiples of 4 inside +-4 KiB (the window the types document) unless unrepresentable in
the ISA as well; (4) sites carry zero fields as emitted by ppci (no pre-filled addends in the field);
(5) addresses stay inside the ISA's address space and S + A >= 0, so that no distance relies on
address wrap-around; (6) absaddr16/32/64 are read little-endian on every target (the type is a
little-endian token; ppci has no big-endian data relocation); (7) instruction operands other than
the label are zero or 4 (operand encoding is C08/C10's).  The generator is this file's own (objgen's
random-byte sites cannot be reference-decoded); objects and layouts use objgen's spec format and
``objgen.build_object`` / ``build_layout``; carriers come from ``vlib.isaenum``.
"""
import re

from vlib.core import rng, h

PROPERTY = "C11"
RULE = ("per link 1-3 generated objects with 2-7 relocation sites (instruction instances of every relocation-"
        "carrying class of the ISA, data words), targets local/global/absolute/layout-defined, in the same or "
        "another section/object/memory, distances drawn around each relocation type's range edges (75% links all "
        "representable, 25% with one unrepresentable site); non-trivial = a site whose relocation value S+A is "
        "non-zero and whose target is not the site itself; distinct by hash of (arch, type, class, distance, mode)")
ASSUMPTIONS = ["llvm-objdump-14 decodes x86-64, ARM, Thumb, RV32IMC, MIPS, MSP430, M68k (68000 forms) and the AVR "
               "ldi immediate correctly and prints branch targets as address + displacement",
               "the per-type representable ranges and the weak decoders (or1k, xtensa, microblaze, mcs6500, avr "
               "relative jumps, m68k long branches) are transcribed correctly from the ISA manuals",
               "merging input sections depends on sizes and alignments only (the modelled merge offset is verified "
               "by byte conservation on every link)"]
MANIFEST_ENTRY = {
    "text": "Over thousands of generated links per run on 13 targets every relocated field of the output, decoded "
            "by llvm-objdump (or, where no reference decoder exists, by a decoder written from the ISA manual), "
            "designates exactly symbol address + addend under the ISA's pc convention; split relocations "
            "recombine to the address; distances are swept across every type's range edges and an unrepresentable "
            "distance makes the link fail.",
    "note": "or1k, xtensa, microblaze, mcs6500, avr relative jumps and m68k long branches are judged by own "
            "decoders (weaker oracle). Relaxable rvc jumps only outside the shrink window (C13). Known findings "
            "switch off: see known_findings.d/C11.json.",
    "technique": "runtime monitoring: reference disassembly of linked relocation sites over generated objects x layouts",
}

STRONG = ["x86_64", "arm", "arm:thumb", "riscv", "riscv:rvc", "mips", "msp430", "avr", "m68k"]
WEAK = ["or1k", "xtensa", "microblaze", "mcs6500"]
ARCHES = STRONG + WEAK

# known-finding keys (see known_findings.d/C11.json)
F_ADDEND = "addend-ignored-by-relocation-types"
F_DUAL = "wrap-negative-dual-range"
F_NOCHECK = "relocation-apply-without-range-check"
F_EXC = "range-error-is-not-compilererror"
F_EDGE = "range-check-excludes-extreme-value"
F_ODD = "address-relocations-reject-unaligned-symbols"
F_THUMBJ = "thumb-wide-branch-j-bits-not-encoded"
F_MIPSREGION = "mips-abs26-ignores-region"
F_XTRANGE = "xtensa-range-assertions-wrong"
F_SSE = "x86-sse-label-relocation-offset"


def EXHAUSTIVE(tier):
    return False


SLICES = {"quick": 2, "thorough": 8}
PER_SHARD = {"quick": 260, "thorough": 1600}


def plan(tier, seed, avoid):
    k = SLICES.get(tier, 2)
    return [{"arch": a, "slice": s, "n": PER_SHARD.get(tier, 130)} for a in ARCHES for s in range(k)]


def floors(tier):
    return {"evaluations": 15000, "distinct_nontrivial": 5000, "observed.links.ok": 2000,
            "observed.links.rejected": 300, "observed.isas": 5, "observed.types": 34,
            "observed.oracle.refdis": 3000, "observed.oracle.manual": 2000, "observed.oracle.direct": 2000,
            "observed.near_edge": 2000, "observed.pairs_recombined": 300, "observed.same_shape_checked": 3000,
            "observed.links.through_partial_link": 200}


# ---------------------------------------------------------------------------
# relocation type table (from the ISA manuals; independent of Relocation.apply)


def _al(x, a):
    return x - (x % a)


def sext(v, bits):
    v &= (1 << bits) - 1
    return v - (1 << bits) if v >> (bits - 1) else v


def arm_modimm(v):
    """ARM ARM A5.2.4: an 8-bit value rotated right by an even amount."""
    if v < 0 or v >= 1 << 32:
        return False
    for rot in range(0, 32, 2):
        x = ((v << rot) | (v >> (32 - rot))) & 0xFFFFFFFF if rot else v
        if x < 256:
            return True
    return False


class Ty:
    """kind 'pcrel': the field holds D - base(I, F) with D the designated address, expected D = S + A + adj
    kind 'abs'  : the field holds D = S + A
    kind 'part' : the field holds part(S + A, I, F); always representable for addresses of the ISA
    lo/hi/step  : representable values of (D - base) resp. D;  extra(v, D, I): further condition
    gstep       : step the generator uses for in-range values (>= step)"""

    def __init__(self, kind, oracle, read, base=None, lo=None, hi=None, step=1, adj=0, part=None, extra=None,
                 gstep=None, site_align=1, glo=None, ghi=None):
        self.kind, self.oracle, self.read, self.base = kind, oracle, read, base
        self.lo, self.hi, self.step, self.adj, self.part, self.extra = lo, hi, step, adj, part, extra
        self.gstep = gstep or step
        self.site_align = site_align
        self.glo = lo if glo is None else glo      # window the generator treats as "in range"
        self.ghi = hi if ghi is None else ghi

    def value(self, S, A, I, F):
        """the integer the field has to represent"""
        D = S + A + self.adj
        if self.kind == "pcrel":
            return D - self.base(I, F)
        return D

    def representable(self, S, A, I, F):
        if self.kind == "part":
            return True
        v = self.value(S, A, I, F)
        if v < self.lo or v > self.hi or v % self.step:
            return False
        if self.extra is not None and not self.extra(v, S + A + self.adj, I):
            return False
        return True


# ---- readers: ctx -> designated address (pcrel/abs) or part value; None = unreadable ----------------------


class Ctx:
    __slots__ = ("isa", "text", "atoms", "I", "F", "size", "caddr", "raw", "foff", "nrel", "relidx")


def _ints(ctx):
    return [a for a in ctx.atoms if isinstance(a, int)]


def rd_target(ctx):
    """branch target printed as address (reference decoded the chunk at address caddr)"""
    x = _ints(ctx)
    if not x:
        return None
    return ctx.I + (x[-1] - ctx.caddr)


def rd_rel_insn(ctx):
    """msp430 `jne $+64`: displacement from the instruction's own address"""
    x = _ints(ctx)
    return None if not x else ctx.I + x[-1]


def rd_last(ctx):
    x = _ints(ctx)
    return None if not x else x[-1]


_PCMEM = re.compile(r"\[pc(?:, #(-?\d+))?\]")
_ADR_T = re.compile(r"^adr(?:\.w)?\s+\w+, #(-?\d+)")
_ADR_A = re.compile(r"^(add|sub|adr)\s+\w+, (?:pc, )?#(-?\d+)")
_X86MEM = re.compile(r"\[(-?(?:0x[0-9a-f]+|\d+))\]")
_M68PC = re.compile(r"\((-?\d+),%pc\)")


def rd_arm_lit(ctx):
    m = _PCMEM.search(ctx.text)
    return None if not m else ctx.I + 8 + int(m.group(1) or 0)


def rd_arm_adr(ctx):
    m = _ADR_A.match(ctx.text)
    if not m:
        return None
    n = int(m.group(2))
    return ctx.I + 8 + (-n if m.group(1) == "sub" else n)


def rd_thumb_lit(ctx):
    m = _PCMEM.search(ctx.text) or _ADR_T.match(ctx.text)
    return None if not m else _al(ctx.I + 4, 4) + int(m.group(1) or 0)


def rd_x86_mem(ctx):
    m = _X86MEM.search(ctx.text)
    return None if not m else int(m.group(1), 0)


def rd_m68k_pc(ctx):
    m = _M68PC.search(ctx.text)       # llvm prints the 16-bit displacement unsigned; the CPU sign-extends it
    return None if not m else ctx.F + sext(int(m.group(1)), 16)


def rd_mips_j(ctx):
    x = _ints(ctx)
    return None if not x else ((ctx.I + 4) & 0xF0000000) | x[-1]


_MSP_EXT = re.compile(r"^(?:[&#](-?\d+)|(-?\d+)\(r\d+\))$")


def rd_msp430_abs(ctx):
    """SLAU049 3.3/3.4: which operand owns the extension word at the relocation's offset is derived from the
    As/Ad bits of the instruction word; the operand's number is taken from the reference's text."""
    w = ctx.raw[0] | (ctx.raw[1] << 8)
    ops = [o.strip() for o in ctx.text.split(None, 1)[1].split(",")] if " " in ctx.text else []
    if (w >> 12) >= 4:          # format I: src, dst
        src, As, Ad = (w >> 8) & 15, (w >> 4) & 3, (w >> 7) & 1
        ext = []
        if (As == 1 and src != 3) or (As == 3 and src == 0):
            ext.append(0)
        if Ad == 1:
            ext.append(1)
    elif (w >> 10) == 4:        # format II: one operand
        reg, As = w & 15, (w >> 4) & 3
        ext = [0] if (As == 1 and reg != 3) or (As == 3 and reg == 0) else []
    else:
        return None
    k = (ctx.foff - 2) // 2
    if k >= len(ext):
        return None
    pos = ext[k]
    if (w >> 12) >= 4 and len(ops) == 1:
        pos -= 1        # emulated mnemonics (tst, inc, clr, ...) are printed without their constant-generator source
    if not 0 <= pos < len(ops):
        return None
    m = _MSP_EXT.match(ops[pos])
    if not m:
        return None
    return int(m.group(1) if m.group(1) is not None else m.group(2)) & 0xFFFF


def rd_direct(nbytes):
    def rd(ctx):
        return int.from_bytes(ctx.raw[ctx.foff:ctx.foff + nbytes], "little")
    return rd


# ---- weak decoders (ISA manuals) ---------------------------------------------------------------------------


def weak_avr_rel(bits):
    """AVR instruction set manual: RJMP/RCALL 1100/1101 kkkk kkkk kkkk, PC <- PC + k + 1 (words);
    BRBS/BRBC 1111 0xkk kkkk ksss."""
    def rd(ctx):
        w = ctx.raw[0] | (ctx.raw[1] << 8)
        if bits == 12:
            if (w >> 13) != 0b110:
                return None
            k = sext(w & 0xFFF, 12)
        else:
            if (w >> 11) != 0b11110:
                return None
            k = sext((w >> 3) & 0x7F, 7)
        return ctx.I + 2 + 2 * k
    return rd


def weak_m68k_long(ctx):
    """M68000 PRM Bcc/BRA/BSR: 0110 cccc dddddddd; displacement byte 0xFF selects a 32-bit displacement in the two
    following words (68020+); target = address of the instruction + 2 + displacement."""
    if ctx.raw[0] >> 4 != 6 or ctx.raw[1] != 0xFF or len(ctx.raw) < 6:
        return None
    return ctx.I + 2 + sext(int.from_bytes(ctx.raw[2:6], "big"), 32)


def weak_or1k_jump(ctx):
    """OpenRISC 1000 manual: l.j/l.jal/l.bnf/l.bf opcode[31:26] N[25:0]; PC <- exts(N << 2) + address of the jump."""
    w = int.from_bytes(ctx.raw[0:4], "big")
    if (w >> 26) not in (0, 1, 3, 4):
        return None
    return ctx.I + 4 * sext(w & 0x3FFFFFF, 26)


def weak_or1k_k(ctx):
    """l.movhi / l.ori / l.addi ...: K / I in bits [15:0]"""
    return int.from_bytes(ctx.raw[0:4], "big") & 0xFFFF


def _xt24(ctx):
    return ctx.raw[0] | (ctx.raw[1] << 8) | (ctx.raw[2] << 16)


def weak_xt_imm8(ctx):
    """Xtensa ISA RM, RRI8 branches: op0=0111, imm8 in [23:16]; target = PC + 4 + sext(imm8)"""
    w = _xt24(ctx)
    return None if w & 15 != 7 else ctx.I + 4 + sext(w >> 16, 8)


def weak_xt_bri12(ctx):
    """BRI12 (BEQZ/BNEZ/BGEZ/BLTZ): op0=0110, n=01, imm12 in [23:12]; target = PC + 4 + sext(imm12)"""
    w = _xt24(ctx)
    return None if w & 15 != 6 or (w >> 4) & 3 != 1 else ctx.I + 4 + sext(w >> 12, 12)


def weak_xt_j(ctx):
    """CALL format J: op0=0110, n=00, offset18 in [23:6]; target = PC + 4 + sext(offset)"""
    w = _xt24(ctx)
    return None if w & 15 != 6 or (w >> 4) & 3 != 0 else ctx.I + 4 + sext(w >> 6, 18)


def weak_xt_call0(ctx):
    """CALL0: op0=0101, n=00, offset18 in [23:6]; target = (PC & ~3) + (sext(offset) << 2) + 4"""
    w = _xt24(ctx)
    return None if w & 15 != 5 or (w >> 4) & 3 != 0 else _al(ctx.I, 4) + 4 * sext(w >> 6, 18) + 4


def weak_xt_l32r(ctx):
    """L32R: op0=0001, imm16 in [23:8]; address = ((PC + 3) & ~3) + ((0xFFFF0000 | imm16) << 2) (two's complement)"""
    w = _xt24(ctx)
    return None if w & 15 != 1 else _al(ctx.I + 3, 4) + 4 * ((w >> 8) - 0x10000)


def weak_mb(pcrel):
    """MicroBlaze RM: `imm` (opcode 101100, imm16 = upper half) prefixes the next type-B instruction whose imm16
    is the lower half; branches: PC of the branch instruction + the 32-bit value."""
    def rd(ctx):
        w0 = int.from_bytes(ctx.raw[0:4], "big")
        w1 = int.from_bytes(ctx.raw[4:8], "big")
        if (w0 >> 26) != 0b101100:
            return None
        v = ((w0 & 0xFFFF) << 16) | (w1 & 0xFFFF)
        return ctx.F + 4 + sext(v, 32) if pcrel else v
    return rd


def weak_6502_abs(ctx):
    """MCS6500 absolute addressing: opcode, low byte, high byte"""
    return ctx.raw[ctx.foff] | (ctx.raw[ctx.foff + 1] << 8)


def weak_6502_rel(ctx):
    """branches: target = address of the next instruction + signed offset byte"""
    return ctx.F + 1 + sext(ctx.raw[ctx.foff], 8)


# ---- the table ---------------------------------------------------------------------------------------------

M32 = 0xFFFFFFFF


def _data_types(align32=4, align64=4):
    return {
        "absaddr16": Ty("abs", "direct", rd_direct(2), lo=0, hi=0xFFFF, site_align=2),
        "absaddr32": Ty("abs", "direct", rd_direct(4), lo=0, hi=M32, site_align=align32),
        "absaddr64": Ty("abs", "direct", rd_direct(8), lo=0, hi=(1 << 64) - 1, site_align=align64),
    }


def _riscv_types():
    t = _data_types()
    t.update({
        "b_imm12": Ty("pcrel", "refdis", rd_target, base=lambda I, F: I, lo=-4096, hi=4094, step=2),
        "b_imm20": Ty("pcrel", "refdis", rd_target, base=lambda I, F: I, lo=-(1 << 20), hi=(1 << 20) - 2, step=2),
        # %hi(S): upper 20 bits compensated for the sign of the lower 12 (RISC-V asm manual / psABI)
        "abs32_imm20": Ty("part", "refdis", rd_last, part=lambda D, I, F: ((D + 0x800) >> 12) & 0xFFFFF),
        "abs32_imm12": Ty("part", "refdis", rd_last, part=lambda D, I, F: sext(D, 12)),
        "rel_imm20": Ty("part", "refdis", rd_last, part=lambda D, I, F: ((D - F + 0x800) >> 12) & 0xFFFFF),
        # ppci's %pcrel_lo names the symbol itself and assumes the auipc directly in front of it (F - 4)
        "rel_imm12": Ty("part", "refdis", rd_last, part=lambda D, I, F: sext(D - (F - 4), 12)),
    })
    return t


def _rvc_types():
    t = _riscv_types()
    t.update({
        "bc_imm11": Ty("pcrel", "refdis", rd_target, base=lambda I, F: I, lo=-2048, hi=2046, step=2),
        "bc_imm8": Ty("pcrel", "refdis", rd_target, base=lambda I, F: I, lo=-256, hi=254, step=2),
        "cb_imm11": Ty("pcrel", "refdis", rd_target, base=lambda I, F: I, lo=-(1 << 20), hi=(1 << 20) - 2, step=2),
        "cbl_imm11": Ty("pcrel", "refdis", rd_target, base=lambda I, F: I, lo=-(1 << 20), hi=(1 << 20) - 2, step=2),
    })
    return t


def _types():
    T = {}
    t = _data_types(4, 4)
    t.update({
        # ELF-style S + A - P with the addend carrying the pc convention (-4: end of the 4-byte field)
        "rel32": Ty("pcrel", "refdis", rd_target, base=lambda I, F: F + 4, lo=-(1 << 31), hi=(1 << 31) - 1, adj=4),
        "jmp8": Ty("pcrel", "refdis", rd_target, base=lambda I, F: F + 1, lo=-128, hi=127),
        # [disp32] without base register: the displacement is sign-extended to 64 bits
        "abs32": Ty("abs", "refdis", rd_x86_mem, lo=-(1 << 31), hi=(1 << 31) - 1),
        "abs64": Ty("abs", "refdis", rd_last, lo=0, hi=(1 << 64) - 1),
    })
    T["x86_64"] = t
    t = _data_types()
    t.update({
        "imm24": Ty("pcrel", "refdis", rd_target, base=lambda I, F: I + 8, lo=-(1 << 25), hi=(1 << 25) - 4, step=4),
        "ldr_imm12": Ty("pcrel", "refdis", rd_arm_lit, base=lambda I, F: I + 8, lo=-4095, hi=4095, gstep=4),
        # ADR = ADD/SUB rd, pc, #modified-immediate
        "adr_imm12": Ty("pcrel", "refdis", rd_arm_adr, base=lambda I, F: I + 8, lo=-0xFF000000, hi=0xFF000000,
                        extra=lambda v, D, I: arm_modimm(abs(v)), gstep=4, glo=-4095, ghi=4095),
    })
    T["arm"] = t
    t = _data_types()
    t.update({
        "lit8": Ty("pcrel", "refdis", rd_thumb_lit, base=lambda I, F: _al(I + 4, 4), lo=0, hi=1020, step=4),
        "wrap_new11": Ty("pcrel", "refdis", rd_target, base=lambda I, F: I + 4, lo=-2048, hi=2046, step=2),
        "rel8": Ty("pcrel", "refdis", rd_target, base=lambda I, F: I + 4, lo=-256, hi=254, step=2),
        "bl_imm11": Ty("pcrel", "refdis", rd_target, base=lambda I, F: I + 4, lo=-(1 << 24), hi=(1 << 24) - 2, step=2),
        "b_imm11_imm6": Ty("pcrel", "refdis", rd_target, base=lambda I, F: I + 4, lo=-(1 << 20), hi=(1 << 20) - 2,
                           step=2),
    })
    T["arm:thumb"] = t
    T["riscv"] = _riscv_types()
    T["riscv:rvc"] = _rvc_types()
    t = _data_types()
    t.update({
        # J/JAL: target = (PC+4)[31:28] : instr_index : 00
        "abs26": Ty("abs", "refdis", rd_mips_j, lo=0, hi=M32, step=4,
                    extra=lambda v, D, I: (D >> 28) == ((I + 4) >> 28)),
    })
    T["mips"] = t
    t = _data_types()
    t.update({
        "rel10": Ty("pcrel", "refdis", rd_rel_insn, base=lambda I, F: I + 2, lo=-1024, hi=1022, step=2),
        "abs16": Ty("abs", "refdis", rd_msp430_abs, lo=0, hi=0xFFFF),
    })
    T["msp430"] = t
    t = _data_types()
    t.update({
        "12bit": Ty("pcrel", "manual", weak_avr_rel(12), base=lambda I, F: I + 2, lo=-4096, hi=4094, step=2),
        "7bit": Ty("pcrel", "manual", weak_avr_rel(7), base=lambda I, F: I + 2, lo=-128, hi=126, step=2),
        "ldilo": Ty("part", "refdis", rd_last, part=lambda D, I, F: D & 0xFF),
        "ldihi": Ty("part", "refdis", rd_last, part=lambda D, I, F: (D >> 8) & 0xFF),
    })
    T["avr"] = t
    t = _data_types()
    t.update({
        "rel16": Ty("pcrel", "refdis", rd_m68k_pc, base=lambda I, F: F, lo=-32768, hi=32767),
        "branch_rel32": Ty("pcrel", "manual", weak_m68k_long, base=lambda I, F: F, lo=-(1 << 31), hi=(1 << 31) - 1),
    })
    T["m68k"] = t
    t = _data_types()
    t.update({
        "jump": Ty("pcrel", "manual", weak_or1k_jump, base=lambda I, F: I, lo=-(1 << 27), hi=(1 << 27) - 4, step=4),
        "OR32_CONST": Ty("part", "manual", weak_or1k_k, part=lambda D, I, F: D & 0xFFFF),
        "OR32_CONSTH": Ty("part", "manual", weak_or1k_k, part=lambda D, I, F: (D >> 16) & 0xFFFF),
    })
    T["or1k"] = t
    t = _data_types()
    t.update({
        "imm8": Ty("pcrel", "manual", weak_xt_imm8, base=lambda I, F: I + 4, lo=-128, hi=127),
        "bri12": Ty("pcrel", "manual", weak_xt_bri12, base=lambda I, F: I + 4, lo=-2048, hi=2047),
        "call18": Ty("pcrel", "manual", weak_xt_j, base=lambda I, F: I + 4, lo=-(1 << 17), hi=(1 << 17) - 1),
        "call0": Ty("pcrel", "manual", weak_xt_call0, base=lambda I, F: _al(I, 4) + 4, lo=-(1 << 19),
                    hi=(1 << 19) - 4, step=4),
        "ri16": Ty("pcrel", "manual", weak_xt_l32r, base=lambda I, F: _al(I + 3, 4), lo=-(1 << 18), hi=-4, step=4),
    })
    T["xtensa"] = t
    T["microblaze"] = {
        "R_MICROBLAZE_64_PCREL": Ty("pcrel", "manual", weak_mb(True), base=lambda I, F: F + 4, lo=-(1 << 31),
                                    hi=(1 << 31) - 1),
        "R_MICROBLAZE_64_ABS": Ty("abs", "manual", weak_mb(False), lo=0, hi=M32),
    }
    t = _data_types()
    t.update({
        "abs16": Ty("abs", "manual", weak_6502_abs, lo=0, hi=0xFFFF),
        "rel8": Ty("pcrel", "manual", weak_6502_rel, base=lambda I, F: F + 1, lo=-128, hi=127),
    })
    T["mcs6500"] = t
    return T


TYPES = _types()

ISA = {
    # addr_bits: addresses the generator uses are < 2**addr_bits; ialign: instruction alignment; vma: address the
    # reference decoder is told the chunks live at (only the displacement printed relative to it is used)
    "x86_64": dict(addr_bits=40, ialign=1, vma=1 << 40),
    "arm": dict(addr_bits=31, ialign=4, vma=1 << 30),
    "arm:thumb": dict(addr_bits=31, ialign=2, vma=1 << 30),
    "riscv": dict(addr_bits=31, ialign=4, vma=1 << 30),
    "riscv:rvc": dict(addr_bits=31, ialign=2, vma=1 << 30),
    "mips": dict(addr_bits=31, ialign=4, vma=0),
    "msp430": dict(addr_bits=16, ialign=2, vma=0),
    "avr": dict(addr_bits=16, ialign=2, vma=0),
    "m68k": dict(addr_bits=31, ialign=2, vma=0),
    "or1k": dict(addr_bits=31, ialign=4, vma=0),
    "xtensa": dict(addr_bits=31, ialign=1, vma=0),
    "microblaze": dict(addr_bits=31, ialign=4, vma=0),
    "mcs6500": dict(addr_bits=16, ialign=1, vma=0),
}

# relocation types whose distances the generator keeps out of the rvc shrink window (C13's business)
RELAXABLE = ("cb_imm11", "cbl_imm11")
# types that follow the ELF convention and honour the addend (all others document A = 0 only, see F_ADDEND)
ADDEND_TYPES = {("x86_64", "rel32")}

# ---- what the open findings switch off (found by this check; see known_findings.d/C11.json) ----------------
# (isa, type) -> number of field bits n: wrap_negative(value, n) also accepts [2^(n-1), 2^n - 1]
DUAL = {
    ("riscv", "b_imm12"): (12, 2), ("riscv", "b_imm20"): (20, 2),
    ("riscv:rvc", "b_imm12"): (12, 2), ("riscv:rvc", "b_imm20"): (20, 2), ("riscv:rvc", "bc_imm11"): (11, 2),
    ("riscv:rvc", "bc_imm8"): (8, 2), ("riscv:rvc", "cb_imm11"): (20, 2), ("riscv:rvc", "cbl_imm11"): (20, 2),
    ("arm", "imm24"): (24, 4),
}
# the same acceptance of the upper half on xtensa belongs to F_XTRANGE (one repair covers that file)
DUAL_XT = {("xtensa", "call18"): (18, 1), ("xtensa", "call0"): (18, 4), ("xtensa", "ri16"): (16, 4),
           ("xtensa", "bri12"): (12, 1)}
# types that store the value without any range check
NOCHECK = {("x86_64", "jmp8"), ("x86_64", "rel32"), ("x86_64", "abs32"),
           ("m68k", "rel16"), ("m68k", "branch_rel32"), ("or1k", "jump"),
           ("microblaze", "R_MICROBLAZE_64_PCREL"), ("microblaze", "R_MICROBLAZE_64_ABS"),
           ("mcs6500", "rel8")}


# ---------------------------------------------------------------------------
# carriers


def relabel(cls, assignment, names):
    """Replace every label operand of an isaenum assignment by the next name of `names` (in operand order)."""
    from vlib import isaenum

    out = []
    for op, a in zip(cls.syntax.formal_arguments, assignment):
        k = isaenum.operand_kind(op)
        if k == "str":
            out.append(names.pop(0) if names else a)
        elif k == "alt":
            out.append({"alt": a["alt"], "args": relabel(op._cls[a["alt"]], a["args"], names)})
        else:
            out.append(a)
    return out


def count_labels(cls, assignment):
    from vlib import isaenum

    n = 0
    for op, a in zip(cls.syntax.formal_arguments, assignment):
        k = isaenum.operand_kind(op)
        if k == "str":
            n += 1
        elif k == "alt":
            n += count_labels(op._cls[a["alt"]], a["args"])
    return n


def emit_item(arch, inst):
    """(bytes, [(type, offset, addend, symbol name)]) of an instruction object emitted through BinaryOutputStream."""
    from ppci.binutils.objectfile import ObjectFile
    from ppci.binutils.outstream import BinaryOutputStream
    from ppci.arch.generic_instructions import SectionInstruction

    obj = ObjectFile(arch)
    st = BinaryOutputStream(obj)
    st.emit(SectionInstruction("s"))
    st.emit(inst)
    sec = obj.get_section("s")
    names = {s.id: s.name for s in obj.symbols}
    rels = [(r.reloc_type, r.offset, r.addend, names[r.symbol_id]) for r in obj.relocations]
    return bytes(sec.data), rels


def microblaze_carriers():
    from ppci.arch.microblaze import instructions as mi
    from ppci.arch.generic_instructions import ArtificialInstruction

    out = []
    for name in sorted(dir(mi)):
        c = getattr(mi, name)
        if isinstance(c, type) and issubclass(c, ArtificialInstruction) and c is not ArtificialInstruction \
                and getattr(c, "syntax", None) is not None:
            out.append(c)
    return out


class Carriers:
    """Relocation-carrying instruction templates of one ISA: {type: [template]} with
    template = {"class": key, "assignment": a (labels = placeholders), "nlabels": n}"""

    def __init__(self, isa, r, avoid=()):
        from vlib import isaenum, oprange

        self.isa = isa
        self.arch = isaenum.get_arch(isa)
        self.by_type = {}
        self.errors = 0
        en = isaenum.Enumerator(isa, r)
        seen = set()
        cls_list = [(ci.key, ci.cls) for ci in isaenum.classes(isa)]
        if isa == "microblaze":
            cls_list += [("mb:" + c.__name__, c) for c in microblaze_carriers()]
        self.classes = dict(cls_list)
        for key, cls in cls_list:
            if F_SSE in avoid and cls.__module__.endswith("sse2_instructions"):
                continue
            for attempt in range(10):
                try:
                    ci = _CI(key, cls)
                    a = en._assign(cls, cls, (key,), [])
                    a = oprange.zeroed(cls, a, 0 if attempt % 3 else 4) if attempt % 2 == 0 else a
                    n = count_labels(cls, a)
                    if n == 0:
                        continue
                    a = relabel(cls, a, ["P%d" % i for i in range(n)])
                    inst = isaenum.build(isa, cls, a)
                    data, rels = emit_item(self.arch, inst)
                except BaseException:
                    self.errors += 1
                    continue
                if not rels or not data:
                    continue
                if any(not isinstance(x[3], str) or not x[3].startswith("P") for x in rels):
                    continue
                sig = (key, tuple((x[0], x[1]) for x in rels), _shape(a))
                if sig in seen:
                    continue
                seen.add(sig)
                tpl = {"class": key, "assignment": a, "nlabels": n, "types": [x[0] for x in rels]}
                for x in rels:
                    self.by_type.setdefault(x[0], []).append(tpl)

    def instantiate(self, tpl, names):
        from vlib import isaenum

        cls = self.classes[tpl["class"]]
        a = relabel(cls, tpl["assignment"], list(names))
        inst = isaenum.build(self.isa, cls, a)
        return a, emit_item(self.arch, inst)


class _CI:
    def __init__(self, key, cls):
        self.key, self.cls = key, cls


def _shape(a):
    return tuple((x["alt"], _shape(x["args"])) if isinstance(x, dict) and "alt" in x else None for x in a)


# ---------------------------------------------------------------------------
# case generation


def pick_value(r, ty, want_bad, avoid, isa, typ):
    """A field value v (relative to base for pcrel, absolute for abs) and its class tag."""
    lo, hi, st = ty.glo, ty.ghi, ty.gstep
    if not want_bad:
        lo, hi = -((-lo) // st) * st, hi - hi % st       # the window in multiples of the generator's step
        k = r.random()
        if k < 0.22:
            return hi - st * r.choice([0, 0, 1, 2, 3]), "edge-hi"
        if k < 0.44:
            v = lo + st * r.choice([0, 0, 1, 2, 3])
            return v, "edge-lo"
        if k < 0.56:
            return st * r.choice([0, 1, -1, 2, -2, 3]), "small"
        if k < 0.70:   # power-of-two boundaries inside the range (carry between sub-fields)
            b = 1 << r.randrange(1, max(2, hi.bit_length()))
            v = r.choice([b, b - st, -b, -b + st, b + st])
            return v - v % st, "pow2"
        v = r.randrange(lo, hi + 1)
        return v - v % st, "random"
    k = r.random()
    if k < 0.3:
        return hi + st * r.choice([1, 1, 2, 3]), "bad-above"
    if k < 0.55:
        return lo - st * r.choice([1, 1, 2, 3]), "bad-below"
    if k < 0.7 and ty.step > 1:
        v = r.randrange(max(lo, -4096), min(hi, 4096))
        v -= v % ty.step
        return v + r.randrange(1, ty.step), "bad-misaligned"
    if k < 0.85:
        span = hi - lo + st
        return r.choice([hi + span, lo - span, hi + span // 2 + st, 2 * hi + 2 * st, 2 * lo - st]), "bad-wrap"
    v = r.randrange(hi + st, max(hi + 2 * st, 4 * (hi + st) + 64))
    v -= v % st
    return r.choice([v, lo - (v - hi)]), "bad-far"


def gen_case(r, isa, car, avoid, idx):
    """Build one case spec (json-able).  Addresses: the code section of the case is put at C; exact-distance
    targets get memories (or absolute symbols) of their own."""
    cfg = ISA[isa]
    types = TYPES[isa]
    abits = cfg["addr_bits"]
    space = 1 << abits
    ialign = cfg["ialign"]
    avail = [t for t in sorted(car.by_type) if t in types]
    reject = r.random() < 0.25
    nsites = r.choice([2, 3, 3, 4, 5, 6, 7])
    # where the code lives: leave room below and above for the widest type
    if abits <= 16:
        C = r.choice([0x2000, 0x4000, 0x5000, 0x8000, 0x9000, 0xC000]) + 16 * r.randrange(0, 64)
    elif isa == "x86_64":
        C = r.choice([1 << 33, (1 << 34) + 0x1000, 1 << 36, (1 << 38) + 0x40, 1 << 32]) + 16 * r.randrange(0, 4096)
    else:
        C = r.choice([1 << 28, (1 << 28) + (1 << 27), 1 << 29, (1 << 29) + (1 << 28), 0x30000000]) \
            + 16 * r.randrange(0, 4096)
    if isa == "mips" and F_MIPSREGION in avoid:
        C = r.choice([1 << 20, 1 << 24, 1 << 26, (1 << 27) + (1 << 26), 0x4000]) + 16 * r.randrange(0, 4096)
    code_align = r.choice([4, 4, 8, 16, 64]) if ialign >= 1 else 4
    C = _al(C, 64)
    nobj = r.choice([1, 1, 2, 2, 3])
    objs = [{"arch": isa, "sections": [], "symbols": [], "relocations": [], "images": [], "entry": None,
             "debug": None} for _ in range(nobj)]
    # code sections: object 0 always has "code"; later objects have "code" (merged) with prob.
    code_objs = [0] + [i for i in range(1, nobj) if r.random() < 0.7]
    chunks = {i: bytearray() for i in code_objs}        # section bytes under construction
    align_of = {i: (code_align if i == 0 else r.choice([4, 4, 8, 16])) for i in code_objs}
    sites = []
    symbols = []        # {"name", "mode", ...}
    extra = {}
    memories = []
    tsections = []      # (obj index, section spec)
    sym_id = [0] * nobj
    uniq = [0]

    def new_name(prefix):
        uniq[0] += 1
        return "%s%d_%d" % (prefix, idx % 1000, uniq[0])

    def add_symbol(oi, name, binding, value, section):
        sid = sym_id[oi]
        sym_id[oi] += r.choice([1, 1, 2, 7])
        objs[oi]["symbols"].append({"id": sid, "name": name, "binding": binding, "value": value,
                                    "section": section, "typ": r.choice(["func", "object"]), "size": 0})
        return sid

    def pad(oi, n, al):
        b = chunks[oi]
        n = n - n % al if al > 1 else n
        filler = r.random() < 0.5
        for _ in range(n):
            b.append(0 if filler else r.randrange(256))
        while len(b) % al:
            b.append(0)

    # 1. place the site instructions
    plan_sites = []
    bad_index = r.randrange(nsites) if reject else -1
    for si in range(nsites):
        typ = r.choice(avail)
        if r.random() < 0.35:     # favour instruction types over data words
            ins = [t for t in avail if not t.startswith("absaddr")]
            typ = r.choice(ins) if ins else typ
        tpl = r.choice(car.by_type[typ])
        plan_sites.append((typ, tpl))
    # riscv pairs: hi part directly followed by the lo part, same symbol
    pair_next = {}
    for si, (typ, tpl) in enumerate(list(plan_sites)):
        partner = {"abs32_imm20": "abs32_imm12", "rel_imm20": "rel_imm12", "ldihi": "ldilo", "ldilo": "ldihi",
                   "OR32_CONSTH": "OR32_CONST"}.get(typ)
        if partner and partner in car.by_type and r.random() < 0.6 and len(tpl["types"]) == 1:
            cands = [t for t in car.by_type[partner] if len(t["types"]) == 1]
            if cands:
                pair_next[si] = r.choice(cands)
    order = []
    for si, (typ, tpl) in enumerate(plan_sites):
        order.append((si, typ, tpl, None))
        if si in pair_next:
            order.append((si, pair_next[si]["types"][0], pair_next[si], si))
    placed = []
    for (si, typ, tpl, pair_of) in order:
        oi = r.choice(code_objs)
        if pair_of is not None:
            oi = placed[-1]["obj"]
        names = [new_name("t") for _ in range(tpl["nlabels"])]
        if pair_of is not None:
            names = [placed[-1]["symbols"][0]] * tpl["nlabels"]
        try:
            a, (data, rels) = car.instantiate(tpl, names)
        except BaseException:
            continue
        salign = max(ialign, max(types[x[0]].site_align for x in rels if x[0] in types))
        if pair_of is None:
            gap = r.choice([0, 0, ialign, 2 * ialign, 4, 8, 12, 16, 40, 64, 100]) if r.random() < 0.9 \
                else r.randrange(200, 5000)
            pad(oi, gap, ialign)
        while len(chunks[oi]) % salign:
            chunks[oi].append(0)
        off = len(chunks[oi])
        chunks[oi] += data
        placed.append({"obj": oi, "section": "code", "offset": off, "size": len(data), "class": tpl["class"],
                       "assignment": a, "unlinked": data.hex(), "symbols": names, "pair_of": pair_of, "plan": si,
                       "relocs": [{"type": x[0], "foff": x[1], "addend": x[2], "symbol": x[3]} for x in rels]})
    for oi in code_objs:
        pad(oi, r.choice([0, 0, 4, 8, 32]), ialign)
    # merge model of "code": objects in link order (optionally objects 0,1 partially linked first - same offsets
    # as long as the partial output's alignment (the maximum) does not add padding in front of it, which holds
    # because the partial link is the first input)
    moff = {}
    cur = 0
    for oi in code_objs:
        al = align_of[oi]
        cur = (cur + al - 1) // al * al
        moff[oi] = cur
        cur += len(chunks[oi])
    code_size = cur
    out_align = max(align_of.values())
    C = _al(C, out_align)
    memories.append({"name": "m_code", "location": C, "size": code_size + r.choice([0, 0, 1, 16, 0x1000]),
                     "inputs": [["section", "code"]]})
    used = [(C, C + code_size + 0x2000)]

    def free(lo, hi):
        return all(hi <= a or lo >= b for a, b in used)

    # 2. targets
    bad_site = None
    if reject and placed:
        cands = [i for i, p in enumerate(placed) if p["pair_of"] is None
                 and any(TYPES[isa][x["type"]].kind != "part" for x in p["relocs"])]
        bad_site = r.choice(cands) if cands else None
    symdefs = {}
    made_bad = []
    sym_addend = {}

    def define_at(name, S, A_site_obj):
        """make symbol `name` have value S; returns the mode used or None"""
        modes = ["abs", "abs", "sec", "sec", "sec", "def"]
        mode = r.choice(modes)
        if S < 0:
            return None
        if mode == "sec":
            al = r.choice([1, 1, 2, 4, 8])
            eff = max(4, al)           # an output section is at least 4-aligned (Section.alignment default)
            o = S % eff + eff * r.choice([0, 0, 0, 1, 3])
            size = o + r.choice([0, 0, 2, 4, 8, 16])
            L = S - o
            if L < 0 or L % eff or not free(L - 64, L + size + 64):
                mode = "abs"
            else:
                ti = len(tsections)
                sname = "t%d" % ti
                oi = r.randrange(nobj)
                objs[oi]["sections"].append({"name": sname, "alignment": al, "address": 0,
                                             "data": bytes(r.randrange(256) for _ in range(size)).hex()})
                tsections.append(sname)
                binding = "local" if (oi == A_site_obj and r.random() < 0.5) else "global"
                add_symbol(oi, name, binding, o, sname)
                memories.append({"name": "m_%s" % sname, "location": L, "size": size + r.choice([0, 0, 8]),
                                 "inputs": [["section", sname]]})
                used.append((L - 64, L + size + 64))
                symdefs[name] = {"mode": "sec", "obj": oi, "section": sname, "value": o, "binding": binding}
                return "sec"
        if mode == "def":
            if not free(S - 64, S + 64):
                mode = "abs"
            else:
                memories.append({"name": "m_d%d" % len(memories), "location": S, "size": r.choice([0, 16]),
                                 "inputs": [["symbol", name]]})
                used.append((S - 64, S + 64))
                symdefs[name] = {"mode": "def"}
                return "def"
        extra[name] = S
        symdefs[name] = {"mode": "abs"}
        return "abs"

    for pi, p in enumerate(placed):
        I = C + moff[p["obj"]] + p["offset"]
        for x in p["relocs"]:
            name = x["symbol"]
            ty = types[x["type"]]
            key = (isa, x["type"])
            A = 0
            if key in ADDEND_TYPES:
                A = r.choice([x["addend"], x["addend"], x["addend"], 0, -8, 3, 17])
            elif F_ADDEND not in avoid and r.random() < 0.3:
                A = r.choice([4, -4, 1, 8, -16, 100])
            if name in sym_addend:
                x["addend"] = sym_addend[name]     # both halves of a split reference carry the same addend
                x["vclass"] = "shared"
                continue          # second reference to an already defined symbol (pairs)
            x["addend"] = A
            sym_addend[name] = A
            F = I + x["foff"]
            want_bad = (pi == bad_site) and ty.kind != "part" and "bad" not in p
            emergent = (not want_bad) and r.random() < 0.3
            if emergent:
                # symbol inside a code section (own or another object's), at an instruction boundary
                oi = r.choice(code_objs)
                g = max(ialign, ty.gstep if ty.gstep <= 4 else 1)
                pos = _al(r.randrange(len(chunks[oi]) + 1), g)
                if oi == p["obj"] and r.random() < 0.6:      # close to the site
                    pos = max(0, min(_al(len(chunks[oi]), g), _al(p["offset"] + r.randrange(-200, 200), g)))
                S = C + moff[oi] + pos
                drop = False
                if x["type"] in RELAXABLE and -2048 - 64 <= S - I <= 2047 + 64:
                    drop = True
                elif not allowed(isa, x["type"], ty, S, A, I, F, avoid):
                    drop = True
                elif (isa, x["type"]) in (("arm", "ldr_imm12"), ("arm", "adr_imm12")) and \
                        ((S + A) % 4 or not -4095 <= ty.value(S, A, I, F) <= 4095):
                    drop = True
                elif not ty.representable(S, A, I, F) and r.random() < 0.9:
                    drop = True
                if not drop:
                    binding = "local" if (oi == p["obj"] and r.random() < 0.6) else "global"
                    add_symbol(oi, name, binding, pos, "code")
                    symdefs[name] = {"mode": "code", "obj": oi, "value": pos, "binding": binding}
                    x["vclass"] = "emergent"
                    continue
            v = None
            for _ in range(40):
                v, vclass = (0, "part") if ty.kind == "part" else pick_value(r, ty, want_bad, avoid, isa, x["type"])
                if ty.kind == "part":
                    S = r.choice([r.randrange(0, space), r.randrange(0, space), 0x7FF, 0x800, 0x801, 0xFFF, 0x1000,
                                  0x7FFFF800 % space, 0x7FFFF7FF % space, I + r.randrange(-4096, 4096),
                                  I + 0x7FF, I + 0x800 - 4, I - 0x800, I - 0x801 - 3, I + 0x10000, 0])
                    S = _al(S, ty.gstep) if S >= 0 else 0
                    vclass = "part"
                elif ty.kind == "pcrel":
                    S = ty.base(I, F) + v - A - ty.adj
                else:
                    S = v - A
                if S < 0 or (ty.kind == "abs" and S + A < 0):
                    continue      # negative "addresses" are outside the quantifier
                if S >= space and not (want_bad and ty.kind == "abs"):
                    continue
                if x["type"] in RELAXABLE and (-2048 - 64 <= S - I <= 2047 + 64 or (S + A) % 2):
                    continue      # narrowing (1): the shrink decision itself is C13's
                if (isa, x["type"]) in (("arm", "ldr_imm12"), ("arm", "adr_imm12")) and (S + A) % 4:
                    continue      # narrowing (3)
                if not allowed(isa, x["type"], ty, S, A, I, F, avoid):
                    continue
                if ty.kind != "part" and ty.representable(S, A, I, F) == bool(want_bad):
                    continue      # the drawn value must be on the intended side of the type's range
                if ty.kind != "part" and not want_bad and not ty.glo <= ty.value(S, A, I, F) <= ty.ghi:
                    continue      # ... and inside the window the generator is narrowed to (adr/ldr: +-4 KiB)
                break
            else:
                v = None
            if v is None:
                # fall back: a nearby, certainly fine target
                S = _al(I + 16 * ialign, 4)
                vclass = "fallback"
                if key not in ADDEND_TYPES:
                    A = x["addend"] = sym_addend[name] = 0
                if not ty.representable(S, A, I, F) or not allowed(isa, x["type"], ty, S, A, I, F, avoid):
                    x["drop"] = True
            x["vclass"] = vclass
            if want_bad and vclass.startswith("bad"):
                p["bad"] = True
                made_bad.append(pi)
            mode = define_at(name, S, p["obj"])
            if mode is None:
                extra[name] = max(S, 0)
                symdefs[name] = {"mode": "abs"}
    # 3. finish objects
    for oi in code_objs:
        objs[oi]["sections"].insert(0, {"name": "code", "alignment": align_of[oi], "address": 0,
                                        "data": bytes(chunks[oi]).hex()})
    for p in placed:
        for x in p["relocs"]:
            if x.get("drop"):
                continue
            ob = objs[p["obj"]]
            name = x["symbol"]
            sid = None
            for s in ob["symbols"]:
                if s["name"] == name:
                    sid = s["id"]
            if sid is None:   # reference to a symbol defined elsewhere: undefined global here
                sid = add_symbol(p["obj"], name, "global", None, None)
            ob["relocations"].append({"type": x["type"], "symbol_id": sid, "section": "code",
                                      "offset": p["offset"] + x["foff"], "addend": x["addend"]})
    # objects without any section would be odd but legal; give them an empty one
    for ob in objs:
        if not ob["sections"]:
            ob["sections"].append({"name": "empty", "alignment": 1, "address": 0, "data": ""})
    r.shuffle(memories)
    partial = nobj >= 2 and r.random() < 0.25
    return {"arch": isa, "index": idx, "objects": objs, "layout": {"memories": memories, "entry": None},
            "extra_symbols": extra, "partial": partial, "sites": placed, "moff": {str(k): v for k, v in moff.items()},
            "code_objs": code_objs, "C": C, "symdefs": symdefs, "reject": bool(made_bad)}


def allowed(isa, typ, ty, S, A, I, F, avoid):
    """avoid switches of the open findings: is this (type, value) outside every switched-off construct?"""
    key = (isa, typ)
    if ty.kind == "part":
        if F_ODD in avoid and key in ODD_REJECTED and (S % ODD_REJECTED[key] or (S + A) % ODD_REJECTED[key]):
            return False
        return True
    v = ty.value(S, A, I, F)
    rep = ty.representable(S, A, I, F)
    if F_DUAL in avoid and key in DUAL and not rep:
        n, sc = DUAL[key]
        if v % sc == 0 and (1 << (n - 1)) <= v // sc <= (1 << n) - 1:
            return False
    if F_XTRANGE in avoid and key in DUAL_XT and not rep:
        n, sc = DUAL_XT[key]
        if v % sc == 0 and (1 << (n - 1)) <= v // sc <= (1 << n) - 1:
            return False
    if F_NOCHECK in avoid and key in NOCHECK and not rep:
        return False
    if F_THUMBJ in avoid and key in (("arm:thumb", "bl_imm11"), ("arm:thumb", "b_imm11_imm6")):
        lim = (1 << 22) if typ == "bl_imm11" else (1 << 18)
        if not (-lim <= v < lim):
            return False
    if F_MIPSREGION in avoid and key == ("mips", "abs26") and ((S + A) >> 28 or (I + 4) >> 28):
        return False
    if F_EDGE in avoid and rep and key in EDGE_EXCLUDED and v in EDGE_EXCLUDED[key]:
        return False
    if F_XTRANGE in avoid and isa == "xtensa" and key in XT_WRONG and XT_WRONG[key](v):
        return False
    if F_ODD in avoid and key in ODD_REJECTED and (S % ODD_REJECTED[key] or (S + A) % ODD_REJECTED[key]):
        return False
    return True


# representable values that the range assertions of ppci leave out
EDGE_EXCLUDED = {
    ("msp430", "rel10"): (-1024, 1022),
    ("avr", "12bit"): (-4096,),
    ("avr", "7bit"): (-128,),
    ("arm:thumb", "rel8"): (254,),
    ("arm:thumb", "wrap_new11"): (2046,),
    ("arm:thumb", "bl_imm11"): (16777214,),
    ("arm:thumb", "b_imm11_imm6"): (1048574,),
    ("xtensa", "imm8"): (127,),
}
# (isa, type) -> alignment of the symbol value the relocation type insists on although the field can hold any address
ODD_REJECTED = {("riscv", "abs32_imm20"): 2, ("riscv", "abs32_imm12"): 2, ("riscv", "rel_imm20"): 2,
                ("riscv", "rel_imm12"): 2, ("riscv:rvc", "abs32_imm20"): 2, ("riscv:rvc", "abs32_imm12"): 2,
                ("riscv:rvc", "rel_imm20"): 2, ("riscv:rvc", "rel_imm12"): 2, ("msp430", "abs16"): 2}
# xtensa: J rejects the four lowest offsets; L32R (always backwards) accepts forward offsets and rejects the far half
XT_WRONG = {("xtensa", "call18"): lambda v: -131072 <= v <= -131069,
            ("xtensa", "ri16"): lambda v: v < -131072 or 0 <= v <= 4 * 65535}


# ---------------------------------------------------------------------------
# build, link, judge


def build_and_link(case):
    """-> ("ok", linked object) | ("raised", exception)"""
    from vlib import objgen
    from ppci.api import link

    objs = [objgen.build_object(s) for s in case["objects"]]
    lay = objgen.build_layout(case["layout"])
    try:
        if case.get("partial"):
            first = link(objs[:2], partial_link=True)
            objs = [first] + objs[2:]
        out = link(objs, layout=lay, extra_symbols=dict(case["extra_symbols"]) or None)
    except BaseException as e:  # judged by the caller
        return "raised", e
    return "ok", out


def model_symbol(case, out, name):
    """Expected final value of a symbol from the construction (section addresses are observed, offsets modelled)."""
    d = case["symdefs"].get(name)
    if d is None:
        return None
    if d["mode"] == "abs":
        return case["extra_symbols"][name]
    if d["mode"] == "def":
        for m in case["layout"]["memories"]:
            if ["symbol", name] in m["inputs"]:
                return m["location"]
        return None
    if d["mode"] == "sec":
        return out.get_section(d["section"]).address + d["value"]
    if d["mode"] == "code":
        return out.get_section("code").address + case["moff"][str(d["obj"])] + d["value"]
    return None


def out_symbol(out, name):
    """value of the symbol called `name` in the output symbol table (names are unique per case)"""
    hits = [s for s in out.symbols if s.name == name]
    if len(hits) != 1:
        return None
    try:
        return out.get_symbol_id_value(hits[0].id)
    except Exception:
        return None


def site_masks(case, oi):
    spans = []
    for p in case["sites"]:
        if p["obj"] == oi:
            spans.append((p["offset"], p["offset"] + p["size"]))
    return spans


def conservation(case, out):
    """Input bytes of every code input must sit at the modelled merge offset, outside relocation sites.
    Returns None or a description."""
    sec = out.get_section("code")
    data = bytes(sec.data)
    for oi in case["code_objs"]:
        src = bytes.fromhex(case["objects"][oi]["sections"][0]["data"])
        off = case["moff"][str(oi)]
        if off + len(src) > len(data):
            return "output section code is %d bytes, input %d expected at offset %d (+%d)" % (
                len(data), oi, off, len(src))
        spans = site_masks(case, oi)
        for i, b in enumerate(src):
            if data[off + i] != b and not any(a <= i < e for a, e in spans):
                return "byte %d of input %d (offset %d in output section code) is %02x, input has %02x, and it " \
                       "is not part of a relocation site" % (i, oi, off + i, data[off + i], b)
    return None


def judge_link(case, status, res, mon):
    """First stage: everything that needs no reference decode.  Returns list of pending site reads."""
    isa = case["arch"]
    types = TYPES[isa]
    ob = mon.observed
    # expected representability from the construction (symbol values modelled with the intended addresses)
    if status == "raised":
        exc = res
        from ppci.common import CompilerError

        ob["links"]["rejected" if case["reject"] else "rejected_emergent"] += 1
        ename = type(exc).__name__
        ob["exceptions"][ename] = ob["exceptions"].get(ename, 0) + 1
        # judge with intended addresses: section bases = memory locations
        unrep = []
        for p in case["sites"]:
            I = case["C"] + case["moff"][str(p["obj"])] + p["offset"]
            for x in p["relocs"]:
                if x.get("drop"):
                    continue
                S = intended_symbol(case, x["symbol"])
                ty = types[x["type"]]
                if S is None:
                    continue
                if not ty.representable(S, x["addend"], I, I + x["foff"]):
                    unrep.append((x["type"], ty.value(S, x["addend"], I, I + x["foff"])))
        mon.evals += 1
        if not unrep:
            mon.violation("%s: link raised %s: %s although every relocation value is representable" % (
                isa, ename, str(exc)[:120]), case, {"exception": "%s: %s" % (ename, exc)})
        else:
            for t, v in unrep:
                c = ob["types"].setdefault("%s/%s" % (isa, t), _tcount())
                c["rejected"] += 1
            if not isinstance(exc, CompilerError) and F_EXC not in mon.avoid:
                mon.violation("%s: unrepresentable %s value %d makes link raise %s instead of CompilerError" % (
                    isa, unrep[0][0], unrep[0][1], ename), case, {"exception": "%s: %s" % (ename, exc)})
        return []
    out = res
    ob["links"]["ok"] += 1
    if case.get("partial"):
        ob["links"]["through_partial_link"] += 1
    why = conservation(case, out)
    if why:
        mon.evals += 1
        mon.violation("%s: %s" % (isa, why), case, {})
        return []
    pend = []
    code = out.get_section("code")
    for pi, p in enumerate(case["sites"]):
        I = code.address + case["moff"][str(p["obj"])] + p["offset"]
        o = case["moff"][str(p["obj"])] + p["offset"]
        raw = bytes(code.data[o:o + p["size"]])
        for ri, x in enumerate(p["relocs"]):
            if x.get("drop"):
                continue
            Sm = model_symbol(case, out, x["symbol"])
            So = out_symbol(out, x["symbol"])
            mon.evals += 1
            if Sm is None or So is None or Sm != So:
                mon.violation("%s: symbol %s has value %r in the output symbol table, construction gives %r" % (
                    isa, x["symbol"], So, Sm), case, {"symbol": x["symbol"]})
                continue
            pend.append({"case": case, "site": pi, "rel": ri, "I": I, "raw": raw, "S": Sm})
    return pend


def intended_symbol(case, name):
    d = case["symdefs"].get(name)
    if d is None:
        return None
    if d["mode"] == "abs":
        return case["extra_symbols"][name]
    mems = case["layout"]["memories"]
    if d["mode"] == "def":
        for m in mems:
            if ["symbol", name] in m["inputs"]:
                return m["location"]
    if d["mode"] == "sec":
        for m in mems:
            if ["section", d["section"]] in m["inputs"]:
                return m["location"] + d["value"]
    if d["mode"] == "code":
        return case["C"] + case["moff"][str(d["obj"])] + d["value"]
    return None


def _tcount():
    return {"applied": 0, "near_edge": 0, "rejected": 0}


class Mon:
    def __init__(self, spec):
        self.spec = dict(spec)
        self.avoid = set(spec["avoid"])
        self.evals = 0
        self.viol = []
        self.samples = []
        self.hashes = set()
        self.observed = {"links": {"ok": 0, "rejected": 0, "rejected_emergent": 0, "through_partial_link": 0},
                         "exceptions": {}, "types": {}, "oracle": {"refdis": 0, "manual": 0, "direct": 0},
                         "near_edge": 0, "pairs_recombined": 0, "unreadable": {}, "modes": {}, "vclass": {},
                         "isas": {spec["arch"]: 1}, "same_shape_checked": 0, "carrier_types": {},
                         "types_without_carrier": {}}
        self.discarded = {}

    def violation(self, summary, case, extra):
        if len(self.viol) < 6:
            c = {"arch": case["arch"], "index": case["index"], "case": case}
            c.update(extra)
            self.viol.append({"summary": summary, "case": c,
                              "replay_spec": dict(self.spec, only_index=case["index"])})

    def disc(self, why):
        self.discarded[why] = self.discarded.get(why, 0) + 1


def run_shard(spec):
    from vlib import refdis

    isa = spec["arch"]
    if spec.get("only_index") is not None:
        indices = [spec["only_index"]]
    else:
        indices = [spec["slice"] + k * SLICES.get(spec["tier"], 2) for k in range(spec["n"])]
    mon = Mon(spec)
    if isa in STRONG and not refdis.available(isa):
        return {"evaluations": 0, "inconclusive": ["reference decoder for %s missing" % isa]}
    car = Carriers(isa, rng(spec["seed"], PROPERTY, "carriers/%s" % isa), mon.avoid)
    types = TYPES[isa]
    for t, lst in sorted(car.by_type.items()):
        mon.observed["carrier_types"]["%s/%s" % (isa, t)] = len(lst)
    arch_types = set(car.arch.isa.relocation_map)
    for t in sorted(arch_types):
        if t not in car.by_type or t not in types:
            mon.observed["types_without_carrier"]["%s/%s" % (isa, t)] = 1
    if not car.by_type:
        return {"evaluations": 0, "inconclusive": ["no relocation carrier found for %s" % isa]}
    pending = []
    for idx in indices:
        r = rng(spec["seed"], PROPERTY, "%s/%d" % (isa, idx))
        try:
            case = gen_case(r, isa, car, mon.avoid, idx)
        except Exception as e:  # generator trouble is mine
            import traceback

            return {"evaluations": mon.evals, "inconclusive": ["generator failed for %s/%d: %s" % (
                isa, idx, traceback.format_exc()[-400:])]}
        if not case["sites"]:
            mon.disc("no-site")
            continue
        status, res = build_and_link(case)
        pending.extend(judge_link(case, status, res, mon))
    # second stage: decode all pending sites (linked and unlinked bytes) in one reference run
    judge_sites(isa, pending, mon)
    hashes = sorted(mon.hashes)
    return {"evaluations": mon.evals, "nontrivial_hashes": hashes, "observed": mon.observed,
            "discarded": mon.discarded, "samples": mon.samples[:2], "violations": mon.viol}


def judge_sites(isa, pending, mon):
    from vlib import refdis

    types = TYPES[isa]
    cfg = ISA[isa]
    need_ref = isa in STRONG
    dec = {}
    if need_ref and pending:
        chunks = []
        keys = []
        seen = {}
        for q in pending:
            p = q["case"]["sites"][q["site"]]
            if types[p["relocs"][q["rel"]]["type"]].oracle != "refdis":
                continue
            for tag, b in (("l", q["raw"]), ("u", bytes.fromhex(p["unlinked"]))):
                k = (q["case"]["index"], q["site"], tag)
                if k in seen:
                    continue
                seen[k] = len(chunks)
                chunks.append(b)
                keys.append(k)
        B = 4000
        out = []
        for i in range(0, len(chunks), B):
            out.extend(refdis.decode(isa, chunks[i:i + B], vma=cfg["vma"]))
        for k, d in zip(keys, out):
            dec[k] = d
    reads = {}     # (case index, site) -> {rel index: (value read, expected, ...)} for pair recombination
    for q in pending:
        case = q["case"]
        p = case["sites"][q["site"]]
        x = p["relocs"][q["rel"]]
        ty = types[x["type"]]
        I, S, A = q["I"], q["S"], x["addend"]
        F = I + x["foff"]
        tkey = "%s/%s" % (isa, x["type"])
        tc = mon.observed["types"].setdefault(tkey, _tcount())
        ctx = Ctx()
        ctx.isa, ctx.I, ctx.F, ctx.size, ctx.raw, ctx.foff = isa, I, F, p["size"], q["raw"], x["foff"]
        ctx.text, ctx.atoms, ctx.caddr = "", [], 0
        if ty.oracle == "refdis":
            d = dec.get((case["index"], q["site"], "l"))
            du = dec.get((case["index"], q["site"], "u"))
            if d is None or d.status in ("missing", "tool-crash"):
                mon.disc("reference-tool-failed")
                continue
            ln = pick_line(d, x["foff"])
            lu = pick_line(du, x["foff"]) if du is not None else None
            if lu is None or refdis.is_invalid(lu[2]) or not tiles(du):
                # the reference cannot read the *unlinked* instruction either: carrier outside the reference's reach
                u = mon.observed["unreadable"]
                u["carrier:" + p["class"]] = u.get("carrier:" + p["class"], 0) + 1
                continue
            if ln is None or refdis.is_invalid(ln[2]) or ln[1] != lu[1] or ln[0] - d.offset != lu[0] - du.offset:
                mon.evals += 1
                mon.violation("%s %s: after linking the reference reads the site as %r, before linking as %r" % (
                    isa, x["type"], ln, lu), case, {"site": q["site"], "linked": q["raw"].hex()})
                continue
            rel0 = ln[0] - d.offset
            ctx.I, ctx.size, ctx.raw, ctx.foff = I + rel0, ln[1], q["raw"][rel0:], x["foff"] - rel0
            text = refdis.strip_comment(isa, ln[2]).strip().lower()
            nr = refdis.norm_ref(isa, ln[2])
            ctx.text = text
            ctx.atoms = nr[1] if nr else []
            ctx.caddr = cfg["vma"] + ln[0]
            # the relocation may only touch its field: same mnemonic and registers as before linking
            if lu is not None:
                nu = refdis.norm_ref(isa, lu[2])
                if nr and nu:
                    mon.observed["same_shape_checked"] += 1
                    regs_l = [a for a in nr[1] if not isinstance(a, int)]
                    regs_u = [a for a in nu[1] if not isinstance(a, int)]
                    # ARM ADR is ADD/SUB rd, pc, #imm: the relocation selects the operation (template: AND)
                    adr = x["type"] == "adr_imm12" and {nr[0], nu[0]} <= {"add", "sub", "adr", "and"}
                    same_m = nr[0] == nu[0] or adr
                    if not same_m or regs_l != regs_u:
                        if not adr:
                            mon.evals += 1
                            mon.violation("%s %s: linking changed the instruction from %r to %r" % (
                                isa, x["type"], lu[2], ln[2]), case, {"site": q["site"]})
                            continue
        try:
            got = ty.read(ctx)
        except Exception:
            got = None
        if got is None:
            u = mon.observed["unreadable"]
            u[tkey] = u.get(tkey, 0) + 1
            continue
        mon.evals += 1
        mon.observed["oracle"][ty.oracle] += 1
        rep = ty.representable(S, A, I, F)
        if ty.kind == "part":
            want = ty.part(S + A, I, F)
        else:
            want = S + A + ty.adj
        v = ty.value(S, A, I, F)
        vclass = x.get("vclass", "?")
        mon.observed["vclass"][vclass] = mon.observed["vclass"].get(vclass, 0) + 1
        mode = case["symdefs"].get(x["symbol"], {}).get("mode", "?")
        mon.observed["modes"][mode] = mon.observed["modes"].get(mode, 0) + 1
        near = ty.kind != "part" and (min(abs(v - ty.lo), abs(ty.hi - v)) <= 4 * ty.gstep or
                                      min(abs(v - ty.glo), abs(ty.ghi - v)) <= 4 * ty.gstep)
        if got != want:
            if ty.kind == "part":
                msg = "%s %s (%s): field holds part %#x, the part of symbol %s + addend = %#x is %#x; site at %#x" % (
                    isa, x["type"], p["class"], got, x["symbol"], S + A, want, I)
            else:
                msg = "%s %s (%s): field designates %#x, symbol %s + addend = %#x; site at %#x, value %d%s" % (
                    isa, x["type"], p["class"], got, x["symbol"], want, I, v,
                    "" if rep else " is NOT representable but the link succeeded")
            mon.violation(msg, case,
                {"site": q["site"], "rel": q["rel"], "read": got, "expected": want, "S": S, "A": A, "I": I,
                 "linked": q["raw"].hex(), "reference_text": ctx.text, "representable": rep})
            continue
        if not rep:
            mon.disc("table-says-unrepresentable-but-reference-reads-exact")
        tc["applied"] += 1
        if near:
            tc["near_edge"] += 1
            mon.observed["near_edge"] += 1
        if (S + A) != 0 and S != I:
            mon.hashes.add(h([isa, x["type"], p["class"], v, mode]))
        reads.setdefault((case["index"], p["plan"]), []).append((x["type"], got, ctx.I, F, S + A, p["pair_of"]))
        if len(mon.samples) < 2 and near and ty.oracle != "direct":
            mon.samples.append({"arch": isa, "type": x["type"], "class": p["class"], "site_address": I, "symbol": S,
                                "addend": A, "value": v, "linked_bytes": q["raw"].hex(),
                                "reference": ctx.text or "(manual decoder)", "designates": got})
    # split relocations recombined
    for key, lst in reads.items():
        if len(lst) != 2:
            continue
        byt = {t: (g, I, F, D) for t, g, I, F, D, _ in lst}
        mon_pair(isa, byt, mon, key)


def tiles(d):
    """the decoded lines partition the chunk exactly (the reference sees the item as whole instructions)"""
    pos = d.offset
    for off, nb, text in d.lines:
        if off != pos:
            return False
        pos += nb
    return pos == d.offset + d.size


def pick_line(d, foff):
    """the decoded line (offset, nbytes, text) of Decoded d that covers byte `foff` of the chunk"""
    if d is None:
        return None
    for off, nb, text in d.lines:
        if off - d.offset <= foff < off - d.offset + nb:
            return (off, nb, text)
    return None


def mon_pair(isa, byt, mon, key):
    def viol(msg):
        if len(mon.viol) < 6:
            mon.viol.append({"summary": msg, "case": {"arch": isa, "pair": {k: list(v) for k, v in byt.items()}},
                             "replay_spec": dict(mon.spec, only_index=key[0])})

    if "abs32_imm20" in byt and "abs32_imm12" in byt:
        hi, lo, D = byt["abs32_imm20"][0], byt["abs32_imm12"][0], byt["abs32_imm20"][3]
        mon.evals += 1
        mon.observed["pairs_recombined"] += 1
        if ((hi << 12) + lo) & M32 != D & M32:
            viol("%s lui/addi pair recombines to %#x, symbol + addend = %#x" % (isa, ((hi << 12) + lo) & M32, D))
    elif "rel_imm20" in byt and "rel_imm12" in byt:
        hi, lo = byt["rel_imm20"][0], byt["rel_imm12"][0]
        I, D = byt["rel_imm20"][1], byt["rel_imm20"][3]
        if byt["rel_imm12"][1] != I + 4:
            return
        mon.evals += 1
        mon.observed["pairs_recombined"] += 1
        if (I + (hi << 12) + lo) & M32 != D & M32:
            viol("%s auipc/lo12 pair at %#x recombines to %#x, symbol + addend = %#x" % (
                isa, I, (I + (hi << 12) + lo) & M32, D))
    elif "ldilo" in byt and "ldihi" in byt:
        mon.evals += 1
        mon.observed["pairs_recombined"] += 1
        D = byt["ldilo"][3]
        if (byt["ldihi"][0] << 8) | byt["ldilo"][0] != D & 0xFFFF:
            viol("avr ldi pair recombines to %#x, symbol + addend = %#x" % ((byt["ldihi"][0] << 8) | byt["ldilo"][0], D))
    elif "OR32_CONST" in byt and "OR32_CONSTH" in byt:
        mon.evals += 1
        mon.observed["pairs_recombined"] += 1
        D = byt["OR32_CONST"][3]
        if (byt["OR32_CONSTH"][0] << 16) | byt["OR32_CONST"][0] != D & M32:
            viol("or1k hi/lo pair recombines to %#x, symbol + addend = %#x" % (
                (byt["OR32_CONSTH"][0] << 16) | byt["OR32_CONST"][0], D))


# ---------------------------------------------------------------------------
# witness probes



def _mini(arch, code_hex, relocs, symbols, mems, extra=None, sections=()):
    """link one tiny object: relocs [(type, offset, symbol name, addend)], symbols [(name, section|None, value)],
    mems [(section name, location)] -> ("ok", linked object) | ("raised", exception)"""
    spec = {"arch": arch, "sections": [{"name": "code", "alignment": 4, "address": 0, "data": code_hex}] +
            [{"name": n, "alignment": 4, "address": 0, "data": d} for n, d in sections],
            "symbols": [], "relocations": [], "images": [], "entry": None, "debug": None}
    ids = {}
    for i, (name, sec, val) in enumerate(symbols):
        spec["symbols"].append({"id": i, "name": name, "binding": "global", "value": val, "section": sec,
                                "typ": "func", "size": 0})
        ids[name] = i
    for typ, off, name, add in relocs:
        spec["relocations"].append({"type": typ, "symbol_id": ids[name], "section": "code", "offset": off,
                                    "addend": add})
    lay = {"memories": [{"name": "m%d" % i, "location": loc, "size": 0x100000, "inputs": [["section", n]]}
                        for i, (n, loc) in enumerate(mems)], "entry": None}
    case = {"objects": [spec], "layout": lay, "extra_symbols": extra or {}, "partial": False}
    return build_and_link(case)


def _rv_target(out, off=0):
    from vlib import rv32emu

    sec = out.get_section("code")
    return rv32emu.decode(bytes(sec.data[off:off + 4]), pc=sec.address + off).target


def probe_addend():
    # jal ra at 0x1000 -> lab (0x1020) with addend 4: S + A = 0x1024
    st, out = _mini("riscv", "ef000000" + "13000000" * 15, [("b_imm20", 0, "lab", 4)], [("lab", "code", 0x20)],
                    [("code", 0x1000)])
    if st != "ok":
        return "link raised %r" % (out,)
    t = _rv_target(out)
    return None if t == 0x1024 else "riscv b_imm20 with addend 4 to lab=0x1020 links to %#x, S + A = 0x1024" % t


def probe_dual():
    st, out = _mini("riscv", "ef000000", [("b_imm20", 0, "far", 0)], [("far", None, None)], [("code", 0x200000)],
                    extra={"far": 0x300000})
    if st != "ok":
        return None
    t = _rv_target(out)
    return None if t == 0x300000 else "riscv jal at 0x200000 to 0x300000 (+1 MiB, not representable) links " \
                                      "without error and jumps to %#x" % t


def probe_nocheck():
    st, out = _mini("x86_64", "eb00", [("jmp8", 1, "back", 0)], [("back", None, None)], [("code", 0x1000)],
                    extra={"back": 0x1000 + 2 - 130})
    if st != "ok":
        return None
    b = out.get_section("code").data[1]
    t = 0x1002 + sext(b, 8)
    return None if t == 0x1002 - 130 else "x86_64 jmp8 over -130 bytes links without error; the byte %#04x jumps " \
                                          "to %#x instead of %#x" % (b, t, 0x1002 - 130)


def probe_exc():
    from ppci.common import CompilerError

    st, out = _mini("riscv", "63000000", [("b_imm12", 0, "far", 0)], [("far", None, None)], [("code", 0x10000)],
                    extra={"far": 0x10000 + 0x4000})
    if st == "ok":
        return "riscv beq over +16 KiB linked"
    return None if isinstance(out, CompilerError) else "riscv beq over +16 KiB (unrepresentable) makes link raise " \
                                                       "%s: %s" % (type(out).__name__, str(out)[:80])


def probe_edge():
    # thumb b (wrap_new11): largest forward offset 2046 -> target = P + 4 + 2046
    st, out = _mini("arm:thumb", "00e0", [("wrap_new11", 0, "t", 0)], [("t", None, None)], [("code", 0x8000)],
                    extra={"t": 0x8000 + 4 + 2046})
    if st == "ok":
        return None
    return "thumb b to P+4+2046 (imm11 = 0x3ff, representable) makes link raise %s %s" % (
        type(out).__name__, str(out)[:60])


def probe_odd():
    st, out = _mini("riscv", "b7020000", [("abs32_imm20", 0, "bytevar", 0)], [("bytevar", None, None)],
                    [("code", 0x1000)], extra={"bytevar": 0x20001})
    if st == "ok":
        return None
    return "riscv lui %%hi(bytevar) with bytevar = 0x20001 (odd data address) makes link raise %s" % type(out).__name__


def _thumb_bl_target(data, P):
    """ARM ARM A8.8.25 BL T1: S:I1:I2:imm10:imm11:0, I1 = NOT(J1 EOR S), I2 = NOT(J2 EOR S)"""
    h1 = data[0] | (data[1] << 8)
    h2 = data[2] | (data[3] << 8)
    S, imm10 = (h1 >> 10) & 1, h1 & 0x3FF
    J1, J2, imm11 = (h2 >> 13) & 1, (h2 >> 11) & 1, h2 & 0x7FF
    I1, I2 = 1 - (J1 ^ S), 1 - (J2 ^ S)
    v = (S << 24) | (I1 << 23) | (I2 << 22) | (imm10 << 12) | (imm11 << 1)
    return P + 4 + sext(v, 25)


def probe_thumbj():
    P = 0x2000000
    st, out = _mini("arm:thumb", "00f000f8", [("bl_imm11", 0, "t", 0)], [("t", None, None)], [("code", P)],
                    extra={"t": P + 4 + 0x500000})
    if st != "ok":
        return "link raised %r" % (out,)
    t = _thumb_bl_target(bytes(out.get_section("code").data[0:4]), P)
    return None if t == P + 4 + 0x500000 else "thumb bl over +5 MiB (inside +-16 MiB) links to %#x instead of %#x" % (
        t, P + 4 + 0x500000)


def probe_mips():
    st, out = _mini("mips", "0000000c", [("abs26", 0, "f", 0)], [("f", None, None)], [("code", 0x10000100)],
                    extra={"f": 0x10000000})
    if st == "ok":
        w = int.from_bytes(out.get_section("code").data[0:4], "little")
        t = ((0x10000104) & 0xF0000000) | ((w & 0x3FFFFFF) << 2)
        return None if t == 0x10000000 else "mips jal links to %#x" % t
    return "mips jal at 0x10000100 to 0x10000000 (same 256 MiB region) makes link raise %s: %s" % (
        type(out).__name__, str(out)[:60])


def probe_xtensa():
    P = 0x4000
    st, out = _mini("xtensa", "c10000", [("ri16", 0, "lit", 0)], [("lit", None, None)], [("code", P)],
                    extra={"lit": P + 16})
    if st != "ok":
        return None
    c = Ctx()
    c.raw, c.I = bytes(out.get_section("code").data[0:3]), P
    t = weak_xt_l32r(c)
    return None if t == P + 16 else "xtensa l32r to a literal 16 bytes AHEAD (L32R only reaches backwards) links " \
                                    "without error and loads from %#x" % t


def probe_sse():
    # cvtsi2ss xmm4, [lab]: f3 4c 0f 2a 24 25 <disp32>
    from vlib import isaenum

    arch = isaenum.get_arch("x86_64")
    from ppci.arch.x86_64 import sse2_instructions as sse, instructions as xi
    from ppci.arch.x86_64.registers import xmm4_single as XMM4

    inst = sse.Cvtsi2ss(XMM4, xi.RmAbsLabel("lab"))
    data, rels = emit_item(arch, inst)
    st, out = _mini("x86_64", data.hex(), [(rels[0][0], rels[0][1], "lab", 0)], [("lab", None, None)],
                    [("code", 0x1000)], extra={"lab": 0x11223344})
    if st != "ok":
        return "link raised %r" % (out,)
    got = bytes(out.get_section("code").data)
    want = data[:len(data) - 4] + (0x11223344).to_bytes(4, "little")
    return None if got == want else "cvtsi2ss xmm4, [lab] (bytes %s, disp32 at offset %d) is relocated at offset " \
                                    "%d: linked bytes %s" % (data.hex(), len(data) - 4, rels[0][1], got.hex())


PROBES = {F_ADDEND: probe_addend, F_DUAL: probe_dual, F_NOCHECK: probe_nocheck, F_EXC: probe_exc,
          F_EDGE: probe_edge, F_ODD: probe_odd, F_THUMBJ: probe_thumbj, F_MIPSREGION: probe_mips,
          F_XTRANGE: probe_xtensa, F_SSE: probe_sse}
