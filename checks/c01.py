"""C01 C front-end preserves the meaning of defined-behaviour C programs (DESIGN C01).

Oracle: the gcc -O0 executable of the same program (built with
-fsanitize=undefined -fno-sanitize-recover=all; a program that trips UBSan,
crashes or does not terminate under gcc is discarded).  Observed: the IR that
``ppci.api.c_to_ir`` returns, executed by vlib.refinterp; the ordered
report() arguments and entry()'s return value must equal gcc's output.
"""
import io
import os
import subprocess

from vlib.core import rng, h

PROPERTY = "C01"
RULE = ("vlib.cgen programs (all 10 integer types, conversions, promotions, signed/unsigned comparison, / % with "
        "negative operands, shifts, compound assignment, ++/--, pointers, pointer difference, arrays, structs, "
        "switch with fallthrough, goto, loops, short-circuit, ternary, recursion, function pointers), UB-free by "
        "construction and filtered by gcc UBSan; each compiled by ppci.api.c_to_ir(x86_64) and run by the "
        "reference interpreter on 3 argument vectors; compared with the gcc executable: report() sequence and "
        "return value; evaluations = (program, vector) comparisons; non-trivial = reference run with >= 30 IR "
        "instructions, >= 2 branches and >= 1 report, distinct by (source hash, vector)")
ASSUMPTIONS = ["gcc 12 -O0 implements C99 for UB-free programs (LP64, x86-64 SysV)",
               "vlib.refinterp implements IR semantics (cross-validated by C04 native execution and C24)",
               "implementation-defined behaviour fixed by gcc/SysV (narrowing conversion wraps, plain char unused) is "
               "part of the reference"]
MANIFEST_ENTRY = {
    "text": "Differential execution of front-end output (IR run by the reference interpreter) against gcc on "
            "generated UB-free programs.",
    "note": "C subset of vlib.cgen only (integer types, no floats in the deciding sweep); programs ppci rejects with "
            "a diagnostic are counted, not judged; open findings switch the affected constructs off.",
    "technique": "runtime monitoring: gcc (UBSan-filtered) as oracle for IR produced by c_to_ir, executed by a reference interpreter",
}


def plan(tier, seed, avoid):
    n, per = (480, 15) if tier == "quick" else (20000, 250)
    return [{"start": s, "count": per} for s in range(0, n, per)]


def floors(tier):
    return {"evaluations": 900, "distinct_nontrivial": 400, "observed.compared_programs": 300}


def gcc_reference(src, argvecs, workdir, tag):
    """-> ("ok", [outputs per vector]) | ("discard", reason)"""
    from vlib import cgen
    c = os.path.join(workdir, "p_%s.c" % tag)
    d = os.path.join(workdir, "driver.c")
    exe = os.path.join(workdir, "p_%s" % tag)
    with open(c, "w") as f:
        f.write(src)
    if not os.path.exists(d):
        with open(d, "w") as f:
            f.write(cgen.DRIVER)
    p = subprocess.run(["gcc", "-std=c99", "-w", "-O0", "-fsanitize=undefined", "-fno-sanitize-recover=all",
                        "-o", exe, c, d], capture_output=True, text=True, timeout=120)
    if p.returncode:
        return "discard", "gcc rejects: " + p.stderr.strip().splitlines()[0][-120:] if p.stderr.strip() else "gcc rejects"
    outs = []
    try:
        for vec in argvecs:
            try:
                q = subprocess.run([exe] + [str(a) for a in vec], capture_output=True, text=True, timeout=10)
            except subprocess.TimeoutExpired:
                return "discard", "gcc executable timeout"
            if q.returncode:
                return "discard", "UBSan/crash under gcc"
            outs.append(q.stdout.split("\n"))
    finally:
        for pth in (c, exe):
            try:
                os.unlink(pth)
            except OSError:
                pass
    return "ok", outs


def parse_out(lines):
    reports, ret = [], None
    for ln in lines:
        if ln.startswith("ret "):
            ret = int(ln[4:])
        elif ln:
            reports.append(int(ln))
    return reports, ret


def wrap(v, bits=64):
    v &= (1 << bits) - 1
    return v - (1 << bits) if v >> (bits - 1) else v


def run_shard(spec):
    from ppci import api
    from ppci.common import CompilerError
    from vlib import cgen
    from vlib.refinterp import Interp

    workdir = os.environ["VERIF_TMP"]
    evals = 0
    nontrivial = set()
    viol = []
    disc = {}
    obs = {"tags": {}, "compared_programs": 0, "ppci_diagnostics": {}, "ir_ops": {}}
    samples = []

    def discard(why):
        disc[why] = disc.get(why, 0) + 1

    for idx in range(spec["start"], spec["start"] + spec["count"]):
        r = rng(spec["seed"], PROPERTY, idx)
        cfg = {"avoid": spec["avoid"], "size": r.choice([12, 20, 26, 34])}
        src, info = cgen.gen_program(r, cfg)
        argvecs = cgen.gen_args(r, 3)
        case = {"id": "cgen/%s/%d" % (spec["seed"], idx), "index": idx}
        st, ref = gcc_reference(src, argvecs, workdir, idx)
        if st != "ok":
            discard(ref if ref.startswith("gcc rejects") and False else ref.split(":")[0])
            if ref.startswith("gcc rejects"):
                obs.setdefault("gcc_reject_samples", [])
                if len(obs["gcc_reject_samples"]) < 3:
                    obs["gcc_reject_samples"].append(ref[-150:])
            continue
        try:
            m = api.c_to_ir(io.StringIO(src), "x86_64")
        except CompilerError as e:
            msg = str(getattr(e, "msg", e))[:60]
            obs["ppci_diagnostics"][msg] = obs["ppci_diagnostics"].get(msg, 0) + 1
            discard("ppci diagnostic (outside the supported subset)")
            continue
        except Exception as e:
            import traceback
            viol.append({"summary": "c_to_ir raised %s: %s" % (type(e).__name__, str(e)[:120]),
                         "case": dict(case, source=src, traceback=traceback.format_exc()[-1500:]),
                         "replay_spec": dict(spec, start=idx, count=1)})
            continue
        it = Interp(m, ptr_size=8, count_ops=True)
        compared = False
        for k, vec in enumerate(argvecs):
            want_reports, want_ret = parse_out(ref[k])
            res = it.run("entry", vec, max_steps=400000)
            if res.status == "timeout":
                discard("reference interpreter step budget")
                continue
            evals += 1
            compared = True
            for op, n in res.ops.items():
                obs["ir_ops"][op] = obs["ir_ops"].get(op, 0) + n
            if res.status == "undefined":
                diff = "IR execution undefined (%s) although gcc+UBSan ran clean" % res.reason
            else:
                got_reports = [wrap(t[1][0]) if t[1] and isinstance(t[1][0], int) else t[1] for t in res.trace if t[0] == "report"]
                got_ret = res.retval
                diff = None
                if got_reports != want_reports:
                    n = next((i for i, (a, b) in enumerate(zip(got_reports, want_reports)) if a != b), min(len(got_reports), len(want_reports)))
                    diff = "report #%d: IR gives %s, gcc gives %s (of %d/%d reports)" % (
                        n, got_reports[n] if n < len(got_reports) else "<none>",
                        want_reports[n] if n < len(want_reports) else "<none>", len(got_reports), len(want_reports))
                elif got_ret != want_ret:
                    diff = "return value: IR gives %r, gcc gives %r" % (got_ret, want_ret)
                if res.steps >= 30 and res.branches >= 2 and want_reports:
                    nontrivial.add(h([src, vec]))
            if diff:
                if len(viol) < 12:
                    viol.append({"summary": "entry%r: %s" % (tuple(vec), diff),
                                 "case": dict(case, args=vec, source=src, gcc_output=ref[k][:60]),
                                 "replay_spec": dict(spec, start=idx, count=1)})
                break
        if compared:
            obs["compared_programs"] += 1
            for t in info["tags"]:
                obs["tags"][t] = obs["tags"].get(t, 0) + 1
            if len(samples) < 1 and idx % 5 == 0:
                samples.append({"case": case["id"], "args": argvecs, "source": src[:2500]})
    return {"evaluations": evals, "nontrivial_hashes": sorted(nontrivial), "observed": obs, "discarded": disc,
            "violations": viol, "samples": samples}


# ---- regression probes (expected values are what gcc prints) -----------------

def _probe(body, expected):
    def run():
        from ppci import api
        from vlib.refinterp import Interp
        src = "void report(long);\nlong entry(long a0, long a1, long a2) {\n%s\n  return 0;\n}\n" % body
        try:
            m = api.c_to_ir(io.StringIO(src), "x86_64")
        except Exception as e:
            return "c_to_ir raised %s: %s" % (type(e).__name__, str(e)[:100])
        res = Interp(m, ptr_size=8).run("entry", [0, 1, 2])
        if res.status != "ok":
            return "IR run %s: %s" % (res.status, res.reason)
        got = [wrap(t[1][0]) for t in res.trace]
        if got != expected:
            return "reports %r, a conforming compiler gives %r" % (got, expected)
        return None
    return run


PROBES = {
    "c-comparison-no-promotion": _probe(
        "  signed char a = -1; unsigned char b = 255; report(a == b); report(a < b);", [0, 1]),
    "c-unary-no-promotion": _probe(
        "  unsigned short us = 1; report((-us) < 0); report((~us) < 0); unsigned char uc = 200; report(-uc); report(~uc);",
        [1, 1, -200, -201]),
    "c-shift-uses-common-type": _probe(
        "  unsigned int u = 0x80000001u; long sh = 1; report((long)(u << sh)); report((long)((u << sh) >> sh));", [2, 1]),
    "c-common-type-longlong-vs-ulong": _probe(
        "  long long ll = -1; unsigned long ul = 1; report(ll < ul); report((long)((ll / ul) > 0));", [0, 1]),
    "c-condition-coerced-to-int": _probe(
        "  double d = 0.5; long big = 0x100000000l; if (d) report(1); else report(0); report(d ? 10 : 20);"
        " report(big ? 10 : 20); report(!d);", [1, 10, 10, 0]),
    "c-compound-div-mod-shr-in-lhs-type": _probe(
        "  unsigned char uc = 200; uc /= -3; report(uc); unsigned int ui = 7; ui /= -2l; report(ui);"
        " int i = 10; i /= 0.3; report(i); signed char sc = -100; sc >>= 2; report(sc);", [190, 4294967293, 33, -25]),
    "c-ternary-arms-not-converted": _probe(
        "  signed char sc = -25; unsigned char uc = 255; report((short)7 | (a0 ? uc : sc)); report(sizeof(a0 ? uc : sc));",
        [-25, 4]),
    "equality-parsed-at-relational-precedence": _probe("  report(1 < 2 == 2 < 3); report(3 > 2 != 0 < 1);", [1, 0]),
}
