"""C38 constant folding == run-time arithmetic (DESIGN C38).

For each (type, operator, a, b): build a one-block function computing
``a op b`` on Const operands (many per module), run the real ConstantFolder
alone, and compare the Const that now feeds each observable with the
reference interpreter's evaluation of the *unfolded* module.  Also chained
forms ``(y op c1) op c2`` (y a parameter, 16 values) and constant casts.
The operator table is read from the live ``ConstantFolder().ops`` so added
operators are followed.
"""
from vlib.core import rng, h

PROPERTY = "C38"
RULE = ("i8/u8: all 2^16 operand pairs for every operator in the live ConstantFolder().ops table (exhaustive); "
        "16/32/64-bit: cross product of boundary values plus random pairs; every int->int cast on boundary values; "
        "chains (y op1 c1) op2 c2 for every combination of + and -; oracle = vlib.refinterp on the unfolded function; undefined operations "
        "(zero divisor, shift count outside [0,width)) are outside the quantifier: counted, never judged; "
        "non-trivial = pair with both operands non-zero; distinct by construction (shards partition the space)")
ASSUMPTIONS = ["vlib.refinterp implements IR integer semantics (wrap-around, truncating / and %, arithmetic >> on signed)"]
MANIFEST_ENTRY = {
    "text": "Exhaustive 8-bit and boundary/random wide-operand comparison of the real ConstantFolder pass against "
            "run-time evaluation by the reference interpreter, including range of the folded constants.",
    "note": "Only the ConstantFolder pass is driven here; folding inside other passes is covered by C02.",
    "technique": "runtime monitoring: reference interpreter vs constants produced by the real ConstantFolder pass",
}
WIDE = ["i16", "u16", "i32", "u32", "i64", "u64"]


def EXHAUSTIVE(tier):
    return True


def plan(tier, seed, avoid):
    specs = []
    for ty in ("i8", "u8"):
        for lo in range(0, 256, 16):
            specs.append({"part": "pairs8", "ty": ty, "a_lo": lo, "a_hi": lo + 16})
    for ty in WIDE:
        specs.append({"part": "wide", "ty": ty, "nrand": 300 if tier == "quick" else 20000})
    specs.append({"part": "casts"})
    specs.append({"part": "chains", "n": 400 if tier == "quick" else 6000})
    return specs


def floors(tier):
    return {"evaluations": 300000, "observed.folded": 100000, "observed.ops": 5}


def T(name):
    from ppci import ir
    return ir.get_ty(name)


def rng_range(ty):
    if ty.signed:
        return -(1 << (ty.bits - 1)), (1 << (ty.bits - 1)) - 1
    return 0, (1 << ty.bits) - 1


def defined(op, a, b, ty):
    if op in ("/", "%"):
        lo, _ = rng_range(ty)
        return b != 0 and not (ty.signed and a == lo and b == -1)
    if op in ("<<", ">>", "rol", "ror"):
        return 0 <= b < ty.bits
    return True


class Batch:
    """Many independent 'r = a op b; store r' computations in one function,
    results observed through one global array."""

    def __init__(self, ty):
        from ppci import ir
        self.ir = ir
        self.ty = ty
        self.items = []

    def build(self, items):
        ir = self.ir
        ty = self.ty
        m = ir.Module("fold")
        n = len(items)
        g = ir.Variable("out", ir.Binding.GLOBAL, ty.size * n, ty.size, value=bytes(ty.size * n))
        m.add_variable(g)
        f = ir.Procedure("f", ir.Binding.GLOBAL)
        m.add_function(f)
        b = ir.Block("b")
        f.add_block(b)
        f.entry = b
        self.results = []
        for k, (op, av, bv) in enumerate(items):
            a = ir.Const(av, "a%d" % k, ty)
            c = ir.Const(bv, "b%d" % k, ty)
            b.add_instruction(a)
            b.add_instruction(c)
            r = ir.Binop(a, op, c, "r%d" % k, ty)
            b.add_instruction(r)
            o = ir.Const(k * ty.size, "o%d" % k, ir.ptr)
            b.add_instruction(o)
            p = ir.Binop(g, "+", o, "p%d" % k, ir.ptr)
            b.add_instruction(p)
            st = ir.Store(r, p)
            b.add_instruction(st)
            self.results.append(st)
        b.add_instruction(ir.Exit())
        return m


def run_pairs(m_items, ty, ops, mon):
    """m_items: list of (op, a, b) all defined or not; judged per item."""
    from ppci import ir
    from ppci.opt import ConstantFolder
    from vlib.refinterp import Interp
    import struct

    defined_items = [it for it in m_items if defined(it[0], it[1], it[2], ty)]
    undefined_items = [it for it in m_items if not defined(it[0], it[1], it[2], ty)]
    for items, is_def in ((defined_items, True), (undefined_items, False)):
        for start in range(0, len(items), 512):
            chunk = items[start:start + 512]
            if not chunk:
                continue
            bt = Batch(ty)
            m = bt.build(chunk)
            want = None
            if is_def:
                res = Interp(m).run("f", [])
                if res.status != "ok":
                    mon["viol"].append({"summary": "reference run of defined operations is %s: %s" % (res.status, res.reason),
                                        "case": {"ty": ty.name, "items": chunk[:5]}})
                    continue
                raw = bytes.fromhex("".join(x for x in res.globals["out"] if isinstance(x, str)))
                want = [int.from_bytes(raw[i * ty.size:(i + 1) * ty.size], "little", signed=ty.signed) for i in range(len(chunk))]
            try:
                ConstantFolder().run(m)
            except Exception as e:
                if not is_def:
                    # outside C38's quantifier (operation undefined); a crash here is C03's business
                    mon["raised_on_undefined"] = mon.get("raised_on_undefined", 0) + 1
                    continue
                mon["viol"].append({"summary": "ConstantFolder raised %s: %s on defined %s operands (e.g. %r)" % (
                    type(e).__name__, e, ty.name, chunk[0]),
                    "case": {"ty": ty.name, "defined": is_def, "items": chunk[:20]}})
                continue
            lo, hi = rng_range(ty)
            for k, st in enumerate(bt.results):
                v = st.value
                op, av, bv = chunk[k]
                mon["evals"] += 1
                mon["ops"][op] = mon["ops"].get(op, 0) + 1
                if isinstance(v, ir.Const):
                    mon["folded"] += 1
                    if av and bv:
                        mon["nontrivial"] += 1
                    if not is_def:
                        mon["undefined_folded"] += 1
                        continue
                    if v.value != want[k] or not (lo <= v.value <= hi):
                        if len(mon["viol"]) < 8:
                            mon["viol"].append({
                                "summary": "%s: %d %s %d folded to %r, run time gives %d" % (ty.name, av, op, bv, v.value, want[k]),
                                "case": {"ty": ty.name, "op": op, "a": av, "b": bv, "folded": v.value, "runtime": want[k]}})
                    elif len(mon["samples"]) < 3 and av < 0 and bv > 1:
                        mon["samples"].append({"ty": ty.name, "op": op, "a": av, "b": bv, "folded": v.value})
                else:
                    mon["not_folded"] += 1


def boundary(ty, r, n):
    lo, hi = rng_range(ty)
    vals = {0, 1, 2, 3, hi, hi - 1, lo, lo + 1, (hi + 1) // 2, (hi + 1) // 2 - 1, (hi + 1) // 2 + 1, 7, 10, ty.bits - 1, ty.bits}
    if ty.signed:
        vals |= {-1, -2, -3, -7, -10}
    vals = {v for v in vals if lo <= v <= hi}
    while len(vals) < n:
        vals.add(r.randint(lo, hi))
    return sorted(vals)


def run_shard(spec):
    from ppci import ir
    from ppci.opt import ConstantFolder

    mon = {"evals": 0, "folded": 0, "not_folded": 0, "undefined_folded": 0, "nontrivial": 0, "ops": {},
           "viol": [], "samples": []}
    ops = sorted(ConstantFolder().ops)
    part = spec["part"]
    r = rng(spec["seed"], PROPERTY, part + spec.get("ty", ""))
    if part == "pairs8":
        ty = T(spec["ty"])
        lo, hi = rng_range(ty)
        items = []
        for a in range(lo + spec["a_lo"], lo + spec["a_hi"]):
            for b in range(lo, hi + 1):
                for op in ops:
                    items.append((op, a, b))
        run_pairs(items, ty, ops, mon)
    elif part == "wide":
        ty = T(spec["ty"])
        bv = boundary(ty, r, 24)
        items = [(op, a, b) for a in bv for b in bv for op in ops]
        lo, hi = rng_range(ty)
        for _ in range(spec["nrand"]):
            a, b = r.randint(lo, hi), r.randint(lo, hi)
            if r.random() < 0.5:
                b = r.randrange(0, ty.bits)
            items.append((r.choice(ops), a, b))
        run_pairs(items, ty, ops, mon)
    elif part == "casts":
        run_casts(mon, r)
    elif part == "chains":
        run_chains(mon, r, spec["n"])
    return {"evaluations": mon["evals"], "nontrivial_count": mon["nontrivial"],
            "observed": {"folded": mon["folded"], "not_folded": mon["not_folded"],
                         "undefined_operand_pairs_folded": mon["undefined_folded"],
                         "folder_raised_on_undefined_batches": mon.get("raised_on_undefined", 0), "ops": mon["ops"]},
            "violations": mon["viol"][:8], "samples": mon["samples"]}


def run_casts(mon, r):
    from ppci import ir
    from ppci.opt import ConstantFolder
    from vlib.refinterp import Interp

    names = ["i8", "u8", "i16", "u16", "i32", "u32", "i64", "u64"]
    for s in names:
        for d in names:
            sty, dty = T(s), T(d)
            vals = boundary(sty, r, 40)
            m = ir.Module("casts")
            g = ir.Variable("out", ir.Binding.GLOBAL, dty.size * len(vals), dty.size, value=bytes(dty.size * len(vals)))
            m.add_variable(g)
            f = ir.Procedure("f", ir.Binding.GLOBAL)
            m.add_function(f)
            b = ir.Block("b")
            f.add_block(b)
            f.entry = b
            stores = []
            for k, v in enumerate(vals):
                c = ir.Const(v, "c%d" % k, sty)
                b.add_instruction(c)
                x = ir.Cast(c, "x%d" % k, dty)
                b.add_instruction(x)
                o = ir.Const(k * dty.size, "o%d" % k, ir.ptr)
                b.add_instruction(o)
                p = ir.Binop(g, "+", o, "p%d" % k, ir.ptr)
                b.add_instruction(p)
                st = ir.Store(x, p)
                b.add_instruction(st)
                stores.append(st)
            b.add_instruction(ir.Exit())
            res = Interp(m).run("f", [])
            raw = bytes.fromhex("".join(x for x in res.globals["out"] if isinstance(x, str)))
            want = [int.from_bytes(raw[i * dty.size:(i + 1) * dty.size], "little", signed=dty.signed) for i in range(len(vals))]
            try:
                ConstantFolder().run(m)
            except Exception as e:
                mon["viol"].append({"summary": "ConstantFolder raised %r on cast %s->%s" % (e, s, d), "case": {"s": s, "d": d}})
                continue
            lo, hi = rng_range(dty)
            for k, st in enumerate(stores):
                mon["evals"] += 1
                mon["ops"]["cast"] = mon["ops"].get("cast", 0) + 1
                v = st.value
                if isinstance(v, ir.Const):
                    mon["folded"] += 1
                    if vals[k]:
                        mon["nontrivial"] += 1
                    if v.value != want[k] or not lo <= v.value <= hi:
                        mon["viol"].append({"summary": "cast %s->%s of %d folded to %r, run time gives %d" % (s, d, vals[k], v.value, want[k]),
                                            "case": {"s": s, "d": d, "v": vals[k], "folded": v.value, "runtime": want[k]}})
                else:
                    mon["not_folded"] += 1


def run_chains(mon, r, n):
    from ppci import ir
    from ppci.opt import ConstantFolder
    from vlib.refinterp import Interp

    tys = ["i8", "u8", "i16", "u16", "i32", "u32", "i64", "u64", "f32", "f64"]
    for k in range(n):
        ty = T(r.choice(tys))
        op = r.choice("+-")
        op2 = r.choice("+-")   # inner and outer operator vary independently: (y + c1) - c2 etc.
        if ty.is_integer:
            bv = boundary(ty, r, 20)
            c1, c2 = r.choice(bv), r.choice(bv)
            ys = [r.choice(bv) for _ in range(16)]
        else:
            fv = [0.0, 1.0, -1.0, 1e10, -1e10, 1e-20, 0.1, 3.5, 1e300, -1e300, 16777216.0, 1.0000001]
            c1, c2 = r.choice(fv), r.choice(fv)
            ys = [r.choice(fv) for _ in range(16)]

        def build():
            m = ir.Module("chain")
            f = ir.Function("f", ir.Binding.GLOBAL, ty)
            m.add_function(f)
            y = ir.Parameter("y", ty)
            f.add_parameter(y)
            b = ir.Block("b")
            f.add_block(b)
            f.entry = b
            a = ir.Const(c1, "c1", ty)
            c = ir.Const(c2, "c2", ty)
            b.add_instruction(a)
            b.add_instruction(c)
            t = ir.Binop(y, op, a, "t", ty)
            b.add_instruction(t)
            u = ir.Binop(t, op2, c, "u", ty)
            b.add_instruction(u)
            b.add_instruction(ir.Return(u))
            return m
        m0, m1 = build(), build()
        try:
            ConstantFolder().run(m1)
        except Exception as e:
            mon["viol"].append({"summary": "ConstantFolder raised %r on chain" % (e,), "case": {"ty": ty.name, "c1": c1, "c2": c2, "op": op}})
            continue
        consts = [i for i in m1.functions[0].blocks[0] if isinstance(i, ir.Const)]
        if ty.is_integer:
            lo, hi = rng_range(ty)
            for cst in consts:
                if not lo <= cst.value <= hi:
                    mon["viol"].append({"summary": "chain fold produced %s constant %r outside the type's range ((y %s %r) %s %r)" % (
                        ty.name, cst.value, op, c1, op, c2), "case": {"ty": ty.name, "c1": c1, "c2": c2, "op": op}})
                    break
        i0, i1 = Interp(m0), Interp(m1)
        for y in ys:
            a, b = i0.run("f", [y]), i1.run("f", [y])
            mon["evals"] += 1
            mon["ops"]["chain" + op + op2] = mon["ops"].get("chain" + op + op2, 0) + 1
            if len(consts) > 2:
                mon["folded"] += 1
                mon["nontrivial"] += 1
            if a.status == "ok" and (b.status != "ok" or a.retval != b.retval):
                if len(mon["viol"]) < 8:
                    mon["viol"].append({"summary": "%s: (y %s %r) %s %r with y=%r gives %r before and %r after folding" % (
                        ty.name, op, c1, op2, c2, y, a.retval, b.retval), "case": {"ty": ty.name, "c1": c1, "c2": c2, "op": op, "op2": op2, "y": y}})
                break


# ---- regression probes for repaired defects
def _probe(ty, op, a, b, want):
    def run():
        from ppci import ir
        from ppci.opt import ConstantFolder
        t = T(ty)
        bt = Batch(t)
        m = bt.build([(op, a, b)])
        try:
            ConstantFolder().run(m)
        except Exception as e:
            return "%s %d %s %d: ConstantFolder raised %r" % (ty, a, op, b, e)
        v = bt.results[0].value
        if want is None:
            return None
        if isinstance(v, ir.Const) and v.value != want:
            return "%s %d %s %d folded to %r, expected %d" % (ty, a, op, b, v.value, want)
        return None
    return run


def probe_chain():
    from ppci import ir
    from ppci.opt import ConstantFolder
    from vlib.refinterp import Interp
    mon = {"evals": 0, "folded": 0, "not_folded": 0, "undefined_folded": 0, "nontrivial": 0, "ops": {}, "viol": [], "samples": []}

    class R:
        def __init__(self, seq):
            self.seq = list(seq)
        def choice(self, xs):
            return self.seq.pop(0) if self.seq else xs[0]
        def randint(self, a, b):
            return a
    ty = ir.f64
    m = ir.Module("chain")
    f = ir.Function("f", ir.Binding.GLOBAL, ty)
    m.add_function(f)
    y = ir.Parameter("y", ty)
    f.add_parameter(y)
    b = ir.Block("b")
    f.add_block(b)
    f.entry = b
    a = ir.Const(1e10, "c1", ty)
    c = ir.Const(-1e10, "c2", ty)
    b.add_instruction(a)
    b.add_instruction(c)
    t = ir.Binop(y, "+", a, "t", ty)
    b.add_instruction(t)
    u = ir.Binop(t, "+", c, "u", ty)
    b.add_instruction(u)
    b.add_instruction(ir.Return(u))
    before = Interp(m).run("f", [1e-20]).retval
    ConstantFolder().run(m)
    after = Interp(m).run("f", [1e-20]).retval
    if before != after:
        return "(y + 1e10) + -1e10 with y=1e-20: %s before, %s after folding" % (before, after)
    # integer chain: constant must be wrapped
    t8 = ir.i8
    m = ir.Module("chain")
    f = ir.Function("f", ir.Binding.GLOBAL, t8)
    m.add_function(f)
    y = ir.Parameter("y", t8)
    f.add_parameter(y)
    b = ir.Block("b")
    f.add_block(b)
    f.entry = b
    a = ir.Const(100, "c1", t8)
    c = ir.Const(100, "c2", t8)
    b.add_instruction(a)
    b.add_instruction(c)
    t = ir.Binop(y, "+", a, "t", t8)
    b.add_instruction(t)
    u = ir.Binop(t, "+", c, "u", t8)
    b.add_instruction(u)
    b.add_instruction(ir.Return(u))
    ConstantFolder().run(m)
    for i in b:
        if isinstance(i, ir.Const) and not -128 <= i.value <= 127:
            return "i8 chain (y + 100) + 100 produced constant %r" % i.value
    return None


PROBES = {
    "fold-remainder-floor-mod": _probe("i32", "%", -7, 3, -1),
    "fold-chain-float-reassoc-unwrapped": probe_chain,
}
