"""C16 IR JSON serialization round trip (DESIGN 4, C16).

For every well-formed module M: ``from_json(to_json(M))`` must not raise and
must reconstruct a module that is structurally identical to M --
vlib.ircmp.describe with names walks both in lock-step: externals (kind,
name, signature), variables (name, binding, amount, alignment, initial value
incl. pointer relocations), functions (kind, name, binding, return type,
parameters), blocks in order, instructions by class and every field
(operator, condition, constant value NaN/-0.0 aware, literal data, phi inputs,
call arguments, volatile), operands by position.  The reconstructed module
must also be well-formed including ppci's own use/def bookkeeping
(verify_module, vlib.irwf) and serialise to the same JSON again.

Workload: the one of C15 (vlib.irrt): irgen in kind-coverage mode with
volatile accesses and initialised globals on, the front-end corpus at -O0/-O2,
directed modules.  Constructs of OPEN findings are kept out of the quick
sweep; the thorough tier adds the unrestricted workload with
neutralise-and-retest.
"""

PROPERTY = "C16"
RULE = ("irgen kind-coverage modules (every instruction class, operator, type, constant class, initialised globals "
        "incl. pointer relocations, volatile loads/stores, literal data, undefined, memcpy, inline asm, forward "
        "references) + 23 C/C3/Python snippets at -O0/-O2 + directed modules (forward reference per operand slot and "
        "type, constant matrix incl. inf/nan/-0.0/2^64-1, operator matrix, keyword-like names, blob parameters); "
        "each through to_json/from_json, compared field by field, re-verified and re-serialised; non-trivial = "
        "compared module with >= 10 instructions, distinct by structural hash")
ASSUMPTIONS = ["vlib.ircmp.describe reads every meaning-carrying field of ppci.ir objects",
               "vlib.irwf re-derives well-formedness and bookkeeping independently of ppci",
               "well-formed = accepted by ppci.irutils.verify_module and by vlib.irwf"]
MANIFEST_ENTRY = {
    "text": "Every generated, front-end produced and directed IR module goes through to_json and from_json and is "
            "compared with the original field by field (positions, not names, identify operands).",
    "note": "Constructs of open findings (known_findings.d/C16.json) are rewritten away in the quick sweep; the "
            "thorough tier runs them under neutralise-and-retest. Module.debug_db is not part of the comparison.",
    "technique": "runtime monitoring: independent structural comparison + well-formedness re-check over "
                 "to_json/from_json on generated and front-end modules",
}

TRIGGERS = {
    "json-initial-value-dropped": ["init-value"],
    "json-volatile-not-read": ["volatile"],
    "json-undefined-not-serializable": ["undefined"],
    "json-memcpy-not-serializable": ["memcpy"],
    "json-inline-asm-not-serializable": ["inline-asm"],
    "json-forward-reference-typed-ptr": ["fwd-conflict-json"],
    "parameter-name-not-reserved": ["param-clash"],
}
DIALS = {
    "json-initial-value-dropped": {"init_globals": False},
    "json-volatile-not-read": {"volatile": False},
    "json-undefined-not-serializable": {"undefined": False, "kinds_off": ["undefined-used"]},
    "json-inline-asm-not-serializable": {"kinds_off": ["inline-asm"]},
    "json-forward-reference-typed-ptr": {"rpo": True},
}
DEFINES = {
    "json-memcpy-not-serializable": ["NO_MEMCPY"],
    "json-inline-asm-not-serializable": ["NO_ASM"],
    "parameter-name-not-reserved": ["NO_PARAMCLASH"],
}

SHARD_TIMEOUT = {"quick": 900, "thorough": 3 * 3600}


def plan(tier, seed, avoid):
    if tier == "quick":
        n, per, nraw = 2000, 50, 0
    else:
        n, per, nraw = 50000, 500, 8000
    specs = [{"part": "gen", "start": s, "count": per} for s in range(0, n, per)]
    specs += [{"part": "corpus"}, {"part": "directed"}]
    if nraw and avoid:
        specs += [{"part": "gen", "start": 1000000 + s, "count": per, "raw": True} for s in range(0, nraw, per)]
        specs += [{"part": "corpus", "raw": True}, {"part": "directed", "raw": True}]
    return specs


def floors(tier):
    from vlib import core, irrt

    avoid = core.open_keys(PROPERTY)
    trig = set()
    for k in avoid:
        trig |= set(TRIGGERS.get(k, ()))
    fl = {"evaluations": 1800, "distinct_nontrivial": 1400, "observed.origin.irgen": 1600,
          "observed.origin.corpus": 36, "observed.origin.directed": 80, "observed.kinds.fwdref.Binop": 1}
    for k in irrt.required_kinds(trig, text=False):
        fl["observed.kinds." + k] = 1
    return fl


def roundtrip(m):
    """-> (reconstructed module or None, [(stage, detail)], json text)"""
    from ppci.irutils import to_json, from_json, verify_module
    from vlib import ircmp, irwf

    def where(e):
        import traceback

        tb = traceback.extract_tb(e.__traceback__)
        return "%s:%d" % (tb[-1].name, tb[-1].lineno) if tb else "?"

    fails = []
    try:
        j = to_json(m)
    except Exception as e:  # noqa
        from vlib import irrt

        return None, [("to_json raised", "%s: %s (in %s)" % (type(e).__name__, str(e)[:160], where(e)))], \
            irrt.text_of(m)
    try:
        m2 = from_json(j)
    except Exception as e:  # noqa
        return None, [("from_json raised", "%s: %s (in %s)" % (type(e).__name__, str(e)[:160], where(e)))], j
    d = ircmp.diff(ircmp.describe(m, names=True), ircmp.describe(m2, names=True))
    if d:
        fails.append(("reconstructed module differs", d[:300]))
    try:
        verify_module(m2)
    except Exception as e:  # noqa
        fails.append(("reconstructed module rejected by verify_module", "%s: %s" % (type(e).__name__, str(e)[:200])))
    problems = irwf.check_module(m2)
    if problems:
        fails.append(("reconstructed module is not well-formed", "; ".join(problems[:3])))
    try:
        j2 = to_json(m2)
        if j2 != j:
            a, b = j.splitlines(), j2.splitlines()
            k = next((i for i, (x, y) in enumerate(zip(a, b)) if x != y), min(len(a), len(b)))
            fails.append(("second serialisation differs", "line %d: %r became %r" % (
                k + 1, a[k] if k < len(a) else None, b[k] if k < len(b) else None)))
    except Exception as e:  # noqa
        fails.append(("serialising the reconstructed module raised", "%s: %s" % (type(e).__name__, str(e)[:200])))
    return m2, fails, j


def table():
    from vlib import irrt

    return irrt.Table(PROPERTY, TRIGGERS, DIALS, DEFINES, roundtrip, behaviour=False, identifier_syntax=False)


def run_shard(spec):
    from vlib import irrt

    return irrt.run_shard(spec, table())


# ---- witnesses ------------------------------------------------------------------

def _probe(build):
    def run():
        from vlib import irrt
        from vlib.core import rng

        m = build()
        why = irrt.well_formed(m)
        if why:
            return "witness module is not well-formed: " + why
        fails, _ = irrt.attempt(table(), m, 8, rng(0, PROPERTY, "probe"), irrt.Mon(), False)
        if fails:
            return "%s: %s" % (fails[0][0], fails[0][1][:200])
        return None
    return run


def _c15(name):
    def build():
        from checks import c15

        return getattr(c15, name)
    return build


def _from_c15(body, ret="i32", params=("i32",)):
    def build():
        from ppci import ir
        from checks import c15

        return c15._one(lambda ir_: getattr(ir_, ret), lambda ir_: [getattr(ir_, p) for p in params],
                        getattr(c15, body))()
    return build


def _w_reloc():
    from ppci import ir

    m = ir.Module("w")
    m.add_variable(ir.Variable("target", ir.Binding.GLOBAL, 4, 4, value=b"\x07\x00\x00\x00"))
    m.add_variable(ir.Variable("ref", ir.Binding.GLOBAL, 16, 8, value=(b"\x01" * 8, (ir.ptr, "target"))))
    return m


def _both(*probes):
    def run():
        for p in probes:
            r = p()
            if r:
                return r
        return None
    return run


def _fwd(kind, ty):
    def build():
        from ppci import ir
        from vlib import irrt

        return irrt.directed_forward(kind, getattr(ir, ty))
    return build


def _selfphi():
    from ppci import ir
    from vlib import irrt

    return irrt.directed_selfphi_forward(ir.u8)


def _paramclash():
    from checks import c15

    return c15._w_paramclash()


PROBES = {
    "json-initial-value-dropped": _both(_probe(_from_c15("_w_init", params=())), _probe(_w_reloc)),
    "json-volatile-not-read": _probe(_from_c15("_w_volatile", params=())),
    "json-undefined-not-serializable": _probe(_from_c15("_w_undefined")),
    "json-memcpy-not-serializable": _probe(_from_c15("_w_memcpy")),
    "json-inline-asm-not-serializable": _probe(_from_c15("_w_asm")),
    "json-forward-reference-typed-ptr": _both(_probe(_fwd("binop", "i32")), _probe(_fwd("unop", "f64")),
                                              _probe(_fwd("addressof", "i32")), _probe(_selfphi)),
    "parameter-name-not-reserved": _probe(_paramclash),
}
