"""C10 out-of-range operands are rejected, never silently truncated (DESIGN 4, C10).

R  for an integer operand: a value outside the representable range of its field encodes without error,
   or a value inside encodes but reads back differently.  Same for a relocated value (label distance).
O  the representable range of every integer operand slot is established EMPIRICALLY from the reference
   decoder (vlib.oprange over vlib.refdis: step / lo / hi, i.e. signedness and scaling as llvm-objdump
   reads them; ppci's own ``signed`` flag is not consulted).  Each test value is encoded by ppci and
   decoded by the reference: "accepted and read back as another number" is the refuting event, whatever
   the model says; "accepted outside the modelled range" is one too unless the value reads back exactly.
   ISAs without reference decoder (or1k, xtensa, microblaze, stm8, mcs6500) and slots the probe cannot
   model are judged by the weak clause only: with n = width of the token field the operand is mapped to
   (or, for hand-written encoders, the smallest n with 2^n rejected), a value >= 2^n or < -2^n must be
   rejected and an accepted value must read back (token field getter) congruent modulo 2^n.
W  per slot: lo, lo+step, -step, 0, step, hi-step, hi, random in range; outside: step*2^N, step*2^N+step,
   step*2^(N+1)-step, -step*2^N-step, -step*2^(N+1), two random far values (N = field width implied by
   the range); unless switched off by an open finding: the aliasing half-ranges ([-2^N, lo-1] and, for
   signed fields, [hi+1, 2^N-1]) and misaligned values of scaled operands.
   Relocations: every instance with a label operand (all relocation types reachable from the ISA's
   instruction classes) is relocated the way the linker does (``Relocation.apply``) with distances
   +-align*2^k, align*(2^k-1); the decoded target must be the symbol value or the application must fail.
H  ``encode()`` raising or not; reference-decoded operand; ``Relocation.apply`` raising or not.

Narrowed, stated: relocation ranges are judged on the ISAs with a reference decoder only (riscv, rvc,
arm, thumb, x86_64, mips, msp430, avr); linking whole objects is C11's subject.
"""
import contextlib
import copy
import io

from vlib.core import rng, h

PROPERTY = "C10"
RULE = ("every integer operand slot (class + path through constructor alternatives) of every instruction class of the "
        "14 ISAs; per slot boundary values inside and outside the representable range (established per slot from "
        "llvm-objdump where a reference decoder exists, else from the declared token field width); every instance "
        "with a label operand relocated with boundary distances; evaluation = one (slot, value) or (relocation "
        "instance, distance) observed: accepted/rejected and the read-back value; non-trivial = value != 0; distinct "
        "by construction")
ASSUMPTIONS = ["llvm-objdump 14 prints immediates with the signedness and scaling the ISA defines",
               "vlib.oprange's interval model (lo, hi, step) is only used to choose test values and to name the "
               "expectation; the verdict for an accepted value is the read-back comparison itself"]
MANIFEST_ENTRY = {
    "text": "For every integer operand of every instruction class (14 ISAs) values just inside and outside the "
            "representable range are encoded: out-of-range values must be rejected, accepted values must read back "
            "exactly (reference decoder on 9 ISAs, token field getter modulo 2^n elsewhere); label operands are "
            "relocated with boundary distances and must decode to the symbol value or be rejected; the range helpers "
            "behind the relocations (wrap_negative, wrap_signed, inrange) are swept directly for 25 widths.",
    "note": "Aliasing half-ranges, hand-written masking encoders, unaligned scaled operands and the dual range of "
            "wrap_negative are open findings: those values are not generated, plain truncation beyond 2^n is.",
    "technique": "runtime monitoring: boundary-value sweep with a reference-decoder oracle for field ranges",
}

SHARD_TIMEOUT = {"quick": 1500, "thorough": 4 * 3600}
SLICES = {"riscv": 2, "riscv:rvc": 2, "arm": 2, "arm:thumb": 1, "x86_64": 3, "mips": 1, "msp430": 1, "avr": 1,
          "m68k": 1, "or1k": 1, "xtensa": 1, "microblaze": 2, "stm8": 4, "mcs6500": 1}
REFERENCE_ISAS = ("riscv", "riscv:rvc", "arm", "arm:thumb", "x86_64", "mips", "msp430", "avr", "m68k")
RELOC_ISAS = ("riscv", "riscv:rvc", "arm", "arm:thumb", "x86_64", "mips", "msp430", "avr")
SAMPLES_PER_CLASS = {"quick": 10, "thorough": 40}
RANDOM_PER_SLOT = {"quick": 3, "thorough": 40}


def EXHAUSTIVE(tier):
    return False


def plan(tier, seed, avoid):
    specs = [{"part": "operands", "arch": a, "slice": s, "of": k} for a, k in SLICES.items() for s in range(k)]
    specs += [{"part": "reloc", "arch": a} for a in RELOC_ISAS]
    specs += [{"part": "helpers"}]
    return specs


def floors(tier):
    return {"evaluations": 8000, "observed.isas": 14, "observed.slots_strong": 120, "observed.slots_weak": 150,
            "observed.rejected_out_of_range": 1500, "observed.accepted_in_range_exact": 2500,
            "observed.reloc.applied_exact": 150, "observed.reloc.rejected": 30,
            "observed.helpers.wrap_negative_rejected": 3000, "observed.helpers.wrap_negative_exact": 1500}


# ---------------------------------------------------------------------------
# avoid switches


# classes whose hand-written encode() masks / splits the operand (`& 0xFFF`, `>> 5 & 0x7F`, `& 0x3F`) instead
# of range-checking it; found by this check on the unchanged tree, listed by mechanism
MASKING = {
    "riscv": {"addi_ins", "slti_ins", "sltiu_ins", "xori_ins", "ori_ins", "andi_ins", "Lui", "Sb", "Sh", "Sw"},
    "riscv:rvc": {"addi_ins", "slti_ins", "sltiu_ins", "xori_ins", "ori_ins", "andi_ins", "Lui", "Sb", "Sh", "Sw",
                  "CSlli", "CLw", "CSw", "CLwsp", "CAddi4spn", "CAddi16sp", "CSwsp", "CLi", "CLui", "CAddi"},
    "arm": {"Strh", "Ldrsb", "Ldrh_imm", "Ldrsh_imm"},
    "arm:thumb": {"Ldr1", "Str1", "AddSp", "SubSp"},
    "or1k": {"Sb", "Sh", "Sw", "Swa"},
    "xtensa": {"Movi"},
    "avr": {"Adiw", "Sbiw", "Cpi", "Ori", "Andi", "Ldi", "In", "Out", "Sbci", "Subi"},
}


def custom_encode(cls):
    """The class (or a base below Instruction) overrides encode(): operands are placed by hand."""
    from ppci.arch.encoding import Instruction

    for k in cls.__mro__:
        if k is Instruction:
            return False
        if "encode" in k.__dict__:
            return True
    return False


# relocation types that by definition keep a PART of the symbol value (%hi/%lo, low()/high()): no range to judge
PART_RELOCS = {"abs32_imm20", "abs32_imm12", "rel_imm20", "rel_imm12", "ldihi", "ldilo"}
# relocation types whose apply()/calc() store the value without any range check (own code, not wrap_negative)
RELOC_UNCHECKED = {"bl_imm11", "b_imm11_imm6", "jmp8", "abs32", "rel32"}


def implied_width(slot):
    """N such that step*2^N spans the whole field implied by the probed range."""
    s = slot.step or 1
    top = max(slot.hi, -slot.lo - s if slot.lo < 0 else 0) // s + 1
    n = max(1, (top - 1).bit_length())
    return n + (1 if slot.lo < 0 else 0)


def values_for(slot, r, tier, avoid):
    """[(value, expectation)] with expectation in 'in', 'out', 'alias-neg', 'alias-pos', 'misaligned'."""
    s, lo, hi = slot.step or 1, slot.lo, slot.hi
    N = implied_width(slot)
    full = s << N
    out = []
    inside = {lo, lo + s, 0, s, hi - s, hi}
    if lo < 0:
        inside.add(-s)
    for _ in range(RANDOM_PER_SLOT[tier]):
        if hi > lo:
            inside.add(r.randrange(lo // s, hi // s + 1) * s)
    for v in sorted(inside):
        if lo <= v <= hi and v % s == 0:
            out.append((v, "in"))
    beyond = {full, full + s, 2 * full - s, -full - s, -2 * full, full * 3 + s * r.randrange(0, 7),
              -(full * 5 + s * r.randrange(0, 9)), 1 << 40}
    for v in sorted(beyond):
        out.append((v, "out"))
    if "token-field-accepts-wrapping-negative" not in avoid:
        for v in {lo - s, -full, -full + s, lo - 2 * s}:
            if -full <= v < lo:
                out.append((v, "alias-neg"))
    if "token-field-signed-accepts-large-positive" not in avoid:
        for v in {hi + s, full - s, full // 2 + s}:
            if hi < v < full:
                out.append((v, "alias-pos"))
    if s > 1 and "scaled-operand-alignment-not-checked" not in avoid:
        for v in {s + 1, hi - 1, s // 2}:
            if lo <= v <= hi and v % s:
                out.append((v, "misaligned"))
    return out


def skip_slot(isa, slot, expectation, avoid, fact, value=None):
    """Open findings that switch a family of tests off for a slot (as narrowly as the mechanism allows)."""
    if expectation == "out" and "encode-masks-operand-without-range-check" in avoid \
            and slot.ci.cls.__name__ in MASKING.get(isa, ()):
        return "encode-masks-operand-without-range-check"
    if expectation == "out" and "arm-imm32-ignores-bits-above-32" in avoid and isa == "arm" \
            and (slot.lo, slot.hi) == (0, 255) and value is not None and abs(value) >= 1 << 32:
        return "arm-imm32-ignores-bits-above-32"
    return None


# ---------------------------------------------------------------------------


def run_shard(spec):
    if spec.get("part") == "reloc":
        return run_reloc(spec)
    if spec.get("part") == "helpers":
        return run_helpers(spec)
    return run_operands(spec)


def run_operands(spec):
    from vlib import isaenum, refdis, oprange
    from checks import c08

    isa = spec["arch"]
    tier = spec["tier"]
    avoid = set(spec["avoid"])
    strong = isa in REFERENCE_ISAS and refdis.available(isa)
    r = rng(spec["seed"], PROPERTY, "%s/%s/%s" % (isa, spec["slice"], spec["of"]))
    en = isaenum.Enumerator(isa, r)
    classes = [ci for ci in isaenum.classes(isa) if ci.mnemonic not in c08.DATA_MNEMONICS | c08.PREFIX_MNEMONICS
               and not ci.cls.__module__.endswith("data_instructions")
               and ci.mnemonic not in c08.REF_UNRELIABLE.get(isa, ())]
    classes = [ci for i, ci in enumerate(classes) if i % spec["of"] == spec["slice"]]
    c08_avoid = [k for k in c08.AVOID]   # C08's structural switches keep constructs of ITS open findings out

    slots, facts = {}, {}
    for ci in classes:
        for _ in range(SAMPLES_PER_CLASS[tier]):
            fs = []
            a = en.assignment(ci, fs)
            a0 = oprange.zeroed(ci.cls, a)
            try:
                obj0 = isaenum.build(isa, ci.cls, a0)
            except BaseException:
                continue
            if isaenum.is_virtual(obj0):
                break
            if strong:
                if c08.ref_skip(isa, ci, obj0):
                    continue
                hit = False
                for key in c08_avoid:
                    try:
                        res = c08.AVOID[key](isa, ci, a0, obj0)
                    except Exception:
                        res = False
                    if isinstance(res, list):
                        a0 = res
                        obj0 = isaenum.build(isa, ci.cls, a0)
                    elif res:
                        hit = True
                        break
                if hit:
                    continue
            for f in fs:
                facts.setdefault((ci.key,) + tuple(f["path"][1:]), f)
            for p in oprange.int_paths(ci.cls, a0):
                k = (ci.key,) + p      # per class and path: C10 judges every class's own encoder
                if k not in slots:
                    slots[k] = oprange.Slot(ci, p, a0)
                    slots[k].candidates = []
                if len(slots[k].candidates) < 4 and c08.encodable(isa, ci, a0):
                    slots[k].candidates.append(a0)
    for s in slots.values():
        if not s.candidates:
            s.candidates = [s.template]

    observed = {"isas": {isa: 1}, "slots_strong": 0, "slots_weak": 0, "slots_unjudged": 0,
                "rejected_out_of_range": 0, "accepted_in_range_exact": 0, "in_range_rejected": 0,
                "read_back_unavailable": 0, "by_expectation": {}, "switched_off": {}}
    violations, samples = [], []
    evals = nontrivial = 0
    vper = {}

    def viol(slot, v, exp, text, detail, case):
        key = (slot.ci.key, exp)
        vper[key] = vper.get(key, 0) + 1
        if vper[key] <= 1 and len(violations) < (2000 if spec.get("dev") else 14):
            violations.append({"summary": "%s %s operand %s: %s" % (isa, slot.ci.key, list(slot.path), text),
                               "case": dict(case, isa=isa, slot=slot.as_json(), value=v, expectation=exp,
                                            detail=detail)})

    prober = oprange.Prober(isa) if strong else None
    if strong:
        prober.probe(list(slots.values()))
    strong_slots = [s for s in slots.values() if strong and s.status == "ok"]
    weak_slots = [s for s in slots.values() if not (strong and s.status == "ok")]
    observed["slots_strong"] = len(strong_slots)

    # ---- strong clause: reference decoder ---------------------------------------------------------
    jobs, meta = [], []
    for s in strong_slots:
        fact = facts.get(s.key())
        for v, exp in values_for(s, r, tier, avoid):
            off = skip_slot(isa, s, exp, avoid, fact, v)
            if not off and any(c08.AVOID_INT[k](isa, s.ci, s.path, v) for k in c08.AVOID_INT):
                off = "c08-finding"     # a value C08 records as an open finding (zero shift amounts ...)
            if off:
                observed["switched_off"][off] = observed["switched_off"].get(off, 0) + 1
                continue
            a = copy.deepcopy(s.template)
            oprange.set_at(a, s.path, v)
            jobs.append((s, a, v))
            meta.append(exp)
    res = []
    for i in range(0, len(jobs), 3000):
        res.extend(prober._observe(jobs[i:i + 3000]))
    for (s, a, v), exp, (acc, val, note) in zip(jobs, meta, res):
        evals += 1
        nontrivial += 1 if v else 0
        be = observed["by_expectation"].setdefault(exp, {"accepted": 0, "rejected": 0})
        be["accepted" if acc else "rejected"] += 1
        case = {"assignment": a, "read_back": val, "note": note}
        if not acc:
            if exp == "in":
                observed["in_range_rejected"] += 1
            else:
                observed["rejected_out_of_range"] += 1
            continue
        if val is None and v != 0:
            if exp == "in":
                observed["read_back_unavailable"] += 1
                continue
            # accepted outside the range and the reference does not even show the operand (invalid / other shape)
            viol(s, v, exp, "value %d is outside [%d, %d] step %d but encodes without error (reference: %s)" % (
                v, s.lo, s.hi, s.step, note), note, case)
            continue
        if val == v or (v == 0 and val in (0, None)):
            if exp == "in":
                observed["accepted_in_range_exact"] += 1
                if len(samples) < 2 and v not in (0, 1) and r.random() < 0.01:
                    samples.append({"isa": isa, "class": s.ci.key, "path": list(s.path), "value": v,
                                    "range": [s.lo, s.hi, s.step], "read_back": val})
            continue
        viol(s, v, exp, "value %d (%s, range [%d, %d] step %d) encodes without error and reads back as %s" % (
            v, exp, s.lo, s.hi, s.step, val), note, case)

    # ---- weak clause: declared field width, token field getter -----------------------------------------
    for s in weak_slots:
        fact = facts.get(s.key())
        n, field = weak_width(isa, s, fact, en)
        if n is None:
            observed["slots_unjudged"] += 1
            continue
        observed["slots_weak"] += 1
        full = 1 << n
        tests = [(0, "in"), (1, "in"), (full // 2 - 1, "in"), (full, "out"), (full + 1, "out"), (2 * full - 1, "out"),
                 (-full - 1, "out"), (-2 * full, "out"), (full * 3 + r.randrange(1, 9), "out"),
                 (full - 1, "field"), (-1, "field"), (-full, "field")]
        for v, exp in tests:
            if exp == "out" and "encode-masks-operand-without-range-check" in avoid \
                    and s.ci.cls.__name__ in MASKING.get(isa, ()):
                observed["switched_off"]["encode-masks-operand-without-range-check"] = \
                    observed["switched_off"].get("encode-masks-operand-without-range-check", 0) + 1
                continue
            a = copy.deepcopy(s.candidates[0])
            oprange.set_at(a, s.path, v)
            acc, got = weak_observe(isa, s, a, field)
            evals += 1
            nontrivial += 1 if v else 0
            be = observed["by_expectation"].setdefault("weak-" + exp, {"accepted": 0, "rejected": 0})
            be["accepted" if acc else "rejected"] += 1
            if not acc:
                if exp == "out":
                    observed["rejected_out_of_range"] += 1
                continue
            if exp == "out":
                viol(s, v, "weak-out", "value %d does not fit the %d-bit field %s but encodes without error" % (
                    v, n, field or "(probed width)"), None, {"assignment": a, "field_value": got})
                continue
            if got is not None and (got - v) % full != 0:
                viol(s, v, "weak-field", "value %d is stored in field %s as %d (not congruent modulo 2^%d)" % (
                    v, field, got, n), None, {"assignment": a, "field_value": got})
                continue
            if exp == "in":
                observed["accepted_in_range_exact"] += 1

    return {"evaluations": evals, "nontrivial_count": nontrivial, "observed": observed, "samples": samples,
            "violations": violations}


def weak_width(isa, slot, fact, en):
    """(n, field name | None) for the weak clause, or (None, None)."""
    if fact and fact.get("source") == "pattern" and fact.get("bits") and not fact.get("transform"):
        return fact["bits"], fact["field"]
    if fact and fact.get("source") == "probed" and fact.get("bits"):
        return fact["bits"], None
    return None, None


def weak_observe(isa, slot, assignment, field):
    from vlib import isaenum

    try:
        with contextlib.redirect_stdout(io.StringIO()):
            obj = isaenum.build(isa, slot.ci.cls, assignment)
            obj.encode()
    except BaseException:
        return False, None
    got = None
    if field:
        try:
            with contextlib.redirect_stdout(io.StringIO()):
                obj = isaenum.build(isa, slot.ci.cls, assignment)
                tokens = obj.get_tokens()
                obj.set_all_patterns(tokens)
                got = tokens.get_field(field)
        except BaseException:
            got = None
    return True, got


# ---------------------------------------------------------------------------
# relocations


def run_helpers(spec):
    """The range helpers every relocation's calc/apply leans on (anchor: bitfun.wrap_negative, inrange), driven
    directly: a value that fits no n-bit field (below -2^(n-1) or above 2^n - 1) must raise; a value inside the
    signed range must come back as its two's-complement pattern; wrap_signed/inrange are exact for the signed
    range.  The upper half [2^(n-1), 2^n) of wrap_negative is the open finding wrap-negative-dual-range: counted,
    judged only when that finding is not open."""
    from ppci.utils import bitfun as bf

    avoid = set(spec["avoid"])
    r = rng(spec["seed"], PROPERTY, "helpers")
    tier = spec["tier"]
    obs = {"wrap_negative_rejected": 0, "wrap_negative_exact": 0, "wrap_negative_upper_half_not_judged": 0,
           "wrap_signed_rejected": 0, "wrap_signed_exact": 0, "inrange_agrees": 0, "widths": 0}
    violations, samples = [], []
    evals = nontrivial = 0

    def viol(text, case):
        if len(violations) < 8:
            violations.append({"summary": text, "case": case})

    def call(fn, v, n):
        try:
            return True, fn(v, n)
        except (ValueError, AssertionError):
            return False, None

    for n in list(range(1, 19)) + [20, 21, 24, 26, 32, 33, 64]:
        obs["widths"] += 1
        lo, hi, top = -(1 << (n - 1)), (1 << (n - 1)) - 1, (1 << n) - 1
        if n <= 10:
            vals = set(range(-3 * (1 << n) - 2, 3 * (1 << n) + 3))
        else:
            vals = set()
            for e in (lo, hi, top, -top, -top - 1, 0, 2 * top, -2 * top, 1 << 70, -(1 << 70)):
                vals.update(range(e - 3, e + 4))
            for _ in range(60 if tier == "quick" else 1500):
                vals.add(r.randrange(-top - 1, lo))          # the band a bit_length test would let through
                vals.add(r.randrange(lo, hi + 1))
                vals.add(r.randrange(hi + 1, top + 1))
                vals.add(r.randrange(top + 1, 4 * top + 8))
                vals.add(-r.randrange(top + 2, 4 * top + 8))
        for v in sorted(vals):
            evals += 1
            nontrivial += 1 if v else 0
            fits_signed = lo <= v <= hi
            # wrap_negative
            ok, res = call(bf.wrap_negative, v, n)
            if fits_signed:
                if not ok or res != v % (1 << n):
                    viol("wrap_negative(%d, %d) %s; the signed %d-bit pattern is %#x" % (
                        v, n, "raises" if not ok else "= %#x" % res, n, v % (1 << n)), {"helper": "wrap_negative", "v": v, "bits": n})
                else:
                    obs["wrap_negative_exact"] += 1
            elif hi < v <= top:
                if "wrap-negative-dual-range" in avoid:
                    obs["wrap_negative_upper_half_not_judged"] += 1
                elif ok:
                    viol("wrap_negative(%d, %d) = %#x: accepted although a signed %d-bit field holds [%d, %d]" % (
                        v, n, res, n, lo, hi), {"helper": "wrap_negative", "v": v, "bits": n})
            else:
                if ok:
                    viol("wrap_negative(%d, %d) = %#x: the value fits no %d-bit field (signed [%d, %d], unsigned "
                         "[0, %d]) and is silently reduced" % (v, n, res, n, lo, hi, top),
                         {"helper": "wrap_negative", "v": v, "bits": n})
                else:
                    obs["wrap_negative_rejected"] += 1
            # wrap_signed / inrange (exact signed range)
            if hasattr(bf, "wrap_signed"):
                ok, res = call(bf.wrap_signed, v, n)
                if fits_signed and (not ok or res != v % (1 << n)):
                    viol("wrap_signed(%d, %d) %s; the signed pattern is %#x" % (
                        v, n, "raises" if not ok else "= %#x" % res, v % (1 << n)), {"helper": "wrap_signed", "v": v, "bits": n})
                elif not fits_signed and ok:
                    viol("wrap_signed(%d, %d) = %#x: accepted outside [%d, %d]" % (v, n, res, lo, hi),
                         {"helper": "wrap_signed", "v": v, "bits": n})
                else:
                    obs["wrap_signed_exact" if fits_signed else "wrap_signed_rejected"] += 1
            try:
                ir = bf.inrange(v, n)
            except Exception as e:  # noqa
                ir = "raised %s" % type(e).__name__
            if ir is not fits_signed and ir != fits_signed:
                viol("inrange(%d, %d) = %r, the signed %d-bit range is [%d, %d]" % (v, n, ir, n, lo, hi),
                     {"helper": "inrange", "v": v, "bits": n})
            else:
                obs["inrange_agrees"] += 1
        if len(samples) < 2:
            samples.append({"helper": "wrap_negative", "bits": n, "values": len(vals), "rejected_below": lo - 1})
    return {"evaluations": evals, "nontrivial_count": nontrivial, "observed": {"helpers": obs}, "samples": samples,
            "violations": violations}


def run_reloc(spec):
    from vlib import isaenum, refdis, oprange
    from checks import c08

    isa = spec["arch"]
    tier = spec["tier"]
    avoid = set(spec["avoid"])
    if not refdis.available(isa):
        return {"evaluations": 0, "inconclusive": ["reference decoder for %s missing" % isa]}
    arch = isaenum.get_arch(isa)
    r = rng(spec["seed"], PROPERTY, "reloc/%s" % isa)
    en = isaenum.Enumerator(isa, r)
    align = {"riscv": 4, "riscv:rvc": 2, "arm": 4, "arm:thumb": 4, "x86_64": 1, "mips": 4, "msp430": 2, "avr": 2}[isa]
    observed = {"reloc": {"applied_exact": 0, "rejected": 0, "types": {}, "unreadable": 0, "switched_off": 0},
                "isas": {isa: 1}}
    violations, samples = [], []
    evals = nontrivial = 0
    # one instance per (class, alternative shape, relocation type)
    insts = {}
    for ci in isaenum.classes(isa):
        if ci.mnemonic in c08.DATA_MNEMONICS or ci.mnemonic in c08.REF_UNRELIABLE.get(isa, ()):
            continue
        for _ in range(12):
            a = oprange.zeroed(ci.cls, en.assignment(ci, []))
            try:
                obj = isaenum.build(isa, ci.cls, a)
                if isaenum.is_virtual(obj):
                    break
                rels = obj.relocations()
                data = bytes(isaenum.build(isa, ci.cls, a).encode())
            except BaseException:
                continue
            if not rels or len(rels) != 1 or not data:
                continue
            skip = False
            for key in c08.AVOID:
                try:
                    if c08.AVOID[key](isa, ci, a, obj) is True:
                        skip = True
                except Exception:
                    pass
            if skip:
                continue
            k = (ci.key, tuple(c08.alt_names(obj)), rels[0].name)
            insts.setdefault(k, (ci, a, data, rels[0]))
    base = 1 << 27    # load address shown by the reference (--adjust-vma): room for negative distances
    plan_ = []
    per_type = {}
    for k, (ci, a, data, rel) in sorted(insts.items()):
        rcls = arch.isa.relocation_map[rel.name]
        per_type[rel.name] = per_type.get(rel.name, 0) + 1
        if per_type[rel.name] > (8 if tier == "quick" else 40):
            continue      # enough instances of this relocation type
        dists = set()
        for kk in range(1, 34):
            for edge in (align << kk, -(align << (kk - 1))):
                for j in (-3, -2, -1, 0, 1, 2, 3):      # +-2^k +- {0, 1, 2, 3} * alignment (pc bias 4/8 included)
                    dists.add(edge + j * align)
        dists.update((0, align, -align))
        for d in sorted(dists):
            plan_.append((k, ci, a, data, rel, rcls, d))
    applied = []
    B = 2500
    dec = []
    for i in range(0, len(plan_), B):
        part = plan_[i:i + B]
        _, spans = refdis.layout(isa, [x[3] for x in part])
        chunk_list = []
        for (k, ci, a, data, rel, rcls, d), (off, size) in zip(part, spans):
            P = base + off
            if P + d < 0:
                applied.append((k, ci, a, data, rel, d, None, P))
                chunk_list.append(data)
                continue
            try:
                ro = rcls(None, offset=rel.offset, addend=rel.addend)
                n = ro.size()
                buf = bytearray(data)
                piece = ro.apply(P + d + rel.addend, bytearray(buf[rel.offset:rel.offset + n]), P + rel.offset)   # S + A
                assert len(piece) == n
                buf[rel.offset:rel.offset + n] = piece
                applied.append((k, ci, a, bytes(buf), rel, d, True, P))
                chunk_list.append(bytes(buf))
            except BaseException:
                applied.append((k, ci, a, data, rel, d, False, P))
                chunk_list.append(data)
        dec.extend(refdis.decode(isa, chunk_list, vma=base))
    per_inst = {}
    for (k, ci, a, data, rel, d, acc, P), dd in zip(applied, dec):
        if acc is None:
            continue
        evals += 1
        nontrivial += 1 if d else 0
        t = observed["reloc"]["types"].setdefault(rel.name, {"accepted": 0, "rejected": 0})
        t["accepted" if acc else "rejected"] += 1
        rec = per_inst.setdefault(k, {"exact": [], "wrong": [], "rejected": [], "unreadable": []})
        if not acc:
            observed["reloc"]["rejected"] += 1
            rec["rejected"].append(d)
            continue
        y = read_target(isa, ci, a, dd)
        if y is None:
            observed["reloc"]["unreadable"] += 1
            rec["unreadable"].append(d)
            continue
        want = c08.label_values(isa, (P + d, P, d), len(data))
        if y in want:
            observed["reloc"]["applied_exact"] += 1
            rec["exact"].append(d)
        else:
            rec["wrong"].append((d, y))
    for k, rec in sorted(per_inst.items()):
        if not rec["exact"] or k[2] in PART_RELOCS:
            continue   # the reference does not show this relocation's value in a comparable form / part relocation
        hi = max(rec["exact"])
        lo = min(rec["exact"])
        wrong = rec["wrong"]
        if "wrap-negative-dual-range" in avoid:
            # values in the aliasing upper half [2^(n-1), 2^n) of a signed field are not judged
            span = max(hi, -lo)
            kept = [(d, y) for d, y in wrong if not (hi < d <= 2 * span + 2 * align)]
            observed["reloc"]["switched_off"] += len(wrong) - len(kept)
            wrong = kept
        if "relocation-apply-without-range-check" in avoid and k[2] in RELOC_UNCHECKED:
            observed["reloc"]["switched_off"] += len(wrong)
            wrong = []
        if wrong and len(violations) < 12:
            d, y = wrong[0]
            ci, a, data, rel = insts[k]
            violations.append({
                "summary": "%s %s relocation %s: distance %d is applied without error but the instruction decodes "
                           "to target %s (exact for distances in [%d, %d])" % (isa, k[0], rel.name, d, y, lo, hi),
                "case": {"isa": isa, "class": k[0], "assignment": a, "relocation": rel.name, "distance": d,
                         "decoded": y, "wrong": wrong[:8], "exact_range": [lo, hi]}})
        elif len(samples) < 2:
            samples.append({"isa": isa, "class": k[0], "relocation": k[2], "exact_range": [lo, hi],
                            "rejected": len(rec["rejected"])})
    return {"evaluations": evals, "nontrivial_count": nontrivial, "observed": observed, "samples": samples,
            "violations": violations}


def read_target(isa, ci, a, d):
    """The integer the reference prints at the label's operand position, corrected to the relocation's frame
    (the chunk sits at offset d.offset in the blob, the relocation assumed address 2^20)."""
    from vlib import refdis, oprange

    if d.status != "ok":
        return None
    text = None
    try:
        from vlib import isaenum

        text = str(isaenum.build(isa, ci.cls, a))
    except BaseException:
        return None
    labels = oprange.labels_of(ci.cls, a)
    p = refdis.norm_ppci(isa, text, labels, ci.mnemonic)
    rr = refdis.norm_ref(isa, d.text)
    if p is None or rr is None:
        return None
    m, atoms, _ = refdis.rewrite(isa, *p)
    m, atoms = refdis.canon(isa, m, atoms)
    rm, ra = refdis.canon(isa, rr[0], rr[1], ref=True)
    if len(atoms) != len(ra):
        return None
    idx = [i for i, x in enumerate(atoms) if isinstance(x, tuple) and x[0] == "L"]
    if len(idx) != 1 or not isinstance(ra[idx[0]], int):
        return None
    y = ra[idx[0]]
    return y


# ---------------------------------------------------------------------------
# witness probes


def _enc(obj_fn):
    try:
        return bytes(obj_fn().encode()).hex()
    except BaseException as e:
        return None


def probe_neg_wrap():
    from ppci.arch.riscv.instructions import Slli
    from checks.c08 import _x

    b = _enc(lambda: Slli(_x(5), _x(6), -1))
    return None if b is None else ("riscv Slli(x5, x6, -1): the 5-bit unsigned shift amount accepts -1 and encodes %s "
                                   "(= slli x5, x6, 31)" % b)


def probe_signed_large_positive():
    from ppci.arch.riscv.instructions import Lw
    from checks.c08 import _x

    b = _enc(lambda: Lw(_x(5), 4095, _x(6)))
    return None if b is None else "riscv Lw(x5, 4095, x6): the signed 12-bit offset accepts 4095 and encodes %s (= -1)" % b


def probe_masking():
    from ppci.arch.riscv.instructions import Addi
    from checks.c08 import _x

    a, b = _enc(lambda: Addi(_x(5), _x(6), 4096)), _enc(lambda: Addi(_x(5), _x(6), 0))
    return None if a is None or a != b else "riscv Addi(x5, x6, 4096) encodes %s, the encoding of immediate 0" % a


def probe_reloc_unchecked():
    from ppci.arch.x86_64.instructions import Jmp8Relocation

    try:
        out = Jmp8Relocation(None).apply(871, bytearray(1), 1000)
    except BaseException:
        return None
    return "x86_64 jmp8 relocation applied over a distance of -130 bytes succeeds and stores %s (= +126)" % \
        bytes(out).hex()


def probe_arm_imm32():
    from ppci.utils.bitfun import encode_imm32

    try:
        v = encode_imm32((1 << 32) | 5)
    except ValueError:
        return None
    return "encode_imm32(2^32 + 5) = %#x (the encoding of 5): bits above 2^32 are ignored" % v


def probe_alignment():
    from ppci.arch.riscv import rvc_instructions as rc
    from checks.c08 import _x

    a, b = _enc(lambda: rc.CLwsp(_x(9), 5)), _enc(lambda: rc.CLwsp(_x(9), 4))
    return None if a is None or a != b else "riscv:rvc CLwsp(x9, 5) encodes %s, the encoding of offset 4" % a


def probe_wrap_negative():
    from ppci.utils.bitfun import wrap_negative

    try:
        v = wrap_negative(4095, 12)
    except ValueError:
        return None
    return "wrap_negative(4095, 12) = %d: accepted although a signed 12-bit field holds [-2048, 2047]" % v


PROBES = {
    "token-field-accepts-wrapping-negative": probe_neg_wrap,
    "token-field-signed-accepts-large-positive": probe_signed_large_positive,
    "encode-masks-operand-without-range-check": probe_masking,
    "scaled-operand-alignment-not-checked": probe_alignment,
    "wrap-negative-dual-range": probe_wrap_negative,
    "arm-imm32-ignores-bits-above-32": probe_arm_imm32,
    "relocation-apply-without-range-check": probe_reloc_unchecked,
}
