"""C08 instruction encodings agree with an independent reference disassembler (DESIGN 4, C08).

R  the reference decoder reads ppci's bytes as a different operation, a different operand
   value, a different length, or as invalid.
O  vlib.refdis: llvm-objdump-14 for arm, thumb, riscv, riscv:rvc, x86_64, mips, msp430, avr,
   m68k (GNU objdump as a second opinion on x86_64, agreement is counted only).
W  vlib.isaenum over those ISAs.  Registers / constructor alternatives / labels come from the
   enumerator's slot cyclers.  Integer operands are drawn from the range in which "printed ==
   decoded" can be demanded: vlib.oprange probes, through ppci's encoder and the reference
   decoder, step / lo / hi of every integer operand slot (is -1 read back as -1? is 2^k-1?).
   Values outside that range (accepted but aliased or truncated) are C10's subject.  The
   probe cannot absorb a wrong field: a slot where no step in 1,2,4,8,16 reads back unchanged
   is a violation, and so is a slot whose range is smaller than the core half [0, 2^(n-1)) of
   the n-bit token field ppci itself declares for the operand.
H  bytes of ``instr.encode()``; ``str(instr)`` taken BEFORE encoding.

Narrowed, stated: or1k, xtensa, microblaze have no reference decoder here (not covered; stm8
and mcs6500 are not in the property).  Label operands are encoded unrelocated (field 0): the
printed label matches any integer the reference shows at that position (resolution is C11).
m68k: LLVM 14's M68k disassembler is incomplete (valid 0x4612 `not.b (%a2)` reads as
<unknown>), so "decoded as invalid" is counted as reference_incomplete there, not judged.
Data directives (db/dw/dd/dq/dcd/.byte/.zero) and pseudo-instructions without encoding are
not instructions and are skipped.
"""
import contextlib
import io

from vlib.core import rng, h

PROPERTY = "C08"
RULE = ("instruction classes of arm, thumb, riscv, rvc, x86_64, mips, msp430, avr, m68k instantiated by "
        "vlib.isaenum (all registers of each register operand, every constructor alternative, labels) with "
        "integer operands drawn from the reference-probed representable range of each operand slot (boundaries "
        "lo, lo+step, -step, 0, step, hi-step, hi, hi/2 and random); evaluation = one instance whose bytes were "
        "decoded by llvm-objdump and compared (operation, operand atoms, length); non-trivial = has at least one "
        "operand; distinct by hash of (isa, class, printed text)")
ASSUMPTIONS = ["llvm-objdump 14 decodes arm/thumb/riscv32imafdc/x86-64/mipsel/msp430/avr correctly; its M68k "
               "decoder is trusted only where it produces an instruction",
               "the 40-line ELF writer in vlib.refdis wraps bytes without altering them (objdump echoes the bytes; "
               "the echoed byte count is compared with the instance size)",
               "the equivalence table in vlib.refdis (ABI register names, pseudo-instruction spellings) only "
               "aligns spellings; every entry is justified there"]
MANIFEST_ENTRY = {
    "text": "Encoded bytes of every instruction class of 9 ISAs, over all registers, alternatives and the "
            "reference-probed range of every immediate, are decoded by llvm-objdump and must show the operation "
            "and operands ppci prints, with the same length.",
    "note": "or1k/xtensa/microblaze: no reference decoder in the sandbox. m68k: 'invalid' verdicts of LLVM's "
            "incomplete M68k decoder are not judged. Labels unrelocated (C11 resolves them). Out-of-range "
            "immediates are C10's subject. Constructs of open findings are not generated.",
    "technique": "runtime monitoring: differential decoding against llvm-objdump over an enumerated ISA workload",
}

SHARD_TIMEOUT = {"quick": 1500, "thorough": 4 * 3600}
SLICES = {"riscv": 2, "riscv:rvc": 3, "arm": 2, "arm:thumb": 2, "x86_64": 6, "mips": 1, "msp430": 2, "avr": 2,
          "m68k": 2}
PER_CLASS = {"quick": 60, "thorough": 1500}
DATA_MNEMONICS = {"db", "dw", "dd", "dq", "dcd", "dcd=", ".byte", ".zero", "ds"}
MAX_UNPARSED_SHARE = 0.05


def EXHAUSTIVE(tier):
    return False


def plan(tier, seed, avoid):
    return [{"arch": a, "slice": s, "of": k, "n": PER_CLASS[tier]} for a, k in SLICES.items() for s in range(k)]


def floors(tier):
    f = {"evaluations": 15000, "distinct_nontrivial": 10000, "observed.isas": 9, "observed.slots.ok": 150}
    for a in SLICES:
        f["observed.per_isa.%s.classes_judged" % a] = 20
        f["observed.per_isa.%s.evaluations" % a] = 400
    return f


# ---------------------------------------------------------------------------
# avoid switches (structural: isa, class, assignment with integers zeroed, built object)

# AVOID[key](isa, ci, a0, obj0) -> True (do not generate) | list (adjusted assignment) | False
# AVOID_INT[key](isa, ci, path, value) -> True: do not draw this value for this integer operand
AVOID = {}
AVOID_INT = {}
PROBES = {}


def _map_regs(cls, assignment, fn):
    """Copy of an assignment with every register name passed through fn (recursively)."""
    from vlib import isaenum

    out = []
    for op, a in zip(cls.syntax.formal_arguments, assignment):
        k = isaenum.operand_kind(op)
        if k == "reg":
            out.append({"r": fn(a["r"])})
        elif k == "alt":
            out.append({"alt": a["alt"], "args": _map_regs(op._cls[a["alt"]], a["args"], fn)})
        else:
            out.append(a)
    return out


# ---- riscv / rvc ------------------------------------------------------------

RVC_CREG = {"c.sub", "c.xor", "c.or", "c.and", "c.srli", "c.srai", "c.andi", "c.beqz", "c.bneqz", "c.lw", "c.sw",
            "c.addi4spn"}
RVC_TWO_ADDRESS = {"c.slli", "c.srli", "c.srai", "c.andi"}


def av_riscv_ble(isa, ci, a0, obj0):
    return isa.startswith("riscv") and ci.mnemonic == "bge"


def av_rvc_creg(isa, ci, a0, obj0):
    if isa == "riscv:rvc" and ci.mnemonic in RVC_CREG:
        def up(name):
            n = int(name[1:])
            return "x%d" % (n + 8) if n < 8 else name
        new = _map_regs(ci.cls, a0, up)
        return new if new != a0 else False
    return False


def av_rvc_two_address(isa, ci, a0, obj0):
    if isa == "riscv:rvc" and ci.mnemonic in RVC_TWO_ADDRESS:
        new = list(a0)
        new[1] = dict(new[0])      # printed source := destination
        return new if new != a0 else False
    return False


def av_rvc_reserved(isa, ci, a0, obj0):
    if isa != "riscv:rvc":
        return False
    regs = reg_names(obj0)
    m = ci.mnemonic
    if m in ("c.addi", "c.lwsp", "c.li", "c.lui", "c.mv", "c.jr", "c.jalr", "c.slli") and regs and regs[0] == "x0":
        return True     # rd/rs1 = x0 selects c.nop / a reserved encoding / a hint
    if m == "c.mv" and len(regs) > 1 and regs[1] == "x0":
        return True     # c.mv rd, x0 is the encoding of c.jr rd
    if m == "c.lui" and regs and regs[0] == "x2":
        return True     # c.lui x2 is the encoding of c.addi16sp
    return False


def avi_rvc_reserved(isa, ci, path, v):
    # zero immediates are reserved encodings / 64-bit shift hints
    return isa == "riscv:rvc" and v == 0 and ci.mnemonic in ("c.slli", "c.srli", "c.srai", "c.addi4spn",
                                                              "c.addi16sp", "c.lui", "c.addi")


def av_rvc_cbnez(isa, ci, a0, obj0):
    return isa == "riscv:rvc" and ci.mnemonic == "c.bneqz"


AVOID.update({
    "riscv-ble-prints-bge": av_riscv_ble,
    "rvc-compressed-register-wraps": av_rvc_creg,
    "rvc-two-address-source-not-encoded": av_rvc_two_address,
    "rvc-reserved-encodings-accepted": av_rvc_reserved,
    "rvc-cbnez-spelt-cbneqz": av_rvc_cbnez,
})
AVOID_INT.update({
    "rvc-reserved-encodings-accepted": avi_rvc_reserved,
})


def alt_names(obj, out=None):
    from vlib import isaenum

    out = [] if out is None else out
    if getattr(obj, "syntax", None):
        for op in obj.syntax.formal_arguments:
            if isaenum.operand_kind(op) == "alt":
                v = op.__get__(obj)
                out.append(type(v).__name__)
                alt_names(v, out)
    return out


def reg_names(obj, out=None):
    from vlib import isaenum

    out = [] if out is None else out
    if getattr(obj, "syntax", None):
        for op in obj.syntax.formal_arguments:
            k = isaenum.operand_kind(op)
            if k == "reg":
                out.append(op.__get__(obj).name)
            elif k == "alt":
                reg_names(op.__get__(obj), out)
    return out


# ---------------------------------------------------------------------------


def run_shard(spec):
    from vlib import isaenum, refdis, oprange

    if "cases" in spec:
        return replay(spec)
    isa = spec["arch"]
    if not refdis.available(isa):
        return {"evaluations": 0, "inconclusive": ["reference decoder for %s missing" % isa]}
    r = rng(spec["seed"], PROPERTY, "%s/%s/%s" % (isa, spec["slice"], spec["of"]))
    en = isaenum.Enumerator(isa, r)
    avoid = [k for k in spec["avoid"] if k in AVOID]
    avoid_int = [k for k in spec["avoid"] if k in AVOID_INT]
    classes = [ci for ci in isaenum.classes(isa) if ci.mnemonic not in DATA_MNEMONICS
               and not ci.cls.__module__.endswith("data_instructions")]
    classes = [ci for i, ci in enumerate(classes) if i % spec["of"] == spec["slice"]]

    discarded, avoided, virtual, adjusted = {}, {}, {}, {}
    violations, samples = [], []
    per = {"classes": len(classes), "classes_judged": 0, "instances": 0, "evaluations": 0, "unparsed": 0,
           "reference_incomplete": 0, "table_size": refdis.table_size(isa)}

    def disc(why):
        discarded[why] = discarded.get(why, 0) + 1

    # phase 1: assignments (registers, alternatives, labels); integers provisional
    todo = []
    slot_facts = {}
    for ci in classes:
        if not ci.cls.syntax.formal_arguments:
            n = 1
        else:
            n = max(6, min(spec["n"], 4 * en.slot_cardinality(ci)))
        for _ in range(n):
            facts = []
            a = en.assignment(ci, facts)
            per["instances"] += 1
            a0 = oprange.zeroed(ci.cls, a)
            try:
                obj0 = isaenum.build(isa, ci.cls, a0)
            except BaseException:
                disc("construct-rejected")
                continue
            if isaenum.is_virtual(obj0):
                virtual[ci.key] = virtual.get(ci.key, 0) + 1
                break
            hit = None
            for key in avoid:
                try:
                    res = AVOID[key](isa, ci, a0, obj0)
                except Exception:
                    res = False
                if isinstance(res, list):   # the switch rewrote the assignment (narrower than skipping)
                    a0 = res
                    obj0 = isaenum.build(isa, ci.cls, a0)
                    adjusted[key] = adjusted.get(key, 0) + 1
                elif res:
                    hit = key
                    break
            if hit:
                avoided[hit] = avoided.get(hit, 0) + 1
                continue
            for f in facts:
                slot_facts.setdefault((ci.key,) + tuple(f["path"][1:]), f)
            todo.append((ci, a0))

    # phase 2: probe the integer operand slots
    slots = {}
    for ci, a0 in todo:
        for p in oprange.int_paths(ci.cls, a0):
            k = (ci.key,) + p
            if k not in slots:
                slots[k] = oprange.Slot(ci, p, a0)
            elif len(slots[k].candidates) < 6:
                slots[k].candidates.append(a0)
    prober = oprange.Prober(isa)
    prober.probe(list(slots.values()))
    slot_stat = {}
    problem_slots = []
    for k, s in slots.items():
        slot_stat[s.status] = slot_stat.get(s.status, 0) + 1
        if s.status != "ok":
            problem_slots.append("%s %s %s: %s (%s) template %s" % (isa, s.ci.key, list(s.path), s.status, s.detail,
                                                                    s.template))
        fact = slot_facts.get(k)
        if s.status == "no-identity":
            violations.append({
                "summary": "%s %s operand %s: no value reads back as printed (%s)" % (isa, s.ci.key, list(s.path),
                                                                                        s.detail),
                "case": {"isa": isa, "slot": s.as_json(), "template": s.template,
                         "reads": {str(v): s.reads.get(v) for v in sorted(s.reads)[:40]}}})
        elif s.status == "ok" and fact and fact.get("source") == "pattern" and fact.get("bits") \
                and not fact.get("transform"):
            core_hi = (1 << (fact["bits"] - 1)) - 1
            if s.step != 1 or s.hi < core_hi:
                violations.append({
                    "summary": "%s %s operand %s: declared %d-bit field %s but values read back only in "
                               "[%d, %d] step %d" % (isa, s.ci.key, list(s.path), fact["bits"], fact["field"], s.lo,
                                                     s.hi, s.step),
                    "case": {"isa": isa, "slot": s.as_json(), "fact": fact, "template": s.template}})

    # phase 3: final instances
    cyc = {}
    insts = []
    for ci, a0 in todo:
        a = a0
        paths = oprange.int_paths(ci.cls, a0)
        if paths:
            import copy

            a = copy.deepcopy(a0)
            for p in paths:
                s = slots[(ci.key,) + p]
                if s.status != "ok":
                    v = s.neutral
                else:
                    for _try in range(8):
                        if r.random() < 0.35 and s.hi > s.lo:
                            v = r.randrange(s.lo // s.step, s.hi // s.step + 1) * s.step
                        else:
                            c = cyc.get(s.key())
                            if c is None:
                                c = cyc[s.key()] = isaenum.Cycler(s.boundary() or [s.neutral], r)
                            v = c.next()
                        if not any(AVOID_INT[k](isa, ci, p, v) for k in avoid_int):
                            break
                    else:
                        v = s.neutral
                oprange.set_at(a, p, v)
        inst = isaenum.Instance(ci, a, [])
        if inst.error:
            disc("construct-rejected")
            continue
        try:
            with contextlib.redirect_stdout(io.StringIO()):
                data = bytes(inst.fresh().encode())
        except BaseException:
            disc("encode-rejected")
            continue
        if not data:
            disc("encodes-to-nothing")
            continue
        insts.append((ci, inst, data))

    # phase 4: decode and compare
    evals = 0
    hashes = set()
    judged = set()
    seen = set()
    viol_cls = {}
    uniq = []
    for ci, inst, data in insts:
        k = (ci.key, inst.text)
        if k in seen:
            disc("repeat")
            continue
        seen.add(k)
        uniq.append((ci, inst, data))
    B = 2500
    for i in range(0, len(uniq), B):
        part = uniq[i:i + B]
        dec = refdis.decode(isa, [d for _, _, d in part])
        for (ci, inst, data), d in zip(part, dec):
            verdict, detail = judge(isa, ci, inst, data, d)
            if verdict == "tool":
                disc("reference-tool-failed")
                continue
            if verdict == "unparsed":
                per["unparsed"] += 1
                if len(samples) < 1:
                    samples.append({"unparsed": inst.text, "reference": d.text})
                continue
            if verdict == "reference-incomplete":
                per["reference_incomplete"] += 1
                continue
            evals += 1
            judged.add(ci.key)
            if ci.cls.syntax.formal_arguments:
                hashes.add(h([isa, ci.key, inst.text]))
            if verdict == "ok":
                if len(samples) < 3 and len(inst.text) > 14 and r.random() < 0.01:
                    samples.append({"isa": isa, "class": ci.key, "text": inst.text, "bytes": data.hex(),
                                    "reference": d.text})
                continue
            vc = viol_cls.get(ci.key, 0)
            viol_cls[ci.key] = vc + 1
            if vc < (1 if spec.get("dev") else 2) and len(violations) < (500 if spec.get("dev") else 14):
                case = inst.describe()
                case.update({"bytes": data.hex(), "reference": d.as_json(), "detail": detail})
                violations.append({
                    "summary": "%s %s: `%s` = %s decodes as `%s` (%s)" % (isa, ci.key, inst.text, data.hex(), d.text,
                                                                          detail),
                    "case": case, "replay_spec": {"cases": [[isa, ci.key, inst.assignment]]}})
    per["evaluations"] = evals
    per["classes_judged"] = len(judged)
    per["violating_classes"] = len(viol_cls)
    inconclusive = []
    total = evals + per["unparsed"]
    if total and per["unparsed"] / total >= MAX_UNPARSED_SHARE:
        inconclusive.append("%s slice %d: normaliser could not parse %d of %d lines" % (
            isa, spec["slice"], per["unparsed"], total))
    observed = {"per_isa": {isa: per}, "isas": {isa: 1}, "slots": slot_stat,
                "virtual_listed_not_judged": {isa: virtual}, "avoided_by_open_finding": avoided, "adjusted_by_open_finding": adjusted,
                "problem_slots": problem_slots[:40], "probe_instances": prober.probe_instances, "decoder_runs": prober.decoder_runs}
    return {"evaluations": evals, "nontrivial_hashes": sorted(hashes), "observed": observed, "discarded": discarded,
            "samples": samples, "violations": violations, "inconclusive": inconclusive}


def judge(isa, ci, inst, data, d):
    from vlib import refdis, oprange

    if d.status in ("tool-crash", "missing"):
        return "tool", None
    if d.status == "invalid":
        if isa == "m68k":
            return "reference-incomplete", None
        return "violation", "reference reads the bytes as invalid"
    if d.status == "length":
        return "violation", "length: ppci %d bytes, reference decodes %s" % (len(data), d.nbytes)
    labels = oprange.labels_of(ci.cls, inst.assignment)
    p = refdis.norm_ppci(isa, inst.text, labels)
    rr = refdis.norm_ref(isa, d.text)
    if p is None or rr is None:
        return "unparsed", None
    m, atoms, why = refdis.rewrite(isa, *p)
    ok, det = refdis.same(isa, (m, atoms), rr)
    if ok:
        return "ok", None
    return "violation", det


def replay(spec):
    from vlib import isaenum, refdis

    out = {"evaluations": 0, "violations": []}
    for isa, key, assignment in spec["cases"]:
        ci = isaenum.class_by_key(isa, key)
        inst = isaenum.Instance(ci, assignment, [])
        data = bytes(inst.fresh().encode())
        d = refdis.decode(isa, [data])[0]
        verdict, detail = judge(isa, ci, inst, data, d)
        out["evaluations"] += 1
        if verdict == "violation":
            out["violations"].append({"summary": "%s %s: `%s` = %s decodes as `%s` (%s)" % (
                isa, key, inst.text, data.hex(), d.text, detail), "case": inst.describe()})
    return out
