"""C08 instruction encodings agree with an independent reference disassembler (DESIGN 4, C08).

R  the reference decoder reads ppci's bytes as a different operation, a different operand
   value, a different length, or as invalid.
O  vlib.refdis: llvm-objdump-14 for arm, thumb, riscv, riscv:rvc, x86_64, mips, msp430, avr,
   m68k.  GNU objdump (x86-64 only here) is NOT used as second decoder: its Intel syntax prints the
   redundant REX prefixes ppci always emits as separate `rex`/`rex.W` pseudo-prefixes and would need
   a second normaliser; refdis.run_gnu_x86 exists for whoever wants to add it.
W  vlib.isaenum over those ISAs.  Registers / constructor alternatives / labels come from the
   enumerator's slot cyclers.  Integer operands are drawn from the range in which "printed ==
   decoded" can be demanded: vlib.oprange probes, through ppci's encoder and the reference
   decoder, step / lo / hi of every integer operand slot (is -1 read back as -1? is 2^k-1?).
   Values outside that range (accepted but aliased or truncated) are C10's subject.  The
   probe cannot absorb a wrong field: a slot where no step in 1,2,4,8,16 reads back unchanged
   is a violation, and so is a slot whose range is smaller than the core half [0, 2^(n-1)) of
   the n-bit token field ppci itself declares for the operand.
H  bytes of ``instr.encode()``; ``str(instr)`` taken BEFORE encoding.

Narrowed, stated: or1k, xtensa, microblaze have no reference decoder here (not covered; stm8
and mcs6500 are not in the property).  Label operands are encoded unrelocated (field 0): the
printed label matches any integer the reference shows at that position (resolution is C11).
m68k: LLVM 14's M68k disassembler is incomplete (valid 0x4612 `not.b (%a2)` reads as
<unknown>), so "decoded as invalid" is counted as reference_incomplete there, not judged.
Data directives (db/dw/dd/dq/dcd/.byte/.zero) and pseudo-instructions without encoding are
not instructions and are skipped.
"""
import contextlib
import io

from vlib.core import rng, h

PROPERTY = "C08"
RULE = ("instruction classes of arm, thumb, riscv, rvc, x86_64, mips, msp430, avr, m68k instantiated by "
        "vlib.isaenum (all registers of each register operand, every constructor alternative, labels) with "
        "integer operands drawn from the reference-probed representable range of each operand slot (boundaries "
        "lo, lo+step, -step, 0, step, hi-step, hi, hi/2 and random); evaluation = one instance whose bytes were "
        "decoded by llvm-objdump and compared (operation, operand atoms, length); non-trivial = has at least one "
        "operand; distinct by hash of (isa, class, printed text)")
ASSUMPTIONS = ["llvm-objdump 14 decodes arm/thumb/riscv32imafdc/x86-64/mipsel/msp430/avr correctly; its M68k "
               "decoder is trusted only where it produces an instruction",
               "the 40-line ELF writer in vlib.refdis wraps bytes without altering them (objdump echoes the bytes; "
               "the echoed byte count is compared with the instance size)",
               "the equivalence table in vlib.refdis (ABI register names, pseudo-instruction spellings) only "
               "aligns spellings; every entry is justified there"]
MANIFEST_ENTRY = {
    "text": "Encoded bytes of every instruction class of 9 ISAs, over all registers, alternatives and the "
            "reference-probed range of every immediate, are decoded by llvm-objdump and must show the operation "
            "and operands ppci prints, with the same length.",
    "note": "or1k/xtensa/microblaze: no reference decoder in the sandbox. m68k: 'invalid' verdicts of LLVM's "
            "incomplete M68k decoder are not judged. Labels unrelocated (C11 resolves them). Out-of-range "
            "immediates are C10's subject. Constructs of open findings are not generated.",
    "technique": "runtime monitoring: differential decoding against llvm-objdump over an enumerated ISA workload",
}

SHARD_TIMEOUT = {"quick": 1500, "thorough": 4 * 3600}
SLICES = {"riscv": 2, "riscv:rvc": 3, "arm": 2, "arm:thumb": 2, "x86_64": 6, "mips": 1, "msp430": 2, "avr": 2,
          "m68k": 2}
PER_CLASS = {"quick": 60, "thorough": 1500}
DATA_MNEMONICS = {"db", "dw", "dd", "dq", "dcd", "dcd=", ".byte", ".zero", "ds"}
# classes not judged because the reference decoder is unreliable for them (stated narrowing):
# LLVM 14's AVR disassembler reads valid `ld r22, X` (0x916c) as <unknown>, prints ldd's pointer register as a raw
# number (`ld r5, 2` for `ldd r5, Y+0`) and relative branch targets as `<unknown>`, and crashes on some of them
REF_UNRELIABLE = {"avr": {"ld", "ldd", "st", "std", "lpm", "lds", "sts", "rjmp", "brne", "breq", "brlt", "brge",
                          "brcs", "brcc", "brsh", "brlo", "brmi", "brpl"},
                  # m68k Bcc/bra/bsr are emitted in the 68020 form (8-bit displacement 0xff + 32-bit displacement);
                  # LLVM 14's M68k decoder knows the 68000 forms only and reads 2 bytes
                  "m68k": {"bne", "beq", "bge", "blt", "bgt", "ble", "bra", "bsr"}}
PREFIX_MNEMONICS = {"rep"}    # x86 prefixes modelled as instructions: a lone prefix has no decoding
MAX_UNPARSED_SHARE = 0.05


def EXHAUSTIVE(tier):
    return False


def plan(tier, seed, avoid):
    return [{"arch": a, "slice": s, "of": k, "n": PER_CLASS[tier]} for a, k in SLICES.items() for s in range(k)]


def floors(tier):
    f = {"evaluations": 15000, "distinct_nontrivial": 10000, "observed.isas": 9, "observed.slots.ok": 90}
    for a in SLICES:
        f["observed.per_isa.%s.classes_judged" % a] = 20
        f["observed.per_isa.%s.evaluations" % a] = 400
    return f


# ---------------------------------------------------------------------------
# avoid switches (structural: isa, class, assignment with integers zeroed, built object)

# AVOID[key](isa, ci, a0, obj0) -> True (do not generate) | list (adjusted assignment) | False
# AVOID_INT[key](isa, ci, path, value) -> True: do not draw this value for this integer operand
AVOID = {}
AVOID_INT = {}
PROBES = {}


def _map_regs(cls, assignment, fn):
    """Copy of an assignment with every register name passed through fn (recursively)."""
    from vlib import isaenum

    out = []
    for op, a in zip(cls.syntax.formal_arguments, assignment):
        k = isaenum.operand_kind(op)
        if k == "reg":
            out.append({"r": fn(a["r"])})
        elif k == "alt":
            out.append({"alt": a["alt"], "args": _map_regs(op._cls[a["alt"]], a["args"], fn)})
        else:
            out.append(a)
    return out


# ---- riscv / rvc ------------------------------------------------------------

RVC_CREG = {"c.sub", "c.xor", "c.or", "c.and", "c.srli", "c.srai", "c.andi", "c.beqz", "c.bneqz", "c.lw", "c.sw",
            "c.addi4spn"}
RVC_TWO_ADDRESS = {"c.slli", "c.srli", "c.srai", "c.andi"}


def av_riscv_ble(isa, ci, a0, obj0):
    return isa.startswith("riscv") and ci.mnemonic == "bge"


def av_rvc_creg(isa, ci, a0, obj0):
    if isa == "riscv:rvc" and ci.mnemonic in RVC_CREG:
        def up(name):
            n = int(name[1:])
            return "x%d" % (n + 8) if n < 8 else name
        new = _map_regs(ci.cls, a0, up)
        return new if new != a0 else False
    return False


def av_rvc_two_address(isa, ci, a0, obj0):
    if isa == "riscv:rvc" and ci.mnemonic in RVC_TWO_ADDRESS:
        new = list(a0)
        new[1] = dict(new[0])      # printed source := destination
        return new if new != a0 else False
    return False


def av_rvc_reserved(isa, ci, a0, obj0):
    if isa != "riscv:rvc":
        return False
    regs = reg_names(obj0)
    m = ci.mnemonic
    if m in ("c.addi", "c.lwsp", "c.li", "c.lui", "c.mv", "c.jr", "c.jalr", "c.slli") and regs and regs[0] == "x0":
        return True     # rd/rs1 = x0 selects c.nop / a reserved encoding / a hint
    if m == "c.mv" and len(regs) > 1 and regs[1] == "x0":
        return True     # c.mv rd, x0 is the encoding of c.jr rd
    if m == "c.lui" and regs and regs[0] == "x2":
        return True     # c.lui x2 is the encoding of c.addi16sp
    return False


def avi_rvc_reserved(isa, ci, path, v):
    # zero immediates are reserved encodings / 64-bit shift hints
    return isa == "riscv:rvc" and v == 0 and ci.mnemonic in ("c.slli", "c.srli", "c.srai", "c.addi4spn",
                                                              "c.addi16sp", "c.lui", "c.addi")


def encodable(isa, ci, a0):
    """Does the assignment encode with its integers at 0 or 4? (templates for range probing must)"""
    from vlib import isaenum, oprange

    for z in (0, 4):
        try:
            with contextlib.redirect_stdout(io.StringIO()):
                isaenum.build(isa, ci.cls, oprange.zeroed(ci.cls, a0, z)).encode()
            return True
        except BaseException:
            continue
    return False


def av_arm_mcr_p10(isa, ci, a0, obj0):
    return isa == "arm" and ci.mnemonic in ("mcr", "mrc") and bool({"p10", "p11"} & set(reg_names(obj0)))


def ref_skip(isa, ci, obj0):
    """Forms on which the reference tool itself crashes (llvm-objdump 14 segfaults on msp430 `push @rN[+]`)."""
    return isa == "msp430" and ci.mnemonic == "push" and bool({"MemSrc", "MemSrcInc"} & set(alt_names(obj0)))


def slot_key(ci, path):
    """Integer operands owned by a constructor alternative (x86 RmMemDisp.disp, msp430 MemDst.imm ...) share one
    probed range per (alternative class, operand): the range is a property of that constructor's field.  Operands
    of the instruction class itself are probed per class."""
    if any(isinstance(p, str) for p in path):
        return ("~alt", owner_at(ci.cls, path).__name__, path[-1])
    return (ci.key,) + tuple(path)


def owner_at(cls, path):
    """Constructor class that owns the integer operand at `path` (follows "altN" steps)."""
    cur = cls
    idx = None
    for p in path:
        if isinstance(p, int):
            idx = p
        else:
            cur = cur.syntax.formal_arguments[idx]._cls[int(p[3:])]
    return cur


def avi_arm_shift_zero(isa, ci, path, v):
    # LSR/ASR #0 in the shifter operand encode "shift by 32" (ARM ARM A8.4.1)
    if isa == "arm" and v == 0 and len(path) > 1:
        owner = owner_at(ci.cls, path).__name__.lower()
        return "lsr" in owner or "asr" in owner or "ror" in owner
    return False


def avi_thumb_halfword(isa, ci, path, v):
    return isa == "arm:thumb" and ci.mnemonic in ("strh", "ldrh") and v != 0 and len(path) == 1


# ---- x86_64 -------------------------------------------------------------------


def _is_rm32_unary(ci):
    if ci.cls.__name__ not in ("Shr", "Shl", "Not", "Neg", "Dec", "Inc", "Jmp"):
        return False
    ops = ci.cls.syntax.formal_arguments
    return bool(ops) and isinstance(ops[0]._cls, tuple) and any(a.__name__ == "RmReg32" for a in ops[0]._cls)


def av_x86_shl(isa, ci, a0, obj0):
    return isa == "x86_64" and ci.cls.__name__ == "Shl"


def av_x86_shlcl(isa, ci, a0, obj0):
    return isa == "x86_64" and ci.cls.__name__ == "ShlCl"


def av_x86_rm32(isa, ci, a0, obj0):
    return isa == "x86_64" and _is_rm32_unary(ci)


def av_x86_high_byte(isa, ci, a0, obj0):
    return isa == "x86_64" and bool({"ah", "ch", "dh", "bh"} & set(reg_names(obj0)))


def av_x86_cvtsi2s_abs(isa, ci, a0, obj0):
    return isa == "x86_64" and ci.cls.__name__ in ("Cvtsi2ss", "Cvtsi2sd") and "RmAbsLabel" in alt_names(obj0)


def av_x86_lea_reg(isa, ci, a0, obj0):
    return isa == "x86_64" and ci.mnemonic == "lea" and "RmReg64" in alt_names(obj0)


def av_thumb_asr(isa, ci, a0, obj0):
    return isa == "arm:thumb" and ci.mnemonic == "lsr" and ci.cls.__name__ == "lsr_ins"


# ---- mips -----------------------------------------------------------------------


def av_mips_shiftv(isa, ci, a0, obj0):
    return isa == "mips" and ci.mnemonic in ("sllv", "srlv", "srav")


def av_mips_jr(isa, ci, a0, obj0):
    return isa == "mips" and ci.mnemonic in ("jr", "jalr")


def av_mips_swr(isa, ci, a0, obj0):
    return isa == "mips" and ci.mnemonic == "swr"


def av_mips_lui(isa, ci, a0, obj0):
    return isa == "mips" and ci.mnemonic == "lui"


def av_avr_subi(isa, ci, a0, obj0):
    return isa == "avr" and ci.mnemonic == "sbci"


def av_avr_call(isa, ci, a0, obj0):
    return isa == "avr" and ci.mnemonic == "call"


def av_m68k_sub(isa, ci, a0, obj0):
    return isa == "m68k" and ci.mnemonic in ("subb", "subw", "subl")


def av_m68k_imm_long(isa, ci, a0, obj0):
    return isa == "m68k" and ci.mnemonic.endswith("l") and "ImmediateEa" in alt_names(obj0)


MSP430_SRC_ALTS = ("RegSrc", "MemSrc", "MemSrcInc", "MemSrcOffset")


def av_msp430_special_src(isa, ci, a0, obj0):
    """Source operands using r0/r2/r3 in a general addressing mode select immediate mode / the constant generators."""
    from vlib import isaenum

    if isa != "msp430":
        return False
    for op in obj0.syntax.formal_arguments:
        if isaenum.operand_kind(op) == "alt":
            v = op.__get__(obj0)
            if type(v).__name__ in MSP430_SRC_ALTS and {"r0", "r2", "r3"} & set(reg_names(v)):
                return True
    return False


def av_msp430_oneop_imm(isa, ci, a0, obj0):
    return (isa == "msp430" and ci.mnemonic in ("rrc", "rrc.b", "rra", "rra.b", "swpb", "sxt")
            and bool({"ConstSrc", "SmallConstSrc", "ConstLabelSrc"} & set(alt_names(obj0))))


def av_rvc_cbnez(isa, ci, a0, obj0):
    return isa == "riscv:rvc" and ci.mnemonic == "c.bneqz"


def _glued(stx):
    from ppci.arch.encoding import Operand

    s = stx.syntax
    return any(isinstance(a, str) and a.isidentifier() and isinstance(b, Operand) and not isinstance(b._cls, tuple)
               for a, b in zip(s, s[1:]))


def av_glued(isa, ci, a0, obj0):
    from vlib import isaenum

    def any_glued(obj):
        if _glued(obj.syntax):
            return True
        return any(isaenum.operand_kind(op) == "alt" and any_glued(op.__get__(obj))
                   for op in obj.syntax.formal_arguments)
    return any_glued(obj0)


AVOID.update({
    "riscv-ble-prints-bge": av_riscv_ble,
    "rvc-compressed-register-wraps": av_rvc_creg,
    "rvc-two-address-source-not-encoded": av_rvc_two_address,
    "rvc-reserved-encodings-accepted": av_rvc_reserved,
    "rvc-cbnez-spelt-cbneqz": av_rvc_cbnez,
    "thumb-asr-prints-lsr": av_thumb_asr,
    "mips-variable-shift-operands-swapped": av_mips_shiftv,
    "mips-jr-jalr-encode-zero": av_mips_jr,
    "mips-swr-wrong-opcode": av_mips_swr,
    "mips-lui-has-source-register": av_mips_lui,
    "avr-subi-prints-sbci": av_avr_subi,
    "avr-call-encodes-rcall": av_avr_call,
    "m68k-sub-encodes-add": av_m68k_sub,
    "m68k-long-immediate-16bit": av_m68k_imm_long,
    "msp430-special-source-registers-accepted": av_msp430_special_src,
    "msp430-one-operand-accepts-immediate": av_msp430_oneop_imm,
    "arm-mcr-p10-p11-is-fp-simd-space": av_arm_mcr_p10,
    "x86-shl-encodes-shr": av_x86_shl,
    "x86-shlcl-uses-sal-alias-encoding": av_x86_shlcl,
    "x86-rm32-unary-encoded-64bit": av_x86_rm32,
    "x86-high-byte-register-with-rex": av_x86_high_byte,
    "x86-lea-accepts-register-source": av_x86_lea_reg,
    "x86-cvtsi2s-abs-label-relocation-offset": av_x86_cvtsi2s_abs,
})
AVOID_INT.update({
    "rvc-reserved-encodings-accepted": avi_rvc_reserved,
    "arm-shift-zero-encodes-32": avi_arm_shift_zero,
    "thumb-strh-ldrh-offset-scaling": avi_thumb_halfword,
})


def alt_names(obj, out=None):
    from vlib import isaenum

    out = [] if out is None else out
    if getattr(obj, "syntax", None):
        for op in obj.syntax.formal_arguments:
            if isaenum.operand_kind(op) == "alt":
                v = op.__get__(obj)
                out.append(type(v).__name__)
                alt_names(v, out)
    return out


def reg_names(obj, out=None):
    from vlib import isaenum

    out = [] if out is None else out
    if getattr(obj, "syntax", None):
        for op in obj.syntax.formal_arguments:
            k = isaenum.operand_kind(op)
            if k == "reg":
                out.append(op.__get__(obj).name)
            elif k == "alt":
                reg_names(op.__get__(obj), out)
    return out


# ---------------------------------------------------------------------------


def run_shard(spec):
    from vlib import isaenum, refdis, oprange

    if "cases" in spec:
        return replay(spec)
    isa = spec["arch"]
    if not refdis.available(isa):
        return {"evaluations": 0, "inconclusive": ["reference decoder for %s missing" % isa]}
    r = rng(spec["seed"], PROPERTY, "%s/%s/%s" % (isa, spec["slice"], spec["of"]))
    en = isaenum.Enumerator(isa, r)
    avoid = [k for k in spec["avoid"] if k in AVOID]
    avoid_int = [k for k in spec["avoid"] if k in AVOID_INT]
    classes = [ci for ci in isaenum.classes(isa) if ci.mnemonic not in DATA_MNEMONICS | PREFIX_MNEMONICS
               and not ci.cls.__module__.endswith("data_instructions")]
    classes = [ci for ci in classes if ci.mnemonic not in REF_UNRELIABLE.get(isa, ())]
    classes = [ci for i, ci in enumerate(classes) if i % spec["of"] == spec["slice"]]

    discarded, avoided, virtual, adjusted = {}, {}, {}, {}
    violations, samples = [], []
    per = {"classes": len(classes), "classes_judged": 0, "instances": 0, "evaluations": 0, "unparsed": 0,
           "reference_incomplete": 0, "table_size": refdis.table_size(isa)}

    def disc(why):
        discarded[why] = discarded.get(why, 0) + 1

    # phase 1: assignments (registers, alternatives, labels); integers provisional
    todo = []
    slot_facts = {}
    for ci in classes:
        if not ci.cls.syntax.formal_arguments:
            n = 1
        else:
            n = max(6, min(spec["n"], (4 if spec["n"] <= 200 else 40) * en.slot_cardinality(ci)))
        for _ in range(n):
            facts = []
            a = en.assignment(ci, facts)
            per["instances"] += 1
            a0 = oprange.zeroed(ci.cls, a)
            try:
                obj0 = isaenum.build(isa, ci.cls, a0)
            except BaseException:
                disc("construct-rejected")
                continue
            if isaenum.is_virtual(obj0):
                virtual[ci.key] = virtual.get(ci.key, 0) + 1
                break
            if ref_skip(isa, ci, obj0):
                disc("reference-decoder-crashes-on-this-form")
                continue
            hit = None
            for key in avoid:
                try:
                    res = AVOID[key](isa, ci, a0, obj0)
                except Exception:
                    res = False
                if isinstance(res, list):   # the switch rewrote the assignment (narrower than skipping)
                    a0 = res
                    obj0 = isaenum.build(isa, ci.cls, a0)
                    adjusted[key] = adjusted.get(key, 0) + 1
                elif res:
                    hit = key
                    break
            if hit:
                avoided[hit] = avoided.get(hit, 0) + 1
                continue
            for f in facts:
                slot_facts.setdefault(slot_key(ci, tuple(f["path"][1:])), f)
            todo.append((ci, a0))

    # phase 2: probe the integer operand slots
    slots = {}
    for ci, a0 in todo:
        for p in oprange.int_paths(ci.cls, a0):
            k = slot_key(ci, p)
            if k not in slots:
                slots[k] = oprange.Slot(ci, p, a0)
                slots[k].candidates = []
            if len(slots[k].candidates) < 6 and encodable(isa, ci, a0):
                slots[k].candidates.append(a0)
    for s in slots.values():
        if not s.candidates:
            s.candidates = [s.template]
    prober = oprange.Prober(isa)
    prober.probe(list(slots.values()))
    slot_stat = {}
    problem_slots = []
    for k, s in slots.items():
        slot_stat[s.status] = slot_stat.get(s.status, 0) + 1
        if s.status != "ok":
            problem_slots.append("%s %s %s: %s (%s) template %s" % (isa, s.ci.key, list(s.path), s.status, s.detail,
                                                                    s.template))
        fact = slot_facts.get(k)
        if any(AVOID_INT[key](isa, s.ci, s.path, 1) and AVOID_INT[key](isa, s.ci, s.path, 2) for key in avoid_int):
            s.status = "avoided"       # an open finding explains this operand; only its neutral value is drawn
            slot_stat["avoided"] = slot_stat.get("avoided", 0) + 1
            continue
        if s.status == "no-identity":
            violations.append({
                "summary": "%s %s operand %s: no value reads back as printed (%s)" % (isa, s.ci.key, list(s.path),
                                                                                        s.detail),
                "case": {"isa": isa, "slot": s.as_json(), "template": s.template,
                         "reads": {str(v): s.reads.get(v) for v in sorted(s.reads)[:40]}}})
        elif s.status == "ok" and s.bit_holes:
            k = s.bit_holes[0]
            violations.append({
                "summary": "%s %s operand %s: bit %d of the operand is not encoded (value %d reads back as %s) although "
                           "higher bits are" % (isa, s.ci.key, list(s.path), k, 1 << k, s.reads.get(1 << k)),
                "case": {"isa": isa, "slot": s.as_json(), "holes": s.bit_holes, "template": s.template}})
        elif s.status == "ok" and fact and fact.get("source") == "pattern" and fact.get("bits") \
                and not fact.get("transform"):
            core_hi = (1 << (fact["bits"] - 1)) - 1
            if s.step != 1 or s.hi < core_hi:
                violations.append({
                    "summary": "%s %s operand %s: declared %d-bit field %s but values read back only in "
                               "[%d, %d] step %d" % (isa, s.ci.key, list(s.path), fact["bits"], fact["field"], s.lo,
                                                     s.hi, s.step),
                    "case": {"isa": isa, "slot": s.as_json(), "fact": fact, "template": s.template}})

    # phase 3: final instances
    cyc = {}
    insts = []
    post_encode = {}
    avoid_post = [k for k in spec["avoid"] if k == "riscv-encode-rewrites-immediate" and isa.startswith("riscv")]
    for ci, a0 in todo:
        a = a0
        paths = oprange.int_paths(ci.cls, a0)
        if paths:
            import copy

            a = copy.deepcopy(a0)
            for p in paths:
                s = slots[slot_key(ci, p)]
                if s.status != "ok":
                    v = s.neutral
                    if any(AVOID_INT[k](isa, ci, p, v) for k in avoid_int):
                        a = None
                        break
                else:
                    for _try in range(8):
                        if r.random() < 0.35 and s.hi > s.lo:
                            v = r.randrange(s.lo // s.step, s.hi // s.step + 1) * s.step
                        else:
                            c = cyc.get(s.key())
                            if c is None:
                                c = cyc[s.key()] = isaenum.Cycler(s.boundary() or [s.neutral], r)
                            v = c.next()
                        if not any(AVOID_INT[k](isa, ci, p, v) for k in avoid_int):
                            break
                    else:
                        v = s.neutral
                oprange.set_at(a, p, v)
            if a is None:
                disc("only-avoided-values-available")
                continue
        inst = isaenum.Instance(ci, a, [])
        if inst.error:
            disc("construct-rejected")
            continue
        try:
            with contextlib.redirect_stdout(io.StringIO()):
                enc_obj = inst.fresh()
                data = bytes(enc_obj.encode())
                after = str(enc_obj)
        except BaseException:
            disc("encode-rejected")
            continue
        if after != inst.text and "riscv-encode-rewrites-immediate" not in avoid_post:
            post_encode.setdefault(ci.key, (inst, after))
        if not data:
            disc("encodes-to-nothing")
            continue
        insts.append((ci, inst, data))

    # encode() must not change what the instruction prints (the printed operand would no longer be the
    # encoded one): `addi x5, x6, -12` prints `addi x5, x6, 4084` after encoding
    for key, (inst, after) in sorted(post_encode.items()):
        if len(violations) < 14:
            violations.append({
                "summary": "%s %s: prints `%s` before encode() and `%s` after it" % (isa, key, inst.text, after),
                "case": dict(inst.describe(), text_after_encode=after),
                "replay_spec": {"cases": [[isa, key, inst.assignment]], "post_encode": True}})

    # phase 4: decode and compare
    evals = 0
    hashes = set()
    judged = set()
    seen = set()
    viol_cls = {}
    uniq = []
    tool_failed = []
    reloc_stat = {}
    for ci, inst, data in insts:
        k = (ci.key, inst.text)
        if k in seen:
            disc("repeat")
            continue
        seen.add(k)
        uniq.append((ci, inst, data))
    B = 2500
    for i in range(0, len(uniq), B):
        part = uniq[i:i + B]
        part, targets = relocate(isa, part, r, reloc_stat)
        dec = refdis.decode(isa, [d for _, _, d in part])
        for (ci, inst, data), d, tg in zip(part, dec, targets):
            verdict, detail = judge(isa, ci, inst, data, d, tg)
            if verdict == "tool":
                disc("reference-tool-failed")
                if len(tool_failed) < 6:
                    tool_failed.append("%s %s `%s` %s" % (isa, ci.key, inst.text, data.hex()))
                continue
            if verdict == "unparsed":
                per["unparsed"] += 1
                if len(samples) < 1:
                    samples.append({"unparsed": inst.text, "reference": d.text})
                continue
            if verdict == "reference-incomplete":
                per["reference_incomplete"] += 1
                continue
            evals += 1
            judged.add(ci.key)
            if ci.cls.syntax.formal_arguments:
                hashes.add(h([isa, ci.key, inst.text]))
            if verdict == "ok":
                if len(samples) < 3 and len(inst.text) > 14 and r.random() < 0.01:
                    samples.append({"isa": isa, "class": ci.key, "text": inst.text, "bytes": data.hex(),
                                    "reference": d.text})
                continue
            vc = viol_cls.get(ci.key, 0)
            viol_cls[ci.key] = vc + 1
            if vc < (1 if spec.get("dev") else 2) and len(violations) < (500 if spec.get("dev") else 14):
                case = inst.describe()
                case.update({"bytes": data.hex(), "reference": d.as_json(), "detail": detail})
                violations.append({
                    "summary": "%s %s: `%s` = %s decodes as `%s` (%s)" % (isa, ci.key, inst.text, data.hex(), d.text,
                                                                          detail),
                    "case": case, "replay_spec": {"cases": [[isa, ci.key, inst.assignment]]}})
    per["evaluations"] = evals
    per["classes_judged"] = len(judged)
    per["violating_classes"] = len(viol_cls)
    inconclusive = []
    total = evals + per["unparsed"]
    if total and per["unparsed"] / total >= MAX_UNPARSED_SHARE:
        inconclusive.append("%s slice %d: normaliser could not parse %d of %d lines" % (
            isa, spec["slice"], per["unparsed"], total))
    observed = {"per_isa": {isa: per}, "isas": {isa: 1}, "slots": slot_stat,
                "virtual_listed_not_judged": {isa: virtual}, "avoided_by_open_finding": avoided, "adjusted_by_open_finding": adjusted,
                "problem_slots": problem_slots[:40], "post_encode_text_changed": len(post_encode), "relocations": reloc_stat, "reference_tool_failed_on": tool_failed, "probe_instances": prober.probe_instances, "decoder_runs": prober.decoder_runs}
    return {"evaluations": evals, "nontrivial_hashes": sorted(hashes), "observed": observed, "discarded": discarded,
            "samples": samples, "violations": violations, "inconclusive": inconclusive}


DISTANCES = (64, -64, 16, -16, 32)    # small: inside every relocation's range (range edges are C10/C11's)


def relocate(isa, part, r, stat):
    """Give label operands numeric values: apply each instance's relocations the way the linker does.

    Returns the instances with patched bytes and, per instance, None (no label / not applied) or
    (S, P, d): symbol value, address of the instance, distance.  An instance whose relocation cannot be
    applied with any of a few distances stays unrelocated (its label then matches any integer)."""
    from vlib import refdis, isaenum

    arch = isaenum.get_arch(isa)
    _, spans = refdis.layout(isa, [d for _, _, d in part])
    out, targets = [], []
    for (ci, inst, data), (off, size) in zip(part, spans):
        tg = None
        try:
            rels = inst.fresh().relocations()
        except BaseException:
            rels = []
        if rels:
            order = list(DISTANCES)
            r.shuffle(order)
            for d in order:
                if off + d < 0:
                    continue       # keep symbol values non-negative (addresses)
                try:
                    buf = bytearray(data)
                    for rel in rels:
                        rcls = arch.isa.relocation_map[rel.name]
                        ro = rcls(None, offset=rel.offset, addend=rel.addend)
                        n = ro.size()
                        piece = ro.apply(off + d + rel.addend, bytearray(buf[rel.offset:rel.offset + n]), off + rel.offset)   # S + A, as the linker does
                        assert len(piece) == n
                        buf[rel.offset:rel.offset + n] = piece
                    data = bytes(buf)
                    tg = (off + d, off, d)
                    stat[rels[0].name] = stat.get(rels[0].name, 0) + 1
                    break
                except BaseException:
                    continue
            if tg is None:
                stat["not-applied:" + rels[0].name] = stat.get("not-applied:" + rels[0].name, 0) + 1
        out.append((ci, inst, data))
        targets.append(tg)
    return out, targets


def label_values(isa, tg, size):
    """Integers a reference may legitimately print for a label with value S seen from address P."""
    if tg is None:
        return None
    S, P, d = tg
    vals = {S, d, S & 0xFFFFFFFF, S & 0xFFFFFFFFFFFFFFFF, S & 0x0FFFFFFF, S & 0xFFFF}   # addresses wrap in the reference's address space
    for k in (2, 4, 8, size):          # pc bias of the ISA / end of instruction
        vals.add(d - k)
    vals.add(d + 4)                    # riscv %pcrel_lo: relative to the auipc one instruction earlier
    vals.add((d - 4) & ~3 if isa == "arm:thumb" else d)   # thumb: Align(PC, 4)
    # hi/lo parts of absolute relocations (riscv %hi/%lo, avr low()/high(), mips)
    vals.update({S & 0xFFF, (S + 0x800) >> 12, S & 0xFFFF, S >> 16, S & 0xFF, (S >> 8) & 0xFF,
                 d & 0xFFF, (d + 0x800) >> 12})
    for x in (S, d):
        vals.add(((x & 0xFFF) ^ 0x800) - 0x800)            # sign-extended low 12 bits (riscv %lo)
        vals.add(((x + 0x800) >> 12) & 0xFFFFF)             # 20-bit upper part (riscv %hi), wrapped
    vals.update({v & 0xFFFF for v in list(vals)})    # 16-bit displacements printed unsigned (llvm m68k)
    return vals


def judge(isa, ci, inst, data, d, tg=None):
    from vlib import refdis, oprange

    if d.status in ("tool-crash", "missing"):
        return "tool", None
    if d.status == "invalid":
        if isa in ("m68k", "msp430"):
            return "reference-incomplete", None
        return "violation", "reference reads the bytes as invalid"
    if d.status == "length":
        return "violation", "length: ppci %d bytes, reference decodes %s" % (len(data), d.nbytes)
    labels = oprange.labels_of(ci.cls, inst.assignment)
    p = refdis.norm_ppci(isa, inst.text, labels, ci.mnemonic)
    rr = refdis.norm_ref(isa, d.text)
    if p is None or rr is None:
        return "unparsed", None
    m, atoms, why = refdis.rewrite(isa, *p)
    ok, det = refdis.same(isa, (m, atoms), rr, label_values(isa, tg, len(data)))
    if ok:
        return "ok", None
    return "violation", det


def replay(spec):
    from vlib import isaenum, refdis

    out = {"evaluations": 0, "violations": []}
    for isa, key, assignment in spec["cases"]:
        ci = isaenum.class_by_key(isa, key)
        inst = isaenum.Instance(ci, assignment, [])
        o = inst.fresh()
        data = bytes(o.encode())
        if spec.get("post_encode") and str(o) != inst.text:
            out["violations"].append({"summary": "%s %s: prints `%s` before encode() and `%s` after it" % (
                isa, key, inst.text, str(o)), "case": inst.describe()})
        d = refdis.decode(isa, [data])[0]
        verdict, detail = judge(isa, ci, inst, data, d)
        out["evaluations"] += 1
        if verdict == "violation":
            out["violations"].append({"summary": "%s %s: `%s` = %s decodes as `%s` (%s)" % (
                isa, key, inst.text, data.hex(), d.text, detail), "case": inst.describe()})
    return out


# ---------------------------------------------------------------------------
# witness probes of the open findings


def _witness(isa, obj_fn, labels=("lab1",)):
    """None if one hand-built instance decodes as printed, else what the reference sees."""
    from vlib import isaenum, refdis

    isaenum.get_arch(isa)
    obj = obj_fn()
    text = str(obj)
    data = bytes(obj_fn().encode())
    d = refdis.decode(isa, [data])[0]
    if d.status == "invalid":
        return "%s `%s` = %s: reference reads the bytes as invalid" % (isa, text, data.hex())
    if d.status != "ok":
        return "%s `%s` = %s: reference decodes %s bytes as `%s`" % (isa, text, data.hex(), d.nbytes, d.text)
    mn = None
    for e in obj.syntax.syntax:
        if isinstance(e, str) and not e.isspace():
            mn = (mn or "") + e
        else:
            break
    p = refdis.norm_ppci(isa, text, labels, mn)
    r = refdis.norm_ref(isa, d.text)
    if p is None or r is None:
        return None
    m, atoms, _ = refdis.rewrite(isa, *p)
    ok, det = refdis.same(isa, (m, atoms), r)
    return None if ok else "%s `%s` = %s decodes as `%s` (%s)" % (isa, text, data.hex(), d.text, det)


def probe_riscv_ble():
    from ppci.arch.riscv.instructions import Ble

    return _witness("riscv", lambda: Ble(_x(5), _x(6), "lab1"))


def probe_riscv_rewrite():
    from ppci.arch.riscv.instructions import Addi

    o = Addi(_x(5), _x(6), -12)
    before = str(o)
    o.encode()
    return None if str(o) == before else "riscv: `%s` prints `%s` after encode()" % (before, str(o))


def _rvc(name):
    from ppci.arch.riscv import rvc_instructions as rc

    return getattr(rc, name)


def _x(n):
    from ppci.arch.riscv.registers import RiscvRegister

    return [r for r in RiscvRegister.all_registers() if r.name == "x%d" % n][0]


def probe_rvc_creg():
    return _witness("riscv:rvc", lambda: _rvc("CSub")(_x(2), _x(3)))


def probe_rvc_two_address():
    return _witness("riscv:rvc", lambda: _rvc("CSrli")(_x(9), _x(12), 3))


def probe_rvc_reserved():
    return _witness("riscv:rvc", lambda: _rvc("CMovr")(_x(8), _x(0)))


def probe_rvc_cbnez():
    return _witness("riscv:rvc", lambda: _rvc("CBnez")(_x(9), "lab1"))


def probe_arm_shift_zero():
    from ppci.arch.arm import arm_instructions as ai
    from ppci.arch.arm.registers import R1, R2

    return _witness("arm", lambda: ai.Mov2(R1, R2, ai.ShiftAsr(0)))


def probe_arm_mcr():
    from ppci.arch.arm import arm_instructions as ai
    from ppci.arch.arm.registers import R1, Coproc, Coreg

    p10 = [r for r in Coproc.all_registers() if r.name == "p10"][0]
    c = Coreg.all_registers()
    return _witness("arm", lambda: ai.Mcr(p10, 2, R1, c[3], c[4], 1))


def probe_thumb_halfword():
    from ppci.arch.arm import thumb_instructions as ti
    from ppci.arch.arm.registers import R1, R2

    return _witness("arm:thumb", lambda: ti.Strh(R1, R2, 2)) or _witness("arm:thumb", lambda: ti.Ldrh(R1, R2, 2))


def probe_thumb_asr():
    from ppci.arch.arm import thumb_instructions as ti
    from ppci.arch.arm.registers import R1, R2

    return _witness("arm:thumb", lambda: ti.Asr(R1, R2))


def _x86():
    from ppci.arch.x86_64 import instructions as xi

    return xi


def _x86cls(name, width):
    xi = _x86()
    want = {16: "RmReg16", 32: "RmReg32", 64: "RmReg64"}[width]
    for c in xi.isa.instructions:
        if c.__name__ == name and c.syntax and isinstance(c.syntax.formal_arguments[0]._cls, tuple) and \
                any(a.__name__ == want for a in c.syntax.formal_arguments[0]._cls):
            return c
    raise KeyError(name)


def probe_x86_shl():
    from ppci.arch.x86_64.registers import rcx

    xi = _x86()
    return _witness("x86_64", lambda: _x86cls("Shl", 64)(xi.RmReg64(rcx)))


def probe_x86_shlcl():
    from ppci.arch.x86_64.registers import rdx

    xi = _x86()
    return _witness("x86_64", lambda: _x86cls("ShlCl", 64)(xi.RmReg64(rdx)))


def probe_x86_rm32():
    from ppci.arch.x86_64.registers import eax

    xi = _x86()
    return _witness("x86_64", lambda: _x86cls("Not", 32)(xi.RmReg32(eax)))


def probe_x86_high_byte():
    from ppci.arch.x86_64.registers import ah, bl

    xi = _x86()
    return _witness("x86_64", lambda: xi.MovRegRm8(ah, xi.RmReg8(bl)))


def probe_x86_lea():
    from ppci.arch.x86_64.registers import rax, rbx

    xi = _x86()
    return _witness("x86_64", lambda: xi.Lea(rax, xi.RmReg64(rbx)))


def probe_x86_cvtsi2s():
    """The abs32 relocation of `cvtsi2ss xmm, [label]` points one byte before the displacement."""
    from ppci.arch.x86_64 import sse2_instructions as s
    from ppci.arch.x86_64.registers import xmm_single_mp

    xi = _x86()
    o = s.Cvtsi2ss(xmm_single_mp[1], xi.RmAbsLabel("foo"))
    data = bytes(o.encode())
    rel = o.relocations()[0]
    want = len(data) - 4
    return None if rel.offset == want else (
        "x86_64 `%s` = %s: abs32 relocation at offset %d, the 32-bit displacement is at %d" % (
            o, data.hex(), rel.offset, want))


def _mips_regs():
    from ppci.arch.mips import instructions as mi

    return mi, {r.name: r for r in mi.MipsRegister.all_registers()}


def probe_mips_shiftv():
    mi, r = _mips_regs()
    return _witness("mips", lambda: mi.Sllv(r["a0"], r["a1"], r["v0"]))


def probe_mips_jr():
    mi, r = _mips_regs()
    o = mi.Jr(r["a0"])
    data = bytes(o.encode())
    return "mips `%s` encodes as %s (all zero: the class attribute is spelt `patters`)" % (o, data.hex()) \
        if data == bytes(4) else None


def probe_mips_swr():
    mi, r = _mips_regs()
    return _witness("mips", lambda: mi.Swr(r["a0"], 4, r["a1"]))


def probe_mips_lui():
    mi, r = _mips_regs()
    return _witness("mips", lambda: mi.Lui(r["a0"], r["a1"], 5))


def probe_avr_subi():
    from ppci.arch.avr.instructions import Subi
    from ppci.arch.avr.registers import r17

    return _witness("avr", lambda: Subi(r17, 5))


def probe_avr_call():
    from ppci.arch.avr import instructions as ai

    return _witness("avr", lambda: ai.Call("lab1"))


def probe_m68k_sub():
    from ppci.arch.m68k import instructions as mi
    from ppci.arch.m68k.registers import D1, D2

    return _witness("m68k", lambda: mi.Subl(mi.DataRegEa(D1), D2))


def probe_m68k_imm_long():
    from ppci.arch.m68k import instructions as mi
    from ppci.arch.m68k.registers import D1

    return _witness("m68k", lambda: mi.Andl(mi.ImmediateEa(5), D1))


def probe_msp430_special_src():
    from ppci.arch.msp430 import instructions as mi
    from ppci.arch.msp430.registers import r2, r7

    movw = [c for c in mi.isa.instructions if c.__name__ == "Movw"][0]
    return _witness("msp430", lambda: movw(mi.MemSrc(r2), mi.RegDst(r7)))


def probe_msp430_oneop():
    from ppci.arch.msp430 import instructions as mi

    swpb = [c for c in mi.isa.instructions if c.__name__ == "Swpb"][0]
    return _witness("msp430", lambda: swpb(mi.ConstSrc(5)))


PROBES.update({
    "riscv-ble-prints-bge": probe_riscv_ble,
    "riscv-encode-rewrites-immediate": probe_riscv_rewrite,
    "rvc-compressed-register-wraps": probe_rvc_creg,
    "rvc-two-address-source-not-encoded": probe_rvc_two_address,
    "rvc-reserved-encodings-accepted": probe_rvc_reserved,
    "rvc-cbnez-spelt-cbneqz": probe_rvc_cbnez,
    "arm-shift-zero-encodes-32": probe_arm_shift_zero,
    "arm-mcr-p10-p11-is-fp-simd-space": probe_arm_mcr,
    "thumb-strh-ldrh-offset-scaling": probe_thumb_halfword,
    "thumb-asr-prints-lsr": probe_thumb_asr,
    "x86-shl-encodes-shr": probe_x86_shl,
    "x86-shlcl-uses-sal-alias-encoding": probe_x86_shlcl,
    "x86-rm32-unary-encoded-64bit": probe_x86_rm32,
    "x86-high-byte-register-with-rex": probe_x86_high_byte,
    "x86-lea-accepts-register-source": probe_x86_lea,
    "x86-cvtsi2s-abs-label-relocation-offset": probe_x86_cvtsi2s,
    "mips-variable-shift-operands-swapped": probe_mips_shiftv,
    "mips-jr-jalr-encode-zero": probe_mips_jr,
    "mips-swr-wrong-opcode": probe_mips_swr,
    "mips-lui-has-source-register": probe_mips_lui,
    "avr-subi-prints-sbci": probe_avr_subi,
    "avr-call-encodes-rcall": probe_avr_call,
    "m68k-sub-encodes-add": probe_m68k_sub,
    "m68k-long-immediate-16bit": probe_m68k_imm_long,
    "msp430-special-source-registers-accepted": probe_msp430_special_src,
    "msp430-one-operand-accepts-immediate": probe_msp430_oneop,
})
