"""C12 linker placement and content preservation (DESIGN 4, C12).

Invariants only; no address is predicted.  For every generated link the monitor
observes the linked ObjectFile and checks

* conservation: every input section's bytes occur contiguously, once, in input
  order, in the output section of the same name, equal except at relocation
  sites.  The offset at which an input section was merged is *observed*, not
  modelled: the same injection sequence is linked a second time (partial link)
  with every input section's bytes replaced by a per-section tag byte; the tag
  runs in that output show where each input went (this "tracer" link is itself
  judged: runs must be contiguous, complete, in order);
* alignment: (final section address + merge offset) % input alignment == 0, also
  through a preceding partial link;
* layout: image per memory at the declared location; inputs of a memory appear
  in order without overlap; every SECTION lies inside its memory; ALIGN(k)
  holds for the next placed item; DEFINESYMBOL lies between its neighbours;
  SECTIONDATA(x) holds the final bytes of x; pairwise non-overlap inside an
  image; Image.data == sections pasted at address - image.address, zero fill;
* symbols: every defined input symbol is found (globals by name, locals as a
  multiset) at merge offset + input value in the same-named section and
  get_symbol_id_value == section address + that; extra_symbols are absolute;
  no global stays undefined after a final link; relocation records are carried
  over with shifted offsets and the same targets;
* errors: undefined symbol, duplicate global, overfull memory -> CompilerError;
  a valid link must not raise.  Exact fit is probed without a model: after a
  valid link every memory is shrunk to the image size the linker itself
  produced (must still link) and then by one byte (must raise CompilerError or
  still satisfy every invariant).

Workload: vlib.objgen object sets for 10 targets x generated layouts (objects or
layout text), staged partial links, archives as libraries, extra_symbols,
ENTRY/entry=, debug=True.

Narrowed: relocation *values* are C11's; a link that fails inside
Linker.do_relocations is discarded (counted), sites are masked.  The archive
member selection policy is observed (Linker.inject_object is wrapped in the
worker to log the injection sequence), not judged.  Relaxation (riscv:rvc) is
C13's and not generated.
"""
import io

from vlib.core import rng, h

PROPERTY = "C12"
RULE = ("objgen object sets (1-4 objects, 1-4 sections each, sizes 0..80, alignments 1..256, local/global/"
        "undefined symbols, relocations of the target's real types) linked with generated layouts (1-3 memories, "
        "SECTION/SECTIONDATA/ALIGN/DEFINESYMBOL/ENTRY, object or text form), optionally through partial links and "
        "archives; error cases undefined/duplicate/overfull; non-trivial = a link in which some output section is "
        "merged from >= 2 non-empty inputs or >= 2 sections are placed by the layout; distinct by hash of the case")
ASSUMPTIONS = ["the tracer link (same objects, tag bytes as content) reveals the merge offsets of the judged link "
               "because merging depends on sizes and alignments only; a disagreement shows up as a content mismatch",
               "objgen's generation-time relocation filter keeps relocation values representable; links failing "
               "inside do_relocations are discarded, not judged",
               "python bytes/int arithmetic"]
MANIFEST_ENTRY = {
    "text": "Over thousands of generated object sets and layouts per run the linked output keeps every input "
            "section's bytes (outside relocation sites), places sections inside their memories, aligned, "
            "non-overlapping, in layout order, defines every symbol at section address + offset, builds images "
            "byte-exactly, and fails with CompilerError exactly for undefined/duplicate symbols and overfull "
            "memories (including the exact-fit boundary).",
    "note": "Invariants only (no placement model). Relocation values belong to C11, relaxation to C13. Archive "
            "member selection is observed, not judged. Known findings switch off: relocations inside sections that "
            "are SECTIONDATA sources, absolute symbols in input objects, unresolved references inside archive "
            "members.",
    "technique": "runtime monitoring: placement/conservation invariants + tracer link over objgen objects x layouts",
}

ARCHES = ["x86_64", "arm", "riscv", "xtensa", "microblaze", "msp430", "avr", "or1k", "m68k", "mips"]
F_SECTIONDATA = "sectiondata-copied-before-relocation"
F_ABSSYM = "absolute-symbol-in-input-object"
F_LIBLOOP = "library-member-with-unresolved-reference-loops"


def EXHAUSTIVE(tier):
    return False


def plan(tier, seed, avoid):
    shards = 32 if tier == "quick" else 64
    n = 130 if tier == "quick" else 6000
    return [{"shard": i, "n": n} for i in range(shards)]


def floors(tier):
    k = 1 if tier == "quick" else 10
    return {"evaluations": 6000 * k, "distinct_nontrivial": 1200 * k,
            "observed.kind.valid": 1500 * k, "observed.kind.overfull": 100 * k,
            "observed.kind.undefined": 100 * k, "observed.kind.duplicate": 100 * k,
            "observed.error_raised.overfull": 100 * k, "observed.error_raised.undefined": 100 * k,
            "observed.error_raised.duplicate": 100 * k,
            "observed.exact_fit_links": 500 * k, "observed.minus_one.raised": 300 * k,
            "observed.chunks_with_padding_before": 300 * k, "observed.reloc_sites_masked": 1000 * k,
            "observed.symbols_checked": 5000 * k, "observed.partial_stage_links": 300 * k,
            "observed.library_links": 200 * k, "observed.layout_inputs.sectiondata": 100 * k,
            "observed.layout_inputs.align": 300 * k, "observed.layout_inputs.symbol": 300 * k,
            "observed.text_layouts": 200 * k, "observed.arch": len(ARCHES)}


# --------------------------------------------------------------------------
# worker


class LoopBound(Exception):
    pass


class Refuted(Exception):
    """A refuting event; message is the one-line summary."""


LOG = []


def install_injection_log():
    from ppci.binutils import linker

    if getattr(linker.Linker, "_c12_wrapped", False):
        return
    orig = linker.Linker.inject_object

    def inject_object(self, obj, debug):
        LOG.append(obj)
        if len(LOG) > 120:
            raise LoopBound("inject_object called %d times in one link" % len(LOG))
        return orig(self, obj, debug)

    linker.Linker.inject_object = inject_object
    linker.Linker._c12_wrapped = True


def inc(d, key, n=1):
    d[key] = d.get(key, 0) + n


class Ctx:
    def __init__(self, spec):
        self.spec = spec
        self.avoid = set(spec.get("avoid", []))
        self.evals = 0
        self.obs = {}
        self.disc = {}
        self.viol = []
        self.samples = []
        self.hashes = []

    def o(self, path, n=1):
        d = self.obs
        parts = path.split(".")
        for p in parts[:-1]:
            d = d.setdefault(p, {})
        inc(d, parts[-1], n)


def run_shard(spec):
    from vlib import objgen  # noqa

    install_injection_log()
    ctx = Ctx(spec)
    only = spec.get("only")
    idxs = [only] if only is not None else range(spec["shard"] * spec["n"], (spec["shard"] + 1) * spec["n"])
    for idx in idxs:
        try:
            case = gen_case(rng(spec["seed"], PROPERTY, idx), idx, ctx.avoid)
        except Exception as e:  # generator trouble is a harness matter
            inc(ctx.disc, "generator-error:%s" % type(e).__name__)
            continue
        try:
            run_case(ctx, case)
        except Refuted as e:
            if len(ctx.viol) < 4:
                rs = {"shard": spec["shard"], "n": spec["n"], "only": idx, "tier": spec.get("tier"),
                      "seed": spec["seed"], "avoid": sorted(ctx.avoid)}
                ctx.viol.append({"summary": "case %d (%s, %s): %s" % (idx, case["arch"], case["kind"], e),
                                 "case": case, "replay_spec": rs})
    return {"evaluations": ctx.evals, "nontrivial_hashes": ctx.hashes, "observed": ctx.obs,
            "discarded": ctx.disc, "samples": ctx.samples[:2], "violations": ctx.viol}


# ---- case generation --------------------------------------------------------


def gen_case(r, idx, avoid):
    from vlib import objgen

    arch = ARCHES[idx % len(ARCHES)] if r.random() < 0.8 else r.choice(ARCHES)
    k = r.random()
    kind = "valid" if k < 0.76 else "overfull" if k < 0.84 else "undefined" if k < 0.92 else "duplicate"
    debug = r.random() < 0.15
    n_extra = r.choice([0, 0, 1, 2]) if kind == "valid" else 0
    oset = objgen.gen_object_set(
        r, arch, relocs=True if r.random() < 0.85 else False, names=r.choice(["id", "id", "dotted"]),
        debug=debug, undefined=(n_extra if kind == "valid" else r.choice([1, 1, 2]) if kind == "undefined" else 0),
        duplicate=(kind == "duplicate"))
    objs = oset["objects"]
    case = {"idx": idx, "arch": arch, "kind": kind, "objects": objs, "debug": debug}
    # resolve the extra names of a valid case by extra_symbols or DEFINESYMBOL
    extras, defsyms = {}, []
    lib_roll = r.random()
    for name in (oset["undefined"] if kind == "valid" else []):
        # open finding: archive members are selected by reference, so a name that is still undefined while
        # libraries are searched (DEFINESYMBOL is processed later) re-injects every member that mentions it
        if r.random() < 0.5 or (F_LIBLOOP in avoid and lib_roll < 0.3):
            extras[name] = r.choice([0, 1, 0x1234, r.randrange(oset["addr_hi"])])
        else:
            defsyms.append(name)
    # libraries: the tail of the object list becomes archive members
    n = len(objs)
    libs = []
    n_main = n
    lib_ok = kind in ("valid", "overfull") or (kind == "undefined" and F_LIBLOOP not in avoid)
    if n >= 2 and lib_ok and lib_roll < 0.3:
        n_main = r.randrange(1, n)
        members = list(range(n_main, n))
        if len(members) >= 2 and r.random() < 0.4:
            cut = r.randrange(1, len(members))
            libs = [members[:cut], members[cut:]]
        else:
            libs = [members]
        if r.random() < 0.3:
            for lib in libs:
                r.shuffle(lib)
    if kind == "duplicate" and n_main < n:
        n_main, libs = n, []
    if kind == "undefined" and libs:
        # the missing name must be referenced by an object that is certainly part of the link
        miss = set(oset["undefined"])
        if not any(sy["name"] in miss for ob in objs[:n_main] for sy in ob["symbols"]):
            n_main, libs = n, []
    case["libs"] = libs
    # staged partial links over consecutive groups of main objects
    groups = [[i] for i in range(n_main)]
    stages = False
    if kind in ("valid", "overfull") and r.random() < 0.3:
        stages = True
        groups = []
        i = 0
        while i < n_main:
            j = min(n_main, i + r.choice([1, 2, 2, 3]))
            groups.append(list(range(i, j)))
            i = j
    case["groups"] = groups
    case["stages"] = stages
    case["final_partial"] = (kind == "valid" and not libs and not defsyms and r.random() < 0.12)
    main_specs = [objs[i] for i in range(n_main)]
    lay = None
    if not case["final_partial"] and (defsyms or kind == "overfull" or r.random() < 0.85):
        # sections that carry relocations must not be SECTIONDATA sources while the finding is open
        no_sd = ()
        if F_SECTIONDATA in avoid:
            no_sd = sorted({x["section"] for ob in objs for x in ob["relocations"]})
        entry = None
        defined = sorted(oset["defined"])
        if defined and r.random() < 0.3:
            entry = r.choice(defined)
        lay = objgen.gen_layout(r, objs, fit=(kind != "overfull"), certain=main_specs, define_symbols=defsyms,
                                entry=entry if r.random() < 0.5 else None, no_sectiondata_of=no_sd,
                                addr_hi=oset["addr_hi"])
        case["entry_arg"] = entry if lay["entry"] is None else None
        case["layout_text"] = bool(objgen.text_safe(lay) and r.random() < 0.45)
        if case["layout_text"]:
            case["layout_text_src"] = objgen.layout_text(lay, r)
    else:
        if extras and case["final_partial"]:
            pass
        case["entry_arg"] = None
        case["layout_text"] = False
        if defsyms:  # cannot happen (layout forced), keep the case consistent anyway
            raise ValueError("defsyms without layout")
    if case["final_partial"] and F_ABSSYM in avoid:
        # a partial link may leave the extra names undefined; that is fine
        extras = {}
    case["layout"] = lay
    case["extras"] = extras
    # extra symbols given to the partial stage make absolute symbols in input objects
    case["extras_in_stage"] = bool(extras and stages and F_ABSSYM not in avoid and r.random() < 0.5)
    case["missing"] = oset["undefined"] if kind == "undefined" else []
    case["duplicate"] = oset["duplicate"]
    return case


# ---- running and judging ----------------------------------------------------


def do_link(objs, **kw):
    """Run ppci.api.link; returns (output, exception, injection log)."""
    from ppci.api import link

    del LOG[:]
    try:
        out = link(objs, **kw)
        return out, None, list(LOG)
    except BaseException as e:  # judged by the caller
        if isinstance(e, (KeyboardInterrupt, SystemExit, MemoryError)):
            raise
        return None, e, list(LOG)


def through_relocations(exc):
    tb = exc.__traceback__
    while tb is not None:
        if tb.tb_frame.f_code.co_name in ("do_relocations", "_do_relocation", "do_relaxations"):
            return True
        tb = tb.tb_next
    return False


def describe(exc):
    return "%s: %s" % (type(exc).__name__, str(exc)[:160])


def run_case(ctx, case):
    from vlib import objgen
    from ppci.common import CompilerError

    ctx.o("kind.%s" % case["kind"])
    ctx.o("arch.%s" % case["arch"])
    objs = case["objects"]
    kind = case["kind"]
    nontrivial = False
    # ---- stage 1: partial links of groups
    stage_inputs = []  # (spec, atoms) per input object of the final link
    for grp in case["groups"]:
        specs = [objs[i] for i in grp]
        if not case["stages"]:
            stage_inputs.append((specs[0], None))
            continue
        built = [objgen.build_object(s) for s in specs]
        kw = {"partial_link": True}
        if case["debug"]:
            kw["debug"] = True
        if case["extras_in_stage"] and grp is case["groups"][0]:
            kw["extra_symbols"] = dict(case["extras"])
        out, exc, log = do_link(built, **kw)
        ctx.evals += 1
        ctx.o("partial_stage_links")
        if exc is not None:
            raise Refuted("partial link of a valid group raised %s" % describe(exc))
        seq = sequence_of(log, built, specs, [])
        info = check_output(ctx, seq, out, None, kw.get("extra_symbols", {}), None, partial=True)
        nontrivial = nontrivial or info["merged"]
        pspec = objgen.obj_to_spec(out)
        stage_inputs.append((pspec, info["atoms"]))
    # ---- final link
    main_specs = [s for s, _ in stage_inputs]
    built = [objgen.build_object(s) for s in main_specs]
    lib_specs = [[objs[i] for i in lib] for lib in case["libs"]]
    lib_built = [[objgen.build_object(s) for s in lib] for lib in lib_specs]
    kw = {}
    if case["libs"]:
        from ppci.binutils.archive import Archive

        kw["libraries"] = [Archive(list(lb)) for lb in lib_built]
        ctx.o("library_links")
    if case["final_partial"]:
        kw["partial_link"] = True
    if case["debug"]:
        kw["debug"] = True
    if case["extras"] and not case["extras_in_stage"]:
        kw["extra_symbols"] = dict(case["extras"])
        ctx.o("extra_symbols", len(case["extras"]))
    if case.get("entry_arg"):
        kw["entry"] = case["entry_arg"]
    lay = case["layout"]

    def layout_arg(lspec):
        if lspec is None:
            return None
        if case["layout_text"]:
            return io.StringIO(objgen.layout_text(lspec) if lspec is not lay else case["layout_text_src"])
        return objgen.build_layout(lspec)

    if lay is not None:
        kw["layout"] = layout_arg(lay)
        if case["layout_text"]:
            ctx.o("text_layouts")
        ctx.o("memories.%d" % len(lay["memories"]))
        for m in lay["memories"]:
            for k_, a in m["inputs"]:
                ctx.o("layout_inputs.%s" % k_)
    out, exc, log = do_link(built, **kw)
    ctx.evals += 1
    if isinstance(exc, LoopBound):
        raise Refuted("link does not terminate: %s" % exc)
    if kind in ("undefined", "duplicate", "overfull"):
        if exc is None:
            raise Refuted("%s case linked without error (expected CompilerError)" % kind)
        if not isinstance(exc, CompilerError):
            raise Refuted("%s case raised %s instead of CompilerError" % (kind, describe(exc)))
        ctx.o("error_raised.%s" % kind)
        ctx.hashes.append(h(case))
        if len(ctx.samples) < 1 and kind == "overfull":
            ctx.samples.append({"kind": kind, "arch": case["arch"], "layout": lay, "error": str(exc)[:100],
                                "section_sizes": {k: v[0] for k, v in objgen.section_bounds(objs).items()}})
        return
    if exc is not None:
        if through_relocations(exc) and not isinstance(exc, CompilerError):
            inc(ctx.disc, "relocation-apply-raised (C11 domain)")
            return
        raise Refuted("valid link raised %s" % describe(exc))
    all_specs = main_specs + [s for lib in lib_specs for s in lib]
    all_built = built + [b for lib in lib_built for b in lib]
    seq = sequence_of(log, all_built, all_specs, range(len(built)))
    if case["libs"]:
        pulled = len(seq) - len(built)
        ctx.o("library_members_pulled", pulled)
        ctx.o("library_members_left", sum(len(x) for x in lib_specs) - pulled)
    atoms_in = {id(s): a for s, a in stage_inputs if a is not None}
    entry = (lay or {}).get("entry") or case.get("entry_arg")
    info = check_output(ctx, seq, out, lay, kw.get("extra_symbols", {}), entry,
                        partial=case["final_partial"], atoms_in=atoms_in)
    nontrivial = nontrivial or info["merged"] or info["placed"] >= 2
    if nontrivial:
        ctx.hashes.append(h(case))
    if len(ctx.samples) < 2 and info["merged"] and lay is not None and info["placed"] >= 2:
        ctx.samples.append({"arch": case["arch"], "layout": {"memories": lay["memories"], "entry": lay["entry"]},
                            "inputs": [[(s["name"], len(s["data"]) // 2, s["alignment"]) for s in sp["sections"]]
                                       for sp in seq],
                            "placed": {s.name: [hex(s.address), s.size, s.alignment] for s in out.sections}})
    # ---- exact fit and one byte less, without a placement model
    if lay is not None and not case["final_partial"]:
        sizes = {im.name: im.size for im in out.images}
        tight = dict(lay, memories=[dict(m, size=sizes[m["name"]]) for m in lay["memories"]])
        built2 = [objgen.build_object(s) for s in main_specs]
        kw2 = dict(kw)
        kw2["layout"] = layout_arg(tight)
        if case["libs"]:
            from ppci.binutils.archive import Archive

            kw2["libraries"] = [Archive([objgen.build_object(s) for s in lib]) for lib in lib_specs]
        out2, exc2, log2 = do_link(built2, **kw2)
        ctx.evals += 1
        if exc2 is not None:
            raise Refuted("memories sized exactly to the images the linker produced (%s) no longer link: %s"
                          % (sizes, describe(exc2)))
        ctx.o("exact_fit_links")
        cands = [m for m in tight["memories"] if m["size"] >= 1]
        if cands:
            victim = cands[case["idx"] % len(cands)]["name"]
            small = dict(tight, memories=[dict(m, size=m["size"] - (1 if m["name"] == victim else 0))
                                          for m in tight["memories"]])
            built3 = [objgen.build_object(s) for s in main_specs]
            kw3 = dict(kw2)
            kw3["layout"] = layout_arg(small)
            if case["libs"]:
                kw3["libraries"] = [Archive([objgen.build_object(s) for s in lib]) for lib in lib_specs]
                lb3 = [o_ for a in kw3["libraries"] for o_ in a.objs]
            else:
                lb3 = []
            out3, exc3, log3 = do_link(built3, **kw3)
            ctx.evals += 1
            if exc3 is None:
                # a different, tighter placement would be fine; it has to satisfy everything
                seq3 = sequence_of(log3, built3 + lb3, all_specs, range(len(built3)))
                try:
                    check_output(ctx, seq3, out3, small, kw.get("extra_symbols", {}), entry, partial=False,
                                 atoms_in=atoms_in)
                except Refuted as e:
                    raise Refuted("memory %s one byte smaller than the image the linker needs links anyway: %s"
                                  % (victim, e))
                ctx.o("minus_one.accepted")
            elif isinstance(exc3, CompilerError):
                ctx.o("minus_one.raised")
            else:
                raise Refuted("overfull-by-one memory raised %s instead of CompilerError" % describe(exc3))


def sequence_of(log, built, specs, must_once):
    """Input specs in the order the linker injected them."""
    by_id = {id(b): i for i, b in enumerate(built)}
    seq = []
    seen = {}
    for ob in log:
        i = by_id.get(id(ob))
        if i is None:
            raise Refuted("linker injected an object that is neither an input nor an archive member")
        seen[i] = seen.get(i, 0) + 1
        seq.append(specs[i])
    for i in must_once:
        if seen.get(i, 0) != 1:
            raise Refuted("input object %d was merged %d times" % (i, seen.get(i, 0)))
    for i, c in seen.items():
        if c > 1:
            raise Refuted("archive member %d was merged %d times" % (i, c))
    return seq


def trace_offsets(ctx, seq):
    """Observe merge offsets with a tracer link. Returns {(obj#, sec#): (lo, hi)} (lo==hi unless empty)."""
    from vlib import objgen

    tag = 0
    tspecs = []
    tags = {}
    for oi, sp in enumerate(seq):
        secs = []
        for si, s in enumerate(sp["sections"]):
            size = len(s["data"]) // 2
            if size:
                tag += 1
                if tag > 255:
                    return None
                tags[tag] = (oi, si, size)
            secs.append({"name": s["name"], "alignment": s["alignment"], "address": 0,
                         "data": ("%02x" % tag) * size})
        tspecs.append({"arch": sp["arch"], "sections": secs, "symbols": [], "relocations": [], "images": [],
                       "entry": None, "debug": None})
    out, exc, _ = do_link([objgen.build_object(t) for t in tspecs], partial_link=True)
    ctx.evals += 1
    if exc is not None:
        raise Refuted("tracer link (same sections, tag bytes, no symbols) raised %s" % describe(exc))
    offs = {}
    ends = {}  # per section name: running end, to check order
    for t in sorted(tags):
        oi, si, size = tags[t]
        name = seq[oi]["sections"][si]["name"]
        if not out.has_section(name):
            raise Refuted("tracer: output has no section %r" % name)
        data = bytes(out.get_section(name).data)
        first = data.find(bytes([t]))
        if first < 0 or data.count(bytes([t])) != size or data[first:first + size] != bytes([t]) * size:
            raise Refuted("tracer: bytes of input section %r of object %d do not occur contiguously once in the "
                          "output section (size %d, found %d)" % (name, oi, size, data.count(bytes([t]))))
        if first < ends.get(name, 0):
            raise Refuted("tracer: input section %r of object %d is merged before an earlier input" % (name, oi))
        if first > ends.get(name, 0):
            if any(data[ends.get(name, 0):first]):
                pass  # padding content is not specified
            ctx.o("chunks_with_padding_before")
        ends[name] = first + size
        offs[(oi, si)] = (first, first)
    # empty inputs: anywhere between the neighbours
    for oi, sp in enumerate(seq):
        for si, s in enumerate(sp["sections"]):
            if (oi, si) in offs:
                continue
            name = s["name"]
            lo, hi_ = 0, None
            for (oj, sj), (a, _) in offs.items():
                if seq[oj]["sections"][sj]["name"] != name:
                    continue
                size = len(seq[oj]["sections"][sj]["data"]) // 2
                if (oj, sj) < (oi, si):
                    lo = max(lo, a + size)
                elif hi_ is None or a < hi_:
                    hi_ = a
            if hi_ is None:
                hi_ = len(out.get_section(name).data) if out.has_section(name) else lo
                hi_ = max(hi_, lo) + s["alignment"]
            offs[(oi, si)] = (lo, max(lo, hi_))
    return offs


def reloc_size(arch, typ, cache={}):
    key = (arch, typ)
    if key not in cache:
        from vlib import objgen

        cache[key] = objgen.get_arch(arch).isa.relocation_map[typ].size()
    return cache[key]


def check_output(ctx, seq, out, lay, extras, entry, partial, atoms_in=None):
    """All invariants of one link. Raises Refuted. Returns {"merged", "placed", "atoms"}."""
    offs = trace_offsets(ctx, seq)
    if offs is None:
        inc(ctx.disc, "more than 255 input sections")
        return {"merged": False, "placed": 0, "atoms": None}
    arch = seq[0]["arch"] if seq else None
    merged_count = {}
    atoms = {}  # section name -> [(offset lo, hi, alignment)] of original inputs, for the next stage
    final_bytes = {s.name: bytes(s.data) for s in out.sections}
    # 1. conservation + alignment
    for oi, sp in enumerate(seq):
        rel_by_sec = {}
        for x in sp["relocations"]:
            rel_by_sec.setdefault(x["section"], []).append(x)
        for si, s in enumerate(sp["sections"]):
            name = s["name"]
            data = bytes.fromhex(s["data"])
            lo, hi_ = offs[(oi, si)]
            if name not in final_bytes:
                raise Refuted("output lacks section %r" % name)
            osec = out.get_section(name)
            if data:
                merged_count[name] = merged_count.get(name, 0) + 1
                got = final_bytes[name][lo:lo + len(data)]
                if len(got) != len(data):
                    raise Refuted("section %r: input of object %d extends past the output section" % (name, oi))
                mask = bytearray(len(data))
                for x in rel_by_sec.get(name, []):
                    n = reloc_size(sp["arch"], x["type"])
                    for k in range(x["offset"], min(len(data), x["offset"] + n)):
                        mask[k] = 1
                    ctx.o("reloc_sites_masked")
                for k in range(len(data)):
                    if not mask[k] and got[k] != data[k]:
                        raise Refuted("section %r: byte %d of the input from object %d changed %#x -> %#x outside "
                                      "any relocation site (merge offset %d)" % (name, k, oi, data[k], got[k], lo))
                if (osec.address + lo) % s["alignment"]:
                    raise Refuted("section %r: input of object %d (alignment %d) ends up at %#x + %d"
                                  % (name, oi, s["alignment"], osec.address, lo))
                ctx.o("chunks_checked")
            atoms.setdefault(name, []).append((lo, hi_, s["alignment"], len(data)))
            # original inputs that went through a partial link before
            for (alo, ahi, aal, alen) in (atoms_in or {}).get(id(sp), {}).get(name, []):
                if alen and (osec.address + lo + alo) % aal:
                    raise Refuted("section %r: an input with alignment %d merged by an earlier partial link ends up "
                                  "at %#x" % (name, aal, osec.address + lo + alo))
    merged = any(c >= 2 for c in merged_count.values())
    # 2. symbols
    exp_global = {}
    exp_locals = []
    for oi, sp in enumerate(seq):
        secidx = {s["name"]: i for i, s in enumerate(sp["sections"])}
        for sy in sp["symbols"]:
            if sy["binding"] == "global":
                ent = exp_global.setdefault(sy["name"], [])
                if sy["value"] is not None:
                    ent.append((oi, sy))
            elif sy["value"] is not None:
                exp_locals.append((oi, sy))
            if sy["value"] is not None and sy["section"] is not None and sy["section"] not in secidx:
                raise Refuted("harness: symbol in unknown section")

    def cands(oi, sy):
        """Possible output values of a defined input symbol."""
        if sy["section"] is None:
            return sy["value"], sy["value"], 1
        sp = seq[oi]
        si = [i for i, s in enumerate(sp["sections"]) if s["name"] == sy["section"]][0]
        lo, hi_ = offs[(oi, si)]
        return lo + sy["value"], hi_ + sy["value"], sp["sections"][si]["alignment"]

    lay_syms = [a for m in (lay or {"memories": []})["memories"] for k_, a in m["inputs"] if k_ == "symbol"]
    out_globals = {}
    out_locals = []
    for sy in out.symbols:
        if sy.binding == "global":
            if sy.name in out_globals:
                raise Refuted("output has two global symbols named %r" % sy.name)
            out_globals[sy.name] = sy
        else:
            out_locals.append(sy)
    want_names = set(exp_global) | set(extras) | set(lay_syms) | ({entry} if entry else set())
    if set(out_globals) != want_names:
        raise Refuted("global symbol names differ: missing %s, unexpected %s" % (
            sorted(want_names - set(out_globals))[:4], sorted(set(out_globals) - want_names)[:4]))
    matched = {}  # (oi, input id) -> output symbol
    for name, defs in exp_global.items():
        osy = out_globals[name]
        for oi, sy in seq_syms(seq, name):
            matched[(oi, sy["id"])] = osy
        if name in extras or name in lay_syms:
            continue
        if not defs:
            if not partial and osy.value is None:
                raise Refuted("global %r is still undefined after a final link" % name)
            continue
        if len(defs) > 1:
            raise Refuted("global %r defined %d times but the link succeeded" % (name, len(defs)))
        oi, sy = defs[0]
        lo, hi_, al = cands(oi, sy)
        if osy.value is None or osy.section != sy["section"] or not (lo <= osy.value <= hi_) \
                or (lo != hi_ and (osy.value - sy["value"]) % al):
            raise Refuted("global %r: input offset %d in %r merged at %d..%d, output symbol has section %r value %r"
                          % (name, sy["value"], sy["section"], lo - sy["value"], hi_ - sy["value"], osy.section,
                             osy.value))
        check_symbol_address(out, osy)
        ctx.o("symbols_checked")
    for name, value in extras.items():
        osy = out_globals[name]
        if osy.value != value or osy.section is not None:
            raise Refuted("extra symbol %r = %#x became section %r value %r" % (name, value, osy.section, osy.value))
        if out.get_symbol_id_value(osy.id) != value:
            raise Refuted("extra symbol %r resolves to %r" % (name, out.get_symbol_id_value(osy.id)))
    # locals: multiset matching, most constrained first
    pool = list(out_locals)
    for oi, sy in sorted(exp_locals, key=lambda t: cands(*t)[1] - cands(*t)[0]):
        lo, hi_, al = cands(oi, sy)
        hit = None
        for osy in pool:
            if osy.name == sy["name"] and osy.section == sy["section"] and osy.value is not None \
                    and lo <= osy.value <= hi_ and (lo == hi_ or (osy.value - sy["value"]) % al == 0) \
                    and osy.typ == sy["typ"] and osy.size == sy["size"]:
                hit = osy
                break
        if hit is None:
            raise Refuted("local symbol %r of object %d (section %r offset %d, merged at %d) has no counterpart in "
                          "the output" % (sy["name"], oi, sy["section"], sy["value"], lo - sy["value"]))
        pool.remove(hit)
        matched[(oi, sy["id"])] = hit
        check_symbol_address(out, hit)
        ctx.o("symbols_checked")
    if pool:
        raise Refuted("output has %d local symbols no input accounts for, e.g. %r" % (len(pool), pool[0]))
    # 3. relocation records carried over
    def skey(osy):
        return (osy.binding, osy.name, osy.section, osy.value)

    exp_rel = {}
    for oi, sp in enumerate(seq):
        for x in sp["relocations"]:
            si = [i for i, s in enumerate(sp["sections"]) if s["name"] == x["section"]][0]
            lo, _ = offs[(oi, si)]
            tgt = matched.get((oi, x["symbol_id"]))
            if tgt is None:
                raise Refuted("harness: relocation target not matched")
            inc(exp_rel, (x["type"], x["section"], lo + x["offset"], x["addend"], skey(tgt)))
    got_rel = {}
    for x in out.relocations:
        osy = out.symbols_by_id.get(x.symbol_id)
        if osy is None:
            raise Refuted("output relocation refers to unknown symbol id %r" % x.symbol_id)
        inc(got_rel, (x.reloc_type, x.section, x.offset, x.addend, skey(osy)))
    if exp_rel != got_rel:
        a = sorted(set(exp_rel.items()) - set(got_rel.items()), key=repr)[:2]
        b = sorted(set(got_rel.items()) - set(exp_rel.items()), key=repr)[:2]
        raise Refuted("relocation records differ: expected-only %s, output-only %s" % (a, b))
    ctx.o("relocations_checked", sum(exp_rel.values()))
    # 4. entry
    if entry:
        es = out.symbols_by_id.get(out.entry_symbol_id)
        if es is None or es.name != entry or es.value is None:
            raise Refuted("entry %r: output entry symbol is %r" % (entry, es))
        ctx.o("entries_checked")
    # 5. layout
    placed = 0
    if lay is not None:
        placed = check_layout(ctx, out, lay, final_bytes)
    else:
        if out.images:
            raise Refuted("link without layout produced images")
    return {"merged": merged, "placed": placed, "atoms": atoms}


def seq_syms(seq, name):
    for oi, sp in enumerate(seq):
        for sy in sp["symbols"]:
            if sy["binding"] == "global" and sy["name"] == name:
                yield oi, sy


def check_symbol_address(out, osy):
    want = osy.value if osy.section is None else out.get_section(osy.section).address + osy.value
    got = out.get_symbol_id_value(osy.id)
    if got != want:
        raise Refuted("symbol %r: address %#x != section address + offset %#x" % (osy.name, got, want))


def check_layout(ctx, out, lay, final_bytes):
    placed = 0
    images = {}
    for im in out.images:
        if im.name in images:
            raise Refuted("two images named %r" % im.name)
        images[im.name] = im
    if sorted(images) != sorted(m["name"] for m in lay["memories"]):
        raise Refuted("images %s for memories %s" % (sorted(images), sorted(m["name"] for m in lay["memories"])))
    in_image = {}
    for m in lay["memories"]:
        im = images[m["name"]]
        lo, hi_ = m["location"], m["location"] + m["size"]
        if im.address != lo:
            raise Refuted("image %r at %#x, memory declared at %#x" % (m["name"], im.address, lo))
        prev_end = lo
        pending = []
        members = {s.name: s for s in im.sections}
        if len(members) != len(im.sections):
            raise Refuted("image %r lists a section twice" % m["name"])

        def place(what, addr, size, align_free=True):
            nonlocal prev_end, pending
            if addr < prev_end:
                raise Refuted("memory %r: %s at %#x starts before the end of the preceding input (%#x)"
                              % (m["name"], what, addr, prev_end))
            if addr + size > hi_:
                raise Refuted("memory %r [%#x, %#x): %s occupies [%#x, %#x)" % (m["name"], lo, hi_, what, addr,
                                                                                   addr + size))
            for i, k in enumerate(pending):
                # ALIGN(k) moves the location counter; a later ALIGN or the section's own alignment moves it again,
                # which keeps a multiple of k only if those are powers of two and k is one (or k is the last ALIGN
                # and the item has no alignment of its own).  The statement demands no more.
                later = pending[i + 1:]
                pow2 = k & (k - 1) == 0
                if all(x & (x - 1) == 0 for x in later) and (pow2 or (align_free and not later)) and addr % k:
                    raise Refuted("memory %r: %s at %#x violates the preceding ALIGN(%d)" % (m["name"], what, addr, k))
            pending = []
            prev_end = addr + size

        for kind, arg in m["inputs"]:
            if kind == "align":
                pending.append(arg)
            elif kind == "section":
                if not out.has_section(arg):
                    raise Refuted("SECTION(%s): no such section in the output" % arg)
                sec = out.get_section(arg)
                if sec.address % sec.alignment:
                    raise Refuted("section %r (alignment %d) placed at %#x" % (arg, sec.alignment, sec.address))
                place("section %r" % arg, sec.address, sec.size, align_free=False)
                if members.get(arg) is not sec:
                    raise Refuted("section %r is not part of image %r" % (arg, m["name"]))
                in_image[arg] = m["name"]
                placed += 1
            elif kind == "sectiondata":
                cname = "_$%s_" % arg
                if cname not in members:
                    raise Refuted("SECTIONDATA(%s): image %r has no section %r" % (arg, m["name"], cname))
                sec = members[cname]
                place("copy of %r" % arg, sec.address, sec.size)
                if bytes(sec.data) != final_bytes[arg]:
                    raise Refuted("SECTIONDATA(%s) does not hold the final bytes of section %r (differs at byte %d)"
                                  % (arg, arg, first_diff(bytes(sec.data), final_bytes[arg])))
                in_image[cname] = m["name"]
                ctx.o("sectiondata_checked")
            elif kind == "symbol":
                try:
                    addr = out.get_symbol_value(arg)
                except (KeyError, ValueError) as e:
                    raise Refuted("DEFINESYMBOL(%s): %s" % (arg, describe(e)))
                place("symbol %r" % arg, addr, 0)
                ctx.o("layout_symbols_checked")
        # pairwise non-overlap and image bytes
        secs = list(im.sections)
        for i in range(len(secs)):
            for j in range(i + 1, len(secs)):
                a, b = secs[i], secs[j]
                if a.size and b.size and a.address < b.address + b.size and b.address < a.address + a.size:
                    raise Refuted("image %r: sections %r and %r overlap" % (m["name"], a.name, b.name))
        end = max([lo] + [s.address + s.size for s in secs])
        ref = bytearray(end - lo)
        for s in secs:
            if s.address < lo:
                raise Refuted("image %r: section %r below the image address" % (m["name"], s.name))
            ref[s.address - lo:s.address - lo + s.size] = s.data
        try:
            data = bytes(im.data)
        except Exception as e:
            raise Refuted("Image(%r).data raised %s" % (m["name"], describe(e)))
        # a trailing empty section may or may not extend the image with zero fill
        ref = bytes(ref)
        if not (data == ref or (len(data) < len(ref) and data == ref[:len(data)] and not any(ref[len(data):]))):
            raise Refuted("image %r bytes differ from its sections pasted at address - image.address (first "
                          "difference at %d)" % (m["name"], first_diff(data, ref)))
        if len(data) > m["size"]:
            raise Refuted("image %r has %d bytes, memory size is %d" % (m["name"], len(data), m["size"]))
        ctx.o("images_checked")
    for im in out.images:
        for s in im.sections:
            if s.name not in in_image and not s.name.startswith("_$"):
                raise Refuted("section %r is in image %r but the layout does not place it there" % (s.name, im.name))
    return placed


def first_diff(a, b):
    for i in range(min(len(a), len(b))):
        if a[i] != b[i]:
            return i
    return min(len(a), len(b))


# --------------------------------------------------------------------------
# probes of open known findings


def _mk(arch_name="arm"):
    from ppci.api import get_arch
    from ppci.binutils.objectfile import ObjectFile

    return ObjectFile(get_arch(arch_name))


def probe_sectiondata():
    from ppci.api import link
    from ppci.binutils.objectfile import RelocationEntry
    from ppci.binutils import layout as L

    o = _mk()
    o.get_section("code", create=True).add_data(bytes(8))
    o.get_section("data", create=True).add_data(bytes([0xAA] * 4))
    o.add_symbol(0, "foo", "global", 4, "code", "func", 0)
    o.add_relocation(RelocationEntry("absaddr32", 0, "data", 0, 0))
    lay = L.Layout()
    m = L.Memory("flash")
    m.location, m.size = 0x100, 0x100
    m.add_input(L.Section("code"))
    m.add_input(L.SectionData("data"))
    lay.add_memory(m)
    m2 = L.Memory("ram")
    m2.location, m2.size = 0x2000, 0x100
    m2.add_input(L.Section("data"))
    lay.add_memory(m2)
    out = link([o], layout=lay)
    a, b = bytes(out.get_section("_$data_").data), bytes(out.get_section("data").data)
    if a != b:
        return "SECTIONDATA(data) holds %s but section data is %s after relocation (pointer to foo lost)" % (
            a.hex(), b.hex())
    return None


def probe_abssym():
    from ppci.api import link

    o = _mk()
    o.get_section("code", create=True).add_data(bytes(8))
    o.add_symbol(0, "ext", "global", None, None, "object", 0)
    part = link([o], partial_link=True, extra_symbols={"ext": 0x1234})
    try:
        out = link([part])
    except Exception as e:
        return "linking the result of link(partial_link=True, extra_symbols={'ext': 0x1234}) raises %s" % describe(e)
    sym = out.get_symbol("ext")
    if sym.value != 0x1234 or sym.section is not None:
        return "absolute symbol became %r" % sym
    return None


def probe_libloop():
    from ppci.api import link
    from ppci.binutils.archive import Archive
    from ppci.common import CompilerError

    install_injection_log()
    a = _mk()
    a.get_section("code", create=True).add_data(bytes(4))
    a.add_symbol(0, "nowhere", "global", None, None, "func", 0)
    m = _mk()
    m.get_section("code", create=True).add_data(bytes(4))
    m.add_symbol(0, "nowhere", "global", None, None, "func", 0)
    m.add_symbol(1, "loc", "local", 0, "code", "func", 0)
    del LOG[:]
    try:
        link([a], libraries=[Archive([m])])
    except CompilerError:
        return None
    except LoopBound:
        return ("link([a], libraries=[archive(m)]) with 'nowhere' undefined in both never ends: the member was "
                "injected %d times (stopped by the monitor) instead of CompilerError" % (len(LOG) - 1))
    return "undefined symbol did not raise"


PROBES = {F_SECTIONDATA: probe_sectiondata, F_ABSSYM: probe_abssym, F_LIBLOOP: probe_libloop}
