"""C32 generated LR parsers accept exactly their grammar's language (DESIGN 4, C32).

Monitor: for every generated grammar the real ``LrParserBuilder`` builds tables
(a thin subclass only *observes* ``set_action`` to learn whether a
shift/reduce conflict was resolved silently); the real ``LrParser.parse`` is
then run on every token string up to a bounded length.  The semantic action of
production number p builds the node ``(p, children)``, leaves are
``(token type, token position)``, so the value returned by ``parse`` is the
derivation tree the parser followed.

Oracle (own code, independent of ppci/lang/tools/earley.py): a CYK-style
bottom-up tabulation, keyed by substring instead of by span so that one table
serves all strings of a grammar: N[A][w] = min(2, number of derivation trees of
w from A) as the least fixed point of the grammar's equations in the capped
semiring {0, 1, many}.  many also covers infinitely many trees (cyclic
grammars).  N[start][w] == 0: not in the language; == 1: the unique tree is
extracted; many: ambiguous, only acceptance is judged.  A second, per-string
span chart (classical CYK indexing) re-derives the count for sampled strings;
disagreement of the two oracles is *inconclusive*, never a verdict on ppci.

Judgement per (grammar, string):
  * builder raised ParserGenerationException (conflict / undefined symbol) or
    anything else: outside the quantifier, counted only;
  * accepted without conflict: parse accepts <=> oracle derives; another
    exception or a non-terminating reduce loop (step limit enforced from
    inside the semantic actions) is "not accepted": a violation for a member,
    only counted for a non-member (the statement is about acceptance);
  * accepted with silently resolved shift/reduce conflicts (set_action keeps
    the shift): accepted => oracle derives (only that direction);
  * whenever parse accepted and the oracle's tree is unique: value == tree.

Relative to DESIGN: nothing narrowed; added: quick also runs a sixth of the
3-production sets (chosen by the seed), thorough 1.5 M random 4-production
sets; random grammars use <= 3 terminals / <= 4 non-terminals / RHS <= 4 and
strings <= 6 (2 terminals) or <= 5 (3 terminals); three strings per grammar
are also fed through ppci's BaseLexer (baselex.py) instead of a token list.
The Earley parser of ppci is not judged by this property (it is not an LR
parser); a small sample is run and only counted (`earley_not_judged`).

Avoid switches of the open findings (each a function of the grammar alone):
  * lr-lookahead-stops-at-nullable / lr-first-set-skips-nullable-prefix: the
    grammar is still built and run; only "derivable => accepted" (and
    termination) is not asserted, "accepted => derivable" and the value are;
  * lr-accept-on-inner-start-production: the value is not compared (acceptance
    is); 75 % of the random grammars keep the start symbol out of RHSs.
`observed.avoided.<key>` counts the grammars each switch touched and how many
of them actually show the defect.
"""
import itertools

from vlib.core import rng, h

PROPERTY = "C32"
RULE = ("exhaustive part (the space `exhaustive: true` refers to): every set of 1..2 (thorough: 1..3) productions out "
        "of the 170 productions over terminals {a,b}, non-terminals {S,T}, right-hand sides of length 0..3 (epsilon "
        "included), start symbol S, each x all 127 token strings of length <= 6. Not exhaustive, on top: quick runs "
        "the sixth of the 804 440 three-production sets selected by the seed; thorough runs 1.5 million random "
        "four-production sets; both run random grammars of 3-6 productions over 2-3 terminals, 2-4 non-terminals, "
        "RHS length 0..4, x all strings of length <= 6 (2 terminals) / <= 5 (3 terminals). "
        "evaluation = one (accepted grammar, string) pair to whose parse outcome an assertion applied (both "
        "directions for conflict-free grammars without an avoided construct, otherwise only when the parser "
        "accepted); "
        "non-trivial grammar = builder accepted it and its language restricted to the length bound has at least "
        "one member and one non-member; distinct by construction (enumeration) / by hash (random)")
ASSUMPTIONS = [
    "own bottom-up tabulation oracle (capped tree counting, least fixed point) is correct; it is cross-checked "
    "on sampled strings against a second, span-indexed CYK chart written separately",
    "a shift/reduce resolution is observed by overriding LrParserBuilder.set_action in a subclass that calls the "
    "original and only records that the slot was already filled with a different action",
    "non-termination is detected by a step limit of 50*(len+2) reductions raised from the semantic actions",
]
MANIFEST_ENTRY = {
    "text": "For every grammar of the stated small space that ppci's LR(1) builder accepts, the generated parser "
            "was run on every token string up to length 6 and agreed with an independent tabulation oracle on "
            "membership, and the tree built by the semantic actions equalled the oracle's unique derivation tree; "
            "with silently resolved shift/reduce conflicts no string outside the language was accepted.",
    "note": "Open findings narrow the sweep: grammars where a non-terminal is directly followed by a nullable "
            "non-terminal (or by one whose FIRST set needs a nullable prefix) are judged for soundness and value "
            "only, not for completeness; for grammars whose start symbol can end a right-hand side the returned "
            "value is not judged. Trusted base: the own oracle.",
    "technique": "runtime monitoring: own CYK-style tabulation oracle over exhaustively enumerated small grammars "
                 "x all short token strings, plus random larger grammars",
}

TERMS = "abc"
NTS = "STUV"
K_LOOK = "lr-lookahead-stops-at-nullable"
K_FIRST = "lr-first-set-skips-nullable-prefix"
K_ACCEPT = "lr-accept-on-inner-start-production"

ENUM_SHARDS = 8                 # sets of 1..2 productions: 14 535 grammars
ENUM3_SHARDS = 192              # sets of 3 productions: 804 440 grammars
QUICK_ENUM3_FRACTION = 6        # quick: the sixth of the 3-production sets with index % 6 == seed % 6 (not exhaustive)
SAMPLE4 = (1500000, 150)        # thorough: random 4-production sets out of the 170 (of 33.6 million)
RANDOM = {"quick": (30000, 24), "thorough": (400000, 100)}


def EXHAUSTIVE(tier):
    return True


def plan(tier, seed, avoid):
    specs = []
    total, shards = RANDOM[tier]
    per = total // shards
    specs += [{"part": "random", "lo": i * per, "hi": (i + 1) * per} for i in range(shards)]
    if tier == "thorough":
        specs += [{"part": "enum", "sizes": [3], "k": k, "of": ENUM3_SHARDS} for k in range(ENUM3_SHARDS)]
        total, shards = SAMPLE4
        per = total // shards
        specs += [{"part": "sample4", "lo": i * per, "hi": (i + 1) * per} for i in range(shards)]
    else:
        f = QUICK_ENUM3_FRACTION
        n = ENUM3_SHARDS // f
        specs += [{"part": "enum", "sizes": [3], "k": (seed % f) + f * k, "of": f * n, "sampled": True}
                  for k in range(n)]
    specs += [{"part": "enum", "sizes": [1, 2], "k": k, "of": ENUM_SHARDS} for k in range(ENUM_SHARDS)]
    return specs


def floors(tier):
    # unchanged tree, quick, seeds 0..2: 13.2-13.4 M evaluations, 56.8 k non-trivial, 93 k clean, 43 k resolved,
    # 6.4 k conflicts, 129 k accepted members, 87 k values, 26.7 k random accepted, 410 k cross-checks
    if tier == "quick":
        return {"evaluations": 6000000, "distinct_nontrivial": 25000,
                "observed.enumerated.1_productions": 170,
                "observed.enumerated.2_productions": 14365,
                "observed.enumerated.sampled_3_productions": 100000,
                "observed.grammars.accepted_clean": 40000,
                "observed.grammars.fully_judged": 30000,
                "observed.grammars.accepted_resolved": 15000,
                "observed.grammars.rejected_conflict": 2000,
                "observed.strings.accept_both": 50000,
                "observed.strings.reject_both": 4000000,
                "observed.resolved.members_accepted": 15000,
                "observed.values_compared": 35000,
                "observed.random.accepted": 10000,
                "observed.features.epsilon_production": 5000,
                "observed.features.left_recursive": 20000,
                "observed.features.right_recursive": 20000,
                "observed.oracle_crosscheck": 150000,
                "observed.baselex_parses": 150000}
    return {"evaluations": 80000000, "distinct_nontrivial": 300000,
            "observed.enumerated.1_productions": 170,
            "observed.enumerated.2_productions": 14365,
            "observed.enumerated.3_productions": 804440,
            "observed.grammars.accepted_clean": 500000,
            "observed.grammars.fully_judged": 400000,
            "observed.grammars.accepted_resolved": 200000,
            "observed.grammars.rejected_conflict": 30000,
            "observed.strings.accept_both": 600000,
            "observed.resolved.members_accepted": 200000,
            "observed.values_compared": 400000,
            "observed.random.accepted": 100000,
            "observed.features.epsilon_production": 60000,
            "observed.oracle_crosscheck": 2000000,
            "observed.baselex_parses": 2000000}


# --------------------------------------------------------------------------
# the enumerated space


_PRODS = []


def all_productions():
    """The 170 productions over {a,b} x {S,T}, RHS length 0..3, in a fixed order."""
    if _PRODS:
        return _PRODS
    syms = "abST"
    out = _PRODS
    for lhs in "ST":
        for n in range(4):
            for rhs in itertools.product(syms, repeat=n):
                out.append((lhs, "".join(rhs)))
    return out


def enum_grammars(sizes, k, of):
    prods = all_productions()
    idx = 0
    for size in sizes:
        for combo in itertools.combinations(range(len(prods)), size):
            if idx % of == k:
                yield {"prods": [list(prods[i]) for i in combo], "terms": "ab", "start": "S", "maxlen": 6}
            idx += 1


def sample4_grammar(seed, idx):
    r = rng(seed, PROPERTY, "s4/%d" % idx)
    prods = all_productions()
    return {"prods": [list(prods[i]) for i in sorted(r.sample(range(len(prods)), 4))],
            "terms": "ab", "start": "S", "maxlen": 6, "index": idx}


def random_grammar(seed, idx, avoid=()):
    r = rng(seed, PROPERTY, idx)
    nt_count = r.choice([2, 2, 3])
    nn = r.choice([2, 3, 3, 4])
    terms, nts = TERMS[:nt_count], NTS[:nn]
    nprods = r.randint(3, 6)
    lhss = ["S"] + [r.choice(nts) for _ in range(nprods - 1)]
    defined = sorted(set(lhss))
    if K_ACCEPT in avoid and len(defined) > 1 and r.random() < 0.75:
        # avoid switch: the start symbol does not occur in right-hand sides (values stay judged)
        defined.remove("S")
    prods = []
    tries = 0
    style = r.random()
    while len(prods) < nprods and tries < 60:
        tries += 1
        lhs = lhss[len(prods)]
        n = r.choice([0, 1, 1, 2, 2, 2, 3, 3, 4]) if style < 0.8 else r.choice([0, 1, 2, 2, 3])
        rhs = "".join(r.choice(terms) if r.random() < (0.6 if style < 0.8 else 0.45) else r.choice(defined)
                      for _ in range(n))
        if (lhs, rhs) not in prods and rhs != lhs:
            prods.append((lhs, rhs))
    return {"prods": [list(p) for p in prods], "terms": terms, "start": "S",
            "maxlen": 6 if nt_count == 2 else 5, "index": idx}


def in_enum_space(g):
    return (len(g["prods"]) <= 3 and g["terms"] == "ab"
            and all(l in "ST" and len(r) <= 3 and set(r) <= set("abST") for l, r in g["prods"]))


# --------------------------------------------------------------------------
# oracle 1: bottom-up tabulation keyed by substring (least fixed point, capped counts)


def conv(x, y, maxlen):
    out = {}
    for u, cu in x.items():
        room = maxlen - len(u)
        for v, cv in y.items():
            if len(v) <= room:
                w = u + v
                c = out.get(w, 0) + cu * cv
                out[w] = 2 if c > 2 else c
    return out


def lang_table(prods, terms, maxlen):
    """N[A][w] = min(2, #derivation trees of w from A) for all |w| <= maxlen."""
    nts = sorted({l for l, _ in prods})
    table = {a: {} for a in nts}
    base = {t: {t: 1} for t in terms}
    empty = {}
    while True:
        changed = False
        for a in nts:
            new = {}
            for lhs, rhs in prods:
                if lhs != a:
                    continue
                cur = {"": 1}
                for x in rhs:
                    cur = conv(cur, base[x] if x in base else table.get(x, empty), maxlen)
                    if not cur:
                        break
                for w, c in cur.items():
                    c += new.get(w, 0)
                    new[w] = 2 if c > 2 else c
            if new != table[a]:
                table[a] = new
                changed = True
        if not changed:
            return table


def segmentations(table, terms, rhs, w):
    """All ways to cut w into pieces derived by the symbols of rhs: lists of (symbol, start, end)."""
    def rec(k, pos):
        if k == len(rhs):
            if pos == len(w):
                yield []
            return
        x = rhs[k]
        if x in terms:
            if pos < len(w) and w[pos] == x:
                for rest in rec(k + 1, pos + 1):
                    yield [(x, pos, pos + 1)] + rest
        else:
            tab = table.get(x, {})
            for end in range(pos, len(w) + 1):
                if tab.get(w[pos:end], 0):
                    for rest in rec(k + 1, end):
                        yield [(x, pos, end)] + rest
    return rec(0, 0)


def unique_tree(table, prods, terms, a, w, off=0):
    """Derivation tree of w from a; only called when table[a][w] == 1 (then exactly one choice exists)."""
    found = None
    for pi, (lhs, rhs) in enumerate(prods):
        if lhs != a:
            continue
        for seg in segmentations(table, terms, rhs, w):
            if found is not None:
                raise AssertionError("oracle: count 1 but two alternatives")
            found = (pi, seg)
    if found is None:
        raise AssertionError("oracle: count 1 but no alternative")
    pi, seg = found
    kids = []
    for x, s, e in seg:
        if x in terms:
            kids.append([x, off + s])
        else:
            kids.append(unique_tree(table, prods, terms, x, w[s:e], off + s))
    return [pi, kids]


# oracle 2: span-indexed chart for one string (classical CYK indexing, general RHS)


def chart_count(prods, terms, start, w):
    n = len(w)
    cnt = {}

    def ways(rhs, k, i, j):
        if k == len(rhs):
            return 1 if i == j else 0
        x = rhs[k]
        if x in terms:
            return ways(rhs, k + 1, i + 1, j) if i < j and w[i] == x else 0
        tot = 0
        for m in range(i, j + 1):
            c = cnt.get((x, i, m), 0)
            if c:
                tot += c * ways(rhs, k + 1, m, j)
        return tot

    while True:
        changed = False
        for i in range(n + 1):
            for j in range(i, n + 1):
                per = {}
                for lhs, rhs in prods:
                    per[lhs] = min(2, per.get(lhs, 0) + ways(rhs, 0, i, j))
                for lhs, c in per.items():
                    if cnt.get((lhs, i, j), 0) != c:
                        cnt[(lhs, i, j)] = c
                        changed = True
        if not changed:
            return cnt.get((start, 0, n), 0)


# --------------------------------------------------------------------------
# grammar facts used by the avoid switches (functions of the input grammar only)


def grammar_facts(prods, terms, start):
    nts = {l for l, _ in prods}
    nullable = set()
    while True:
        new = {l for l, r in prods if all(x in nullable for x in r)}
        if new == nullable:
            break
        nullable = new

    def first_sets(through_nullable):
        first = {a: set() for a in nts}
        changed = True
        while changed:
            changed = False
            for l, r in prods:
                for x in r:
                    add = {x} if x in terms else first.get(x, set())
                    if x in terms or x not in nullable or through_nullable:
                        if add - first[l]:
                            first[l] |= add
                            changed = True
                    if x in terms or x not in nullable:
                        break
        return first

    first = first_sets(True)          # FIRST
    first_np = first_sets(False)      # FIRST when nullable prefix symbols contribute nothing
    reach = {start}
    work = [start]
    while work:
        a = work.pop()
        for l, r in prods:
            if l == a:
                for x in r:
                    if x in nts and x not in reach:
                        reach.add(x)
                        work.append(x)
    look = firstdef = acc = False
    for l, r in prods:
        if l not in reach:
            continue
        for i, x in enumerate(r):
            if x in nts:
                if i + 1 < len(r) and r[i + 1] in nullable:
                    look = True           # closure looks at r[i+1] only: nothing after it, not the item's look-ahead
                for y in r[i + 1:]:
                    if y in nts and first[y] != first_np[y]:
                        firstdef = True   # FIRST(y) is needed for the look-aheads and needs a nullable prefix symbol
                    if y not in nullable:
                        break
            if x == start and all(z in nullable for z in r[i + 1:]):
                acc = True                # an inner start-symbol item can be complete with look-ahead EOF
    feats = []
    if any(not r for _, r in prods):
        feats.append("epsilon_production")
    if nullable:
        feats.append("nullable_nt")
    if any(l in r for l, r in prods):
        feats.append("recursive")
    if any(r[:1] == l for l, r in prods):
        feats.append("left_recursive")
    if any(len(r) > 1 and r[-1:] == l for l, r in prods):
        feats.append("right_recursive")
    if len(reach & nts) > 1:
        feats.append("two_or_more_reachable_nt")
    return {"look": look, "first": firstdef, "accept": acc, "features": feats}


# --------------------------------------------------------------------------
# the monitor


class StepLimit(Exception):
    pass


class Ctx:
    """ppci objects, imported once per worker."""

    def __init__(self):
        from ppci.lang.tools.grammar import Grammar
        from ppci.lang.tools.lr import LrParserBuilder
        from ppci.lang.tools.common import ParserException, ParserGenerationException
        from ppci.lang.common import Token, SourceLocation
        from ppci.lang.tools.baselex import BaseLexer

        self.Grammar, self.Token, self.Loc = Grammar, Token, SourceLocation
        self.ParserException, self.GenExc = ParserException, ParserGenerationException
        self.BaseLexer = BaseLexer

        class ObservingBuilder(LrParserBuilder):
            resolved = 0

            def set_action(self, state, t, action):
                old = self.action_table.get((state, t))
                if old is not None and old != action:
                    self.resolved += 1      # only counts if the original does not raise
                    try:
                        return LrParserBuilder.set_action(self, state, t, action)
                    except BaseException:
                        self.resolved -= 1
                        raise
                return LrParserBuilder.set_action(self, state, t, action)

        self.Builder = ObservingBuilder
        self.loc0 = SourceLocation("", 1, 0, 1)


class ListLexer:
    def __init__(self, ctx, w):
        self.toks = [ctx.Token(t, i, ctx.loc0) for i, t in enumerate(w)]
        self.eof = ctx.Token("EOF", "EOF", ctx.loc0)
        self.i = 0

    def next_token(self):
        if self.i < len(self.toks):
            t = self.toks[self.i]
            self.i += 1
            return t
        return self.eof


def make_grammar(ctx, g, budget):
    gr = ctx.Grammar()
    gr.add_terminals(list(g["terms"]))
    Token = ctx.Token

    def action(pi):
        def f(*args):
            budget[0] -= 1
            if budget[0] < 0:
                raise StepLimit()
            return [pi, [[x.typ, x.val] if type(x) is Token else x for x in args]]
        return f

    for pi, (lhs, rhs) in enumerate(g["prods"]):
        gr.add_production(lhs, list(rhs), action(pi))
    gr.start_symbol = g["start"]
    return gr


def all_strings(terms, maxlen):
    out = [""]
    for n in range(1, maxlen + 1):
        out += ["".join(t) for t in itertools.product(terms, repeat=n)]
    return out


def parse_one(ctx, parser, budget, w, lexer=None):
    """-> ("value", tree) | ("reject", None) | ("loop", None) | ("error", text)"""
    budget[0] = 50 * (len(w) + 2)
    try:
        val = parser.parse(lexer or ListLexer(ctx, w))
    except ctx.ParserException:
        return "reject", None
    except StepLimit:
        return "loop", None
    except Exception as e:  # noqa
        return "error", "%s: %s" % (type(e).__name__, e)
    return "value", val


def base_lexer(ctx, terms, w):
    spec = [(t, t, lambda typ, val: (typ, val)) for t in terms]
    lx = ctx.BaseLexer(spec)
    lx.feed(w)
    return lx


class Mon:
    def __init__(self, spec):
        self.spec = spec
        self.avoid = set(spec.get("avoid", []))
        self.evals = 0
        self.nontrivial = 0
        self.hashes = []
        self.obs = {}
        self.viol = []
        self.samples = []
        self.inconclusive = []
        self.strings = {}

    def count(self, path, n=1):
        d = self.obs
        parts = path.split(".")
        for p in parts[:-1]:
            d = d.setdefault(p, {})
        d[parts[-1]] = d.get(parts[-1], 0) + n

    def violation(self, g, summary, extra):
        if len(self.viol) < 5:
            case = {"grammar": g, "productions": ["%s -> %s" % (l, " ".join(r) or "eps") for l, r in g["prods"]]}
            case.update(extra)
            self.viol.append({"summary": summary, "case": case,
                              "replay_spec": {"part": "single", "grammar": g, "tier": self.spec["tier"],
                                              "seed": self.spec["seed"], "avoid": sorted(self.avoid)}})

    def strings_for(self, terms, maxlen):
        key = (terms, maxlen)
        if key not in self.strings:
            self.strings[key] = all_strings(terms, maxlen)
        return self.strings[key]

    def result(self):
        return {"evaluations": self.evals, "nontrivial_count": self.nontrivial, "nontrivial_hashes": self.hashes,
                "observed": self.obs, "violations": self.viol, "samples": self.samples[:2],
                "inconclusive": self.inconclusive[:3]}


def show(g):
    return "; ".join("%s -> %s" % (l, " ".join(r) or "eps") for l, r in g["prods"])


def judge_grammar(ctx, m, g, r, is_random):
    prods = [(l, r_) for l, r_ in g["prods"]]
    terms, start, maxlen = g["terms"], g["start"], g["maxlen"]
    m.count("grammars.total")
    m.count("grammars_by_productions.%d" % len(prods))
    budget = [0]
    try:
        gr = make_grammar(ctx, g, budget)
        builder = ctx.Builder(gr)
        parser = builder.generate_parser()
    except ctx.GenExc as e:
        m.count("grammars.rejected_undefined_symbol" if "undefined" in str(e) else "grammars.rejected_conflict")
        return
    except Exception as e:  # noqa  not an accepted grammar either: counted, not judged
        m.count("grammars.builder_internal_error.%s" % type(e).__name__)
        return
    resolved = builder.resolved
    m.count("grammars.accepted_resolved" if resolved else "grammars.accepted_clean")
    if is_random:
        m.count("random.accepted")
    if resolved:
        m.count("resolved.shift_reduce_slots", resolved)
    m.count("parser_states.%d" % min(40, 1 + max([s for s, _ in parser.action_table] + [0])))

    facts = grammar_facts(prods, set(terms), start)
    for f in facts["features"]:
        m.count("features." + f)
    skip_complete = []
    if K_LOOK in m.avoid and facts["look"]:
        skip_complete.append(K_LOOK)
    if K_FIRST in m.avoid and facts["first"]:
        skip_complete.append(K_FIRST)
    skip_value = K_ACCEPT in m.avoid and facts["accept"]
    for k in skip_complete:
        m.count("avoided.%s.grammars" % k)
    if skip_value:
        m.count("avoided.%s.grammars" % K_ACCEPT)
    if not skip_complete and not skip_value:
        m.count("grammars.fully_judged")

    table = lang_table(prods, terms, maxlen)
    lang = table.get(start, {})
    words = m.strings_for(terms, maxlen)
    n_in = n_out = 0
    would_differ_complete = would_differ_value = 0
    both_directions = not resolved and not skip_complete
    cross = set(r.sample(range(len(words)), 3))
    blex = set(r.sample(range(len(words)), 3))
    for wi, w in enumerate(words):
        cnt = lang.get(w, 0)
        kind, val = parse_one(ctx, parser, budget, w)
        if both_directions or kind == "value":
            m.evals += 1          # an assertion applies to this outcome
        else:
            m.count("strings.rejected_or_looping_without_applicable_assertion")
        if cnt:
            n_in += 1
        else:
            n_out += 1
        if wi in cross:
            c2 = chart_count(prods, terms, start, w)
            m.count("oracle_crosscheck")
            if c2 != cnt:
                m.inconclusive.append("oracle self-check: tabulation says %d, span chart says %d for %r in %s" % (
                    cnt, c2, w, show(g)))
        if wi in blex:
            kind2, val2 = parse_one(ctx, parser, budget, w, base_lexer(ctx, terms, w))
            m.count("baselex_parses")
            if kind2 == "value" and kind == "value":
                # token values differ (text instead of position): compare shapes through positions
                same = strip_leaves(val2) == strip_leaves(val)
            else:
                same = kind2 == kind
            if not same:
                m.violation(g, "tokens from BaseLexer give %s, the same token types from a list give %s for %r in %s" % (
                    kind2, kind, w, show(g)), {"string": w, "list_lexer": [kind, val], "base_lexer": [kind2, val2]})
        ctxinfo = {"string": " ".join(w), "oracle_tree_count": cnt, "parser": [kind, val],
                   "resolved_shift_reduce_slots": resolved}
        if kind in ("error", "loop"):
            # Neither is an acceptance: judged like a rejection (R: parse accepts <=> oracle derives); a member that
            # makes the parser loop or crash is "derivable but not accepted", a non-member is only counted.
            m.count("strings.not_accepted_by_%s%s" % (
                "reduce_loop" if kind == "loop" else "internal_error", "_member" if cnt else "_non_member"))
        if kind == "value":
            if not cnt:
                m.violation(g, "parser accepts %r which the grammar does not derive: %s%s" % (
                    " ".join(w), show(g), " (with resolved shift/reduce conflict)" if resolved else ""), ctxinfo)
                continue
            m.count("strings.accept_both")
            if resolved:
                m.count("resolved.members_accepted")
            if cnt == 1:
                tree = unique_tree(table, prods, terms, start, w)
                if skip_value:
                    m.count("avoided.%s.values_not_judged" % K_ACCEPT)
                    if val != tree:
                        would_differ_value += 1
                else:
                    m.count("values_compared")
                    if val != tree:
                        ctxinfo["oracle_tree"] = tree
                        m.violation(g, "value for %r is %s, the unique derivation is %s in %s" % (
                            " ".join(w), fmt_tree(val), fmt_tree(tree), show(g)), ctxinfo)
            else:
                m.count("strings.ambiguous_accepted")
                if not resolved and not (facts["look"] or facts["first"] or facts["accept"]):
                    m.count("strings.ambiguous_accepted_in_clean_grammar_without_known_trigger")
        else:  # reject, reduce loop or internal error
            how = {"reject": "rejects", "loop": "loops forever (reduce loop) on",
                   "error": "raises %s instead of accepting" % val}[kind]
            if not cnt:
                if both_directions:
                    m.count("strings.reject_both")
            elif resolved:
                m.count("resolved.member_rejected_not_judged")
            elif skip_complete:
                would_differ_complete += 1
                for k in skip_complete:
                    m.count("avoided.%s.member_rejected_not_judged" % k)
            else:
                m.violation(g, "parser %s %r which the grammar derives (%s): %s" % (
                    how, " ".join(w), "uniquely" if cnt == 1 else "ambiguously", show(g)), ctxinfo)
    if would_differ_complete:
        for k in skip_complete:
            m.count("avoided.%s.grammars_showing_it" % k)
    if would_differ_value:
        m.count("avoided.%s.grammars_showing_it" % K_ACCEPT)
    if n_in and n_out:
        if is_random:
            if not in_enum_space(g):
                m.hashes.append(h([sorted(g["prods"]), terms, start]))
        else:
            m.nontrivial += 1
        if len(m.samples) < 2 and n_in >= 4 and len(prods) >= 2 and (resolved or "nullable_nt" in facts["features"]):
            m.samples.append({"grammar": show(g), "start": start, "terminals": terms,
                              "resolved_shift_reduce_slots": resolved,
                              "members_up_to_bound": n_in, "non_members": n_out,
                              "example_member": " ".join(max((w for w in words if lang.get(w)), key=len)),
                              "judged": "accepted => derivable, value" if (resolved or skip_complete) else (
                                  "acceptance both directions, value not compared" if skip_value
                                  else "acceptance both directions, value")})
    else:
        m.count("grammars.accepted_trivial_language")
    earley_sample(ctx, m, g, prods, lang, words, r)


def strip_leaves(t):
    """Tree with leaf payloads dropped (BaseLexer tokens carry text, list tokens carry positions)."""
    if isinstance(t, list) and len(t) == 2 and isinstance(t[0], int):
        return [t[0], [strip_leaves(k) for k in t[1]]]
    return t[0] if isinstance(t, list) else t


def fmt_tree(t):
    if isinstance(t, list) and len(t) == 2 and isinstance(t[0], int) and isinstance(t[1], list):
        return "p%d(%s)" % (t[0], ",".join(fmt_tree(k) for k in t[1]))
    if isinstance(t, list) and len(t) == 2:
        return "%s@%s" % (t[0], t[1])
    return repr(t)


def earley_sample(ctx, m, g, prods, lang, words, r):
    """ppci's Earley parser on 2 strings per grammar: counted, never judged (not an LR parser)."""
    if r.random() > 0.25:
        return
    from ppci.lang.tools.earley import EarleyParser

    budget = [10 ** 6]
    try:
        gr = make_grammar(ctx, g, budget)
    except Exception:  # noqa
        return
    for w in r.sample(words, 2):
        try:
            EarleyParser(gr).parse(ListLexer(ctx, w))
            ok = True
        except Exception as e:  # noqa
            ok = False
        m.count("earley_not_judged.%s" % ("agree" if ok == bool(lang.get(w)) else (
            "accepts_non_member" if ok else "fails_on_member")))


def run_shard(spec):
    ctx = Ctx()
    m = Mon(spec)
    part = spec["part"]
    if part == "single":
        g = spec["grammar"]
        judge_grammar(ctx, m, g, rng(spec["seed"], PROPERTY, "single"), True)
    elif part == "enum":
        r = rng(spec["seed"], PROPERTY, "enum%s/%d" % (spec["sizes"], spec["k"]))
        for g in enum_grammars(spec["sizes"], spec["k"], spec["of"]):
            m.count("enumerated.%s%d_productions" % ("sampled_" if spec.get("sampled") else "", len(g["prods"])))
            judge_grammar(ctx, m, g, r, False)
    elif part == "random":
        for idx in range(spec["lo"], spec["hi"]):
            g = random_grammar(spec["seed"], idx, spec.get("avoid", ()))
            judge_grammar(ctx, m, g, rng(spec["seed"], PROPERTY, "r%d" % idx), True)
    elif part == "sample4":
        for idx in range(spec["lo"], spec["hi"]):
            g = sample4_grammar(spec["seed"], idx)
            judge_grammar(ctx, m, g, rng(spec["seed"], PROPERTY, "s%d" % idx), True)
    return m.result()


# --------------------------------------------------------------------------
# witness probes of the open findings


def _probe_parse(prods, terms, start, w):
    ctx = Ctx()
    g = {"prods": [list(p) for p in prods], "terms": terms, "start": start, "maxlen": len(w)}
    budget = [0]
    parser = ctx.Builder(make_grammar(ctx, g, budget)).generate_parser()
    table = lang_table(prods, terms, len(w))
    assert table[start].get(w) == 1
    return parse_one(ctx, parser, budget, w), unique_tree(table, prods, terms, start, w)


def probe_lookahead():
    prods = [("S", "TUa"), ("T", "b"), ("U", ""), ("U", "b")]
    (kind, val), tree = _probe_parse(prods, "ab", "S", "ba")
    if kind == "value" and val == tree:
        return None
    return "S -> T U a; T -> b; U -> eps | b: parse of 'b a' gives %s (%s), the grammar derives it" % (kind, val)


def probe_first():
    prods = [("S", "TU"), ("T", "b"), ("U", "Va"), ("V", "b"), ("V", "")]
    (kind, val), tree = _probe_parse(prods, "ab", "S", "bba")
    if kind == "value" and val == tree:
        return None
    return ("S -> T U; T -> b; U -> V a; V -> b | eps: parse of 'b b a' gives %s (%s), the grammar derives it "
            "(FIRST(U) computed as {a}, should be {a, b})" % (kind, val))


def probe_accept():
    prods = [("S", "aS"), ("S", "")]
    (kind, val), tree = _probe_parse(prods, "ab", "S", "aa")
    if kind == "value" and val == tree:
        return None
    return "S -> a S | eps: parse of 'a a' returns %s, the derivation's value is %s" % (
        fmt_tree(val) if kind == "value" else kind, fmt_tree(tree))


PROBES = {K_LOOK: probe_lookahead, K_FIRST: probe_first, K_ACCEPT: probe_accept}
