"""C26 the C preprocessor agrees with a conforming preprocessor (DESIGN 4, C26).

Monitor: a generated unit of 150-400 self-contained sections (vlib/ppgen.py: macro
definition/use sections, #if/#elif/#ifdef sections whose arms hold distinct
marker tokens) is preprocessed by `gcc -E -P -std=c99 -pedantic-errors` and by
ppci.lang.c.preprocess; both outputs are re-lexed with one neutral pp-token
lexer (ppgen.lex), cut at the section markers and compared as sequences of
token spellings.  An exception of ppci's preprocessor on a section gcc accepts
is a refuting event too (a CompilerError included: the property promises the
same token sequence).  Sections gcc rejects are dropped and counted.

Whitespace, line markers and newline placement are ignored; predefined macros
(__LINE__, __FILE__, __DATE__, __GNUC__...) are never used by the generator.
"""
import os
import subprocess

from vlib.core import rng, h
from vlib import ppgen

PROPERTY = "C26"
RULE = ("ppgen sections: (a) 1-5 object-/function-like macros with bodies of random tokens, parameters, other "
        "macros and the macro itself, # stringification, ## pasting, variadics, followed by uses with empty, "
        "parenthesised-comma, string, macro and nested-invocation arguments, multi-line invocations, #undef; "
        "(b) #if/#elif chains over expression trees of decimal/hex/octal literals with u/l suffixes, character "
        "constants, defined, undefined identifiers, numeric macros and + - * / % << >> & | ^ ~ ! < <= > >= == != "
        "&& || ?: (incl. unevaluated divisions by zero), each arm holding a distinct marker token; about "
        "half of the conditions are typed probes: consumer(op(a, b)) with a, b of mixed signedness (u suffix on "
        "either side, also on shift counts), a result with the sign bit set, and a sign-sensitive consumer "
        "(< 0, >= 0, / k, % k, >> k compared with the typed value, ?: mixed with 0 or 0u) so that a wrong "
        "intmax_t/uintmax_t type of any operator's result flips the arm. "
        "non-trivial = section with >= 1 macro use or >= 1 operator; distinct by hash of the section text")
ASSUMPTIONS = ["gcc 12 -E -P -std=c99 -pedantic-errors is a conforming C99 preprocessor",
               "the neutral lexer splits both outputs into the same pp-tokens (self-checked: gcc's output "
               "re-lexes without error, otherwise the section is discarded)"]
MANIFEST_ENTRY = {
    "text": ("For generated macro definitions/uses (object- and function-like, #, ##, nesting, recursion, "
             "variadics, odd arguments) and generated #if/#elif expressions, ppci's preprocessor emits the same "
             "token sequence as gcc -E."),
    "note": ("open findings switch off: / and % on operands of different sign, values that need unsigned "
             "(uintmax_t) arithmetic, character constants >= 128 in #if, and the macro-expansion constructs "
             "listed in known_findings.d/C26.json; trusted base: gcc -E."),
    "technique": "runtime monitoring: gcc -E -P token stream as oracle over ppgen translation units",
}
SHARD_TIMEOUT = {"quick": 600, "thorough": 3 * 3600}


def EXHAUSTIVE(tier):
    return False


def plan(tier, seed, avoid):
    # one gcc -E process per unit: few large units
    if tier == "quick":
        return [{"shard": i, "units": 2, "sections": 150} for i in range(12)]
    return [{"shard": i, "units": 30, "sections": 400} for i in range(32)]


def floors(tier):
    big = tier != "quick"
    return {"evaluations": 200000 if big else 2500, "distinct_nontrivial": 100000 if big else 2000,
            "observed.kind.if": 1000, "observed.kind.macro": 1000,
            "observed.features.function-macro": 500, "observed.features.object-macro": 500,
            "observed.features.else": 500, "observed.arms_taken": 3,
            # typed probes: operator x operand signedness (x consumer) combinations actually judged
            "observed.type_probe_ops": 60, "observed.type_probes": 250,
            "observed.type_probe_ops.>>:su": 15, "observed.type_probe_ops.<<:su": 5}


GCC = ["gcc", "-E", "-P", "-std=c99", "-pedantic-errors", "-x", "c"]


def build_unit(sections):
    lines, owner = [], {}
    for idx, sec in sections:
        for ln in sec.text.rstrip("\n").split("\n"):
            lines.append(ln)
            owner[len(lines)] = idx
        lines.append(ppgen.marker(idx))
        owner[len(lines)] = idx
    return "\n".join(lines) + "\n", owner


def split_sections(tokens, ids):
    """{section id: token list} from a token stream with markers."""
    out, cur, want = {}, [], list(ids)
    marks = {ppgen.marker(i): i for i in ids}
    for t in tokens:
        if t in marks:
            out[marks[t]] = cur
            cur = []
        else:
            cur.append(t)
    return out


def gcc_pp(sections, tmp, tag, disc):
    """-> (kept [(idx, sec)], {idx: tokens})"""
    secs = list(sections)
    for _round in range(5):
        if not secs:
            return [], {}
        text, owner = build_unit(secs)
        path = os.path.join(tmp, "%s.c" % tag)
        with open(path, "w") as f:
            f.write(text)
        try:
            p = subprocess.run(GCC + [path], capture_output=True, text=True, timeout=120)
        except subprocess.TimeoutExpired:
            disc["gcc-timeout"] = disc.get("gcc-timeout", 0) + len(secs)
            return [], {}
        finally:
            try:
                os.unlink(path)
            except OSError:
                pass
        bad = set()
        for ln in p.stderr.split("\n"):
            if ln.startswith(path + ":") and (" error" in ln or " warning" in ln):
                try:
                    no = int(ln[len(path) + 1:].split(":")[0])
                except ValueError:
                    continue
                if no in owner:
                    bad.add(owner[no])
                    why = ln.split(": ", 2)[-1][:60] if ": " in ln else "?"
                    k = "gcc: " + why.split("‘")[0].split('"')[0].strip()[:50]
                    disc[k] = disc.get(k, 0) + 1
        if p.returncode == 0 and not bad:
            toks = ppgen.lex(p.stdout)
            if toks is None:
                disc["gcc-output-unlexable"] = disc.get("gcc-output-unlexable", 0) + len(secs)
                return [], {}
            return secs, split_sections(toks, [i for i, _ in secs])
        if not bad:
            disc["gcc-unlocated-error"] = disc.get("gcc-unlocated-error", 0) + len(secs)
            return [], {}
        secs = [(i, s) for i, s in secs if i not in bad]
    disc["gcc-retries-exhausted"] = disc.get("gcc-retries-exhausted", 0) + len(secs)
    return [], {}


def ppci_pp(text):
    """-> ('ok', tokens) | ('raised', site, message, is_diagnostic)"""
    import io
    import traceback
    from ppci.lang.c import preprocess
    from ppci.lang.c.options import COptions
    from ppci.common import CompilerError
    out = io.StringIO()
    try:
        preprocess(io.StringIO(text), out, COptions())
    except Exception as e:  # noqa - judged by the caller
        tb = traceback.extract_tb(e.__traceback__)
        site = "%s in %s" % (type(e).__name__, tb[-1].name)
        return ("raised", site, "%s: %s" % (type(e).__name__, str(getattr(e, "msg", e))[:100]),
                isinstance(e, CompilerError))
    toks = ppgen.lex(ppgen.strip_linemarkers(out.getvalue()))
    if toks is None:
        return ("raised", "unlexable-output", "ppci output cannot be split into pp-tokens", False)
    return ("ok", toks)


def run_shard(spec):
    import logging
    logging.disable(logging.CRITICAL)
    tmp = os.environ.get("VERIF_TMP") or os.getcwd()
    avoid = frozenset(spec["avoid"])
    obs = {"kind": {}, "features": {}, "outcome": {}, "arms_taken": {}, "type_probes": {}, "type_probe_ops": {}}
    disc, viol, samples, hashes = {}, [], [], []
    evals = 0

    def bump(g, k, n=1):
        obs[g][k] = obs[g].get(k, 0) + n

    for u in range(spec["units"]):
        uid = "%s_%s" % (spec["shard"], u)
        r = rng(spec["seed"], PROPERTY, uid)
        sections = [(i, ppgen.gen_section(r, i, avoid)) for i in range(spec.get("sections", 25))]
        kept, want = gcc_pp(sections, tmp, "u" + uid, disc)
        if not kept:
            continue
        text, _ = build_unit(kept)
        whole = ppci_pp(text)
        bump("outcome", "unit-" + whole[0])
        got_all = split_sections(whole[1], [i for i, _ in kept]) if whole[0] == "ok" else None
        for idx, sec in kept:
            if idx not in want:
                disc["gcc-marker-missing"] = disc.get("gcc-marker-missing", 0) + 1
                continue
            if got_all is not None and idx in got_all:
                got = ("ok", got_all[idx])
            else:
                one = ppci_pp(sec.text + ppgen.marker(idx) + "\n")
                got = one if one[0] != "ok" else ("ok", split_sections(one[1], [idx]).get(idx, one[1]))
            evals += 1
            bump("kind", sec.kind)
            for f in sec.feats:
                bump("features", f)
            for pr in sec.probes:
                bump("type_probes", pr)
                bump("type_probe_ops", pr.split(" ")[0])
            if sec.nontrivial:
                hashes.append(h(sec.text))
            case = {"section": sec.text, "kind": sec.kind, "gcc_tokens": " ".join(want[idx])}
            if got[0] != "ok":
                bump("outcome", "raised")
                if len(viol) < 6:
                    viol.append({"summary": "ppci preprocess raised %s on a section gcc accepts: %s" % (
                        got[2], sec.text[:160].replace("\n", " | ")), "case": dict(case, ppci=got[2], site=got[1])})
                continue
            if got[1] != want[idx]:
                bump("outcome", "differs")
                if len(viol) < 6:
                    k = next((j for j, (a, b) in enumerate(zip(got[1], want[idx])) if a != b),
                             min(len(got[1]), len(want[idx])))
                    viol.append({"summary": "token streams differ at token %d: ppci `%s` gcc `%s` | %s" % (
                        k, " ".join(got[1][max(0, k - 3):k + 4]), " ".join(want[idx][max(0, k - 3):k + 4]),
                        sec.text[:200].replace("\n", " | ")),
                        "case": dict(case, ppci_tokens=" ".join(got[1]))})
                continue
            bump("outcome", "agree")
            for t in want[idx]:
                if t.startswith("arm") and "_" in t:
                    bump("arms_taken", "else" if t.endswith("else") else "arm" + t.rsplit("_", 1)[1])
            if len(samples) < 2 and len(want[idx]) > 6:
                samples.append({"section": sec.text, "tokens": " ".join(want[idx])})
    return {"evaluations": evals, "nontrivial_hashes": hashes, "observed": obs, "discarded": disc,
            "violations": viol, "samples": samples}


# ---- witness probes -----------------------------------------------------------------------------

def _arm(src, want):
    """Preprocess src; the output must consist of exactly the token `want`."""
    import logging
    logging.disable(logging.CRITICAL)
    res = ppci_pp(src)
    if res[0] != "ok":
        return "`%s` -> %s" % (src.replace("\n", " | "), res[2])
    if res[1] != ppgen.lex(want):
        return "`%s` -> `%s`, gcc -E gives `%s`" % (src.replace("\n", " | "), " ".join(res[1]), want)
    return None


def _first(*cases):
    for src, want in cases:
        r = _arm(src, want)
        if r:
            return r
    return None


def _out(src, want):
    return _arm(src, want)


PROBES = {
    "pp-if-division-floors": lambda: _first(
        ("#if -7 / 2 == -3\nT\n#else\nF\n#endif\n", "T"), ("#if -7 % 3 == -1\nT\n#else\nF\n#endif\n", "T")),
    "pp-if-no-unsigned-arithmetic": lambda: _first(
        ("#if -1 < 0u\nT\n#else\nF\n#endif\n", "F"),
        ("#if 0u - 1 == 18446744073709551615u\nT\n#else\nF\n#endif\n", "T"),
        ("#if ~0u >> 63 == 1\nT\n#else\nF\n#endif\n", "T")),
    "pp-if-char-constant-unsigned": lambda: _first(("#if '\\377' < 0\nT\n#else\nF\n#endif\n", "T")),
    "stringify-puts-space-between-all-tokens": lambda: _first(("#define s(x) #x\ns((a, b))\n", '"(a, b)"')),
    "paste-with-empty-argument": lambda: _first(
        ("#define c(a, b) a ## b\nc(, x) c(x, )\n", "x x"), ("#define A(p) [ p ## 1\nA() ;\n", "[ 1 ;")),
    "zero-parameter-macro-invoked-across-lines": lambda: _first(("#define f() z\nf(\n\n) ;\n", "z ;")),
    "argument-expanding-to-nothing": lambda: _first(("#define E\n#define F(a) a 1\nF(E) ;\n", "1 ;")),
    "paste-result-pp-number-rejected": lambda: _first(("#define G(p) p ## y\nG(2) ;\n", "2y ;")),
    "function-macro-name-followed-by-macro-expanding-to-parenthesis": lambda: _first(
        ("#define P ( 1 )\n#define F(a) [a]\nF P ;\n", "F ( 1 ) ;")),
    "self-referential-macro-reexpanded-from-argument": lambda: _first(
        ("#define G G +\n#define A(p) p\nA( G ) ;\n", "G + ;")),
}
