"""C28 front-ends fail only with diagnostics, never internal errors (DESIGN 4, C28).

Monitor: generated valid inputs go through the API entry points and the
exception class that comes out (if any) is classified:
  * C   : ppci.api.cc(src, x86_64, opt_level)            inputs: vlib/cdeclgen.py programs
          (declaration heavy: typedef chains, enums, nested structs/unions, bit-fields,
          designated/array/2-d/string/pointer/function-pointer initialisers, every
          statement kind, empty bodies, nesting) and single cexprgen items (every
          integer type x in- and out-of-range constant initialisers, enumerators,
          array bounds, bit-field widths); valid = accepted by
          `gcc -fsyntax-only -std=c99 -pedantic-errors` (rejected inputs are discarded)
  * C3  : ppci.api.c3c([src], [], x86_64 | arm, opt_level)  inputs: vlib/c28gen.gen_c3
  * IR  : read_module + verify_module + optimize(level) + ir_to_object(x86_64)
          inputs: vlib/c28gen.gen_ir_text (text in print_module's syntax)
ok and diagnostic (ppci.common.CompilerError and subclasses, TaskError,
IrParseException) are both accepted; anything else is a refuting event, recorded with
(exception type, raising function, file).  Opt levels 0/1/2/s rotate over the cases.

Narrowed: irwf/irgen/cgen are not available yet, so the IR inputs come from the
module's own text generator and ppci's verify_module is the well-formedness gate
(a module it rejects is discarded and counted, none on the unchanged tree); C3
validity is "type-correct by construction in the syntax of the repository samples".
Each open finding switches its trigger construct off in the generators
(`AVOID_MAP`), so anything the sweep reports is new.
"""
import os
import subprocess

from vlib.core import rng, h

PROPERTY = "C28"
RULE = ("cdeclgen: 6-15 top-level items per program out of typedefs, enums, structs/unions with arrays, "
        "bit-fields, nested and self-referential members, initialised globals of all integer types "
        "(cexprgen constant expressions, in and out of range), designated/2-d/string/pointer/function-"
        "pointer initialisers, functions with 0-8 parameters and random statement trees (if/else, while, "
        "do, for, switch with constant-expression labels, goto, break/continue, nested and empty blocks); "
        "cexprgen single items (incl. integer constants cast to pointers, high-character string literals into "
        "char/signed/unsigned char arrays, int<->float initialisers, enum constants into narrower objects, "
        "pointer/long/char-array aggregates); gen_c3 modules; gen_ir_text modules with diamonds/loops/phis/casts. "
        "non-trivial = every generated input that passed its validity gate; distinct by hash of the text")
ASSUMPTIONS = ["gcc -fsyntax-only -std=c99 -pedantic-errors accepts exactly the valid C among the generated programs",
               "C3 and IR inputs are valid by construction (IR additionally passes ppci's verify_module)",
               "CompilerError/TaskError/IrParseException are the diagnostic channel"]
MANIFEST_ENTRY = {
    "text": ("Generated valid C (gcc -pedantic-errors accepts it), C3 and textual IR compiled through api.cc, "
             "api.c3c and read_module+optimize+ir_to_object at opt levels 0/1/2/s ends in success or a "
             "compiler diagnostic, never in an internal exception."),
    "note": ("x86_64 (+arm for C3); constructs of the open findings (constant-evaluator gaps, pack() range "
             "errors, &array[i] initialisers, unnamed bit-fields, 8/16-bit mul/div/neg and float casts, "
             "narrow stack parameters, C3 constant operators/division, a register-allocator assertion behind "
             "`!constant`, and on arm 64-bit/8-bit types and 5-parameter functions) are switched off in the generators."),
    "technique": "runtime monitoring: exception class at the API boundary over generated valid C / C3 / IR text",
}
SHARD_TIMEOUT = {"quick": 600, "thorough": 4 * 3600}

# finding key -> (cdeclgen/c28gen switches, cexprgen keys)
AVOID_MAP = {
    "consteval-operators-missing": ((), ("consteval-operators-missing",)),
    "pack-rejects-out-of-range-initializer": ((), (
        "pack-rejects-out-of-range-initializer", "consteval-no-wrap-to-type", "consteval-division-floors",
        "char-constant-has-type-char", "sizeof-result-is-signed-long", "decimal-literal-gets-unsigned-int",
        "shift-result-type-from-both-operands", "no-integer-promotion-unary-ternary-compare",
        "equality-parsed-at-relational-precedence", "ternary-condition-converted-to-int",
        "conditional-operator-arms-not-promoted")),
    "enumerator-operand-gives-enum-typed-arithmetic": ((), ("enumerator-operand-gives-enum-typed-arithmetic",)),
    "address-constant-with-offset-not-implemented": (("address-constant-with-offset",), ()),
    "string-literal-for-nested-char-array": ((), ("string-literal-for-nested-char-array",)),
    "unnamed-bitfield-asserts-in-layout-struct": (("unnamed-bitfield",), ()),
    "x86-64-selector-no-pattern-for-narrow-int-op": (
        ("narrow-int-mul-div-neg-and-float-casts",), ("narrow-int-mul-div-neg-and-float-casts",)),
    "x86-64-stack-parameter-narrower-than-int": (("seventh-parameter-narrower-than-int",), ()),
    "x86-64-register-allocator-freeze-moves-assertion": (("logical-not-of-constant-at-run-time",), ()),
    "arm-no-64-bit-integers": (("arm-no-64-bit-types",), ()),
    "arm-selector-no-pattern-for-8-bit-arithmetic": (("arm-no-8-bit-types",), ()),
    "arm-register-allocator-gives-up-spilling": (("arm-at-most-four-parameters",), ()),
    "c3-consteval-operators-missing": (("c3-const-bit-operators",), ()),
    "c3-const-division-yields-float": (("c3-const-division",), ()),
}
OPT_LEVELS = (0, 1, 2, "s")


def EXHAUSTIVE(tier):
    return False


def plan(tier, seed, avoid):
    if tier == "quick":
        n = {"c": (14, 20), "cx": (2, 300), "c3": (4, 40), "ir": (4, 40)}
    else:
        n = {"c": (32, 250), "cx": (8, 2000), "c3": (12, 400), "ir": (12, 400)}
    specs = []
    for part, (shards, cases) in n.items():
        specs += [{"part": part, "shard": i, "cases": cases} for i in range(shards)]
    return specs


def floors(tier):
    big = tier != "quick"
    return {"evaluations": 20000 if big else 700,
            "observed.inputs.c": 6000 if big else 150, "observed.inputs.cx": 5000 if big else 250,
            "observed.inputs.c3": 3000 if big else 100, "observed.inputs.ir": 3000 if big else 100,
            "observed.outcome.c:ok": 100, "observed.outcome.c3:ok": 50, "observed.outcome.ir:ok": 50,
            "observed.outcome.cx:ok": 100, "observed.opt": 4}


def switches(avoid):
    gen, cx = set(), set()
    for key in avoid:
        a, b = AVOID_MAP.get(key, ((), ()))
        gen.update(a)
        cx.update(b)
    return gen, cx


def classify(fn):
    """Run fn; -> ('ok',) | ('diag', msg) | ('internal', site, msg)"""
    import traceback
    from ppci.common import CompilerError
    from ppci.build.tasks import TaskError
    from ppci.irutils.reader import IrParseException
    try:
        fn()
        return ("ok",)
    except (CompilerError, TaskError, IrParseException) as e:
        return ("diag", str(getattr(e, "msg", e))[:60])
    except RecursionError as e:
        return ("internal", "RecursionError", str(e)[:100])
    except Exception as e:  # noqa - this is the event the property is about
        tb = traceback.extract_tb(e.__traceback__)
        fr = tb[-1]
        site = "%s in %s (%s)" % (type(e).__name__, fr.name, os.path.basename(fr.filename))
        return ("internal", site, "%s: %s" % (type(e).__name__, str(e)[:160]))


def gcc_valid_batch(sources, tmp, tag, disc):
    """Indices of the sources gcc -fsyntax-only -std=c99 -pedantic-errors accepts.  All sources go
    into one file (their file-scope names are disjoint); sources on whose lines gcc reports an
    error are dropped and the rest is checked again."""
    alive = list(range(len(sources)))
    for _round in range(4):
        if not alive:
            return []
        lines, owner = [], {}
        for i in alive:
            for ln in sources[i].rstrip("\n").split("\n"):
                lines.append(ln)
                owner[len(lines)] = i
        path = os.path.join(tmp, "%s.c" % tag)
        with open(path, "w") as f:
            f.write("\n".join(lines) + "\n")
        try:
            p = subprocess.run(["gcc", "-fsyntax-only", "-std=c99", "-pedantic-errors", path],
                               capture_output=True, text=True, timeout=300)
        except subprocess.TimeoutExpired:
            disc["gcc-timeout"] = disc.get("gcc-timeout", 0) + len(alive)
            return []
        finally:
            try:
                os.unlink(path)
            except OSError:
                pass
        if p.returncode == 0:
            return alive
        bad = set()
        for ln in p.stderr.split("\n"):
            if ln.startswith(path + ":") and " error" in ln:
                try:
                    no = int(ln[len(path) + 1:].split(":")[0])
                except ValueError:
                    continue
                if no in owner and owner[no] not in bad:
                    bad.add(owner[no])
                    k = "gcc-rejects: " + ln.split("error:")[1].strip()[:40].split("‘")[0]
                    disc[k] = disc.get(k, 0) + 1
        if not bad:
            disc["gcc-unlocated-error"] = disc.get("gcc-unlocated-error", 0) + len(alive)
            return []
        alive = [i for i in alive if i not in bad]
    disc["gcc-retries-exhausted"] = disc.get("gcc-retries-exhausted", 0) + len(alive)
    return []


def run_shard(spec):
    import io
    import logging
    import re
    from ppci.api import cc, c3c, get_arch, optimize, ir_to_object
    from ppci.irutils import read_module, verify_module
    from vlib import cdeclgen, c28gen, cexprgen
    logging.disable(logging.CRITICAL)
    part = spec["part"]
    gen_sw, cx_sw = switches(spec["avoid"])
    x86 = get_arch("x86_64")
    arm = get_arch("arm") if part == "c3" else None
    obs = {"inputs": {}, "outcome": {}, "opt": {}, "features": {}, "internal_sites": {}, "diagnostics": {}}
    disc, viol, samples, hashes = {}, [], [], []
    evals = 0
    seen_sites = set()

    def bump(g, k, n=1):
        obs[g][k] = obs[g].get(k, 0) + n

    tmp = os.environ.get("VERIF_TMP") or os.getcwd()
    cases = []
    for i in range(spec["cases"]):
        cid = "%s/%s/%s" % (part, spec["shard"], i)
        r = rng(spec["seed"], PROPERTY, cid)
        opt = OPT_LEVELS[(i + spec["shard"]) % 4]
        target = "x86_64"
        if part == "c":
            src, feats = cdeclgen.gen_program(r, gen_sw, cx_sw, prefix="q%d_" % i)
        elif part == "cx":
            it = cexprgen.gen_item(r, i, cx_sw)
            src, feats = it.decl + "\n", ["item:" + it.kind] + ["cx:" + op for op, _ in it.ops]
        elif part == "c3":
            if i % 3 == 2:
                target = "arm"
            src, feats = c28gen.gen_c3(r, gen_sw, target)
        else:
            src, feats = c28gen.gen_ir_text(r, gen_sw)
        cases.append((cid, opt, target, src, feats))
    if part in ("c", "cx"):
        ok = set(gcc_valid_batch([c[3] for c in cases], tmp, "valid_%s_%s" % (part, spec["shard"]), disc))
        cases = [c for k, c in enumerate(cases) if k in ok]

    for i, (cid, opt, target, src, feats) in enumerate(cases):
        if part in ("c", "cx"):
            res = classify(lambda: cc(io.StringIO(src), x86, opt_level=opt))
        elif part == "c3":
            res = classify(lambda: c3c([io.StringIO(src)], [], arm if target == "arm" else x86, opt_level=opt))
        else:
            holder = {}
            pre = classify(lambda: holder.setdefault("m", read_module(io.StringIO(src))))
            if pre[0] == "ok":
                chk = classify(lambda: verify_module(holder["m"]))
                if chk[0] != "ok":
                    disc["ir-text-rejected-by-verify_module"] = disc.get("ir-text-rejected-by-verify_module", 0) + 1
                    continue

                def rest():
                    optimize(holder["m"], level=opt)
                    ir_to_object([holder["m"]], x86)
                res = classify(rest)
            else:
                res = pre
        evals += 1
        hashes.append(h(src))
        bump("inputs", part)
        bump("opt", str(opt))
        bump("outcome", "%s:%s" % (part, res[0]))
        if target == "arm":
            bump("outcome", "c3-arm:%s" % res[0])
        for f in feats:
            bump("features", part + ":" + f)
        if res[0] == "diag":
            bump("diagnostics", "%s: %s" % (part, re.sub(r"[0-9]+", "N", res[1])[:50]))
        elif res[0] == "internal":
            bump("internal_sites", res[1])
            if res[1] not in seen_sites and len(viol) < 8:
                seen_sites.add(res[1])
                viol.append({"summary": "%s input (opt %s, %s) ends in internal error %s: %s" % (
                    part, opt, target, res[1], res[2][:120]),
                    "case": {"part": part, "id": cid, "opt": str(opt), "target": target, "source": src,
                             "site": res[1], "exception": res[2]}})
        elif len(samples) < 2 and i > 2:
            samples.append({"part": part, "opt": str(opt), "outcome": res[0], "source": src[:1200]})
    return {"evaluations": evals, "nontrivial_hashes": hashes, "observed": obs, "discarded": disc,
            "violations": viol, "samples": samples}


# ---- witness probes -------------------------------------------------------------------------

def _c(src, opt=0):
    import io
    import logging
    from ppci.api import cc
    logging.disable(logging.CRITICAL)
    res = classify(lambda: cc(io.StringIO(src), "x86_64", opt_level=opt))
    return None if res[0] != "internal" else "`%s` -> %s [%s]" % (src, res[2][:90], res[1])


def _c3(src, target="x86_64", opt=0):
    import io
    import logging
    from ppci.api import c3c
    logging.disable(logging.CRITICAL)
    res = classify(lambda: c3c([io.StringIO(src)], [], target, opt_level=opt))
    return None if res[0] != "internal" else "`%s` (%s) -> %s [%s]" % (src[:90].replace("\n", " "), target, res[2][:90], res[1])


ARM_SPILL_WITNESS = """module m47;
var struct { int f0; uint32_t f1; } s1;
const int K4 = ((0 - 7) * (1000 + 1000));
const int K5 = ((65536 - 0) + (K4 * 65536));
function void fn15(uint32_t p16, int p17, int32_t p18, int p19, int p20) { ; for (p20 = 0; p20 < (1 & p17); p20 = p20 + 1) { var int v21 = (100 - 2); var uint32_t v22 = cast<uint32_t>((1 * 100)); p18 += cast<int32_t>((cast<int>(s1.f1) >> K4)); } var int v23 = (K4 ^ 100); for (p19 = 0; p19 < (p17 | p17); p19 = p19 + 1) { if (cast<int>(s1.f1) >= s1.f0) { while (5 == (K5 & cast<int>(s1.f1))) { var uint32_t v24 = cast<uint32_t>((cast<int>(s1.f1) - cast<int>(s1.f1))); } } else { s1.f1 |= cast<uint32_t>((p17 & s1.f0)); for (p17 = 0; p17 < (-cast<int>(s1.f1)); p17 = p17 + 1) { var int v25; s1.f1 |= cast<uint32_t>((p19 * K5)); s1.f0 = (s1.f0 - cast<int>(p16)); var uint32_t v26; } for (v23 = 0; v23 < s1.f0; v23 = v23 + 1) { s1.f1 &= cast<uint32_t>((cast<int>(s1.f1) | v23)); } if (cast<int>(s1.f1) <= (cast<int>(p18) << cast<int>(p16))) { p16 *= cast<uint32_t>((100 + 0xff)); } else { p20 |= 100; s1.f0 = (2 / K5); } } s1.f0 *= p19; } }
"""


def _any(fn, *srcs):
    for s in srcs:
        r = fn(s)
        if r:
            return r
    return None


FREEZE_WITNESS = ("static int fn3(long long p0) { } static long fn7(signed char p0, short p1, short p3, long long p5, "
                  "unsigned p6, int p7) { for (int i3 = 0; i3 < 1; i3++) { do for (int i5 = 0; i5 < 1; i5++) { "
                  "while (1) { p1 += 1; i5 = (1 & (2147483647ul <= p3)); } while (((1 | p0) * fn3(3l))) ; "
                  "switch (p6) { case 8: ; } } while (((!8) != (!3))); } }")

PROBES = {
    "string-literal-for-nested-char-array": lambda: _any(
        _c, 'struct M { char s[3]; } g = {"ab"};', 'char a[2][3] = {"ab", "cd"};',
        'void f(void) { struct M { char s[3]; } l = {"ab"}; }'),
    "x86-64-register-allocator-freeze-moves-assertion": lambda: _c(FREEZE_WITNESS, 2),
    "consteval-operators-missing": lambda: _any(_c, "int a = 7 % 3;", "int a = 1 < 2;", "int a = !5;",
                                                "int a = 1 ? 2 : 3;", "int a = 0 && 1 / 0;"),
    "pack-rejects-out-of-range-initializer": lambda: _any(_c, "char c = 300;", "unsigned char u = -1;",
                                                          "unsigned a = ~0u >> 1;"),
    "enumerator-operand-gives-enum-typed-arithmetic": lambda: _any(_c, "enum E {A = 7}; int x = A >> 1;"),
    "address-constant-with-offset-not-implemented": lambda: _any(_c, "int arr[3]; int *gp = &arr[1];",
                                                                  "int arr[3]; int *gp = arr + 2;"),
    "unnamed-bitfield-asserts-in-layout-struct": lambda: _any(
        _c, "struct B { unsigned a : 3; unsigned : 2; unsigned c : 1; }; struct B b;"),
    "x86-64-selector-no-pattern-for-narrow-int-op": lambda: _any(
        _c, "int f(unsigned char a) { return -a; }", "void f(unsigned char *p) { *p *= 3; }",
        "int f(void) { return ~'a'; }", "int f(double d) { return (short)d; }"),
    "x86-64-stack-parameter-narrower-than-int": lambda: _any(
        _c, "int f(int a, int b, int c, int d, int e, int g, char h) { return a + h; }"),
    "arm-no-64-bit-integers": lambda: _c3("module m; function int f(int64_t a) { return cast<int>(a); }", "arm"),
    "arm-selector-no-pattern-for-8-bit-arithmetic": lambda: _c3(
        "module m; var byte g; function void f(int a) { g -= cast<byte>(a); }", "arm"),
    "arm-register-allocator-gives-up-spilling": lambda: _c3(ARM_SPILL_WITNESS, "arm", 1),
    "c3-consteval-operators-missing": lambda: _any(_c3, "module m; const int K = 1 << 3;",
                                                   "module m; var int g = 6 | 1;"),
    "c3-const-division-yields-float": lambda: _any(
        _c3, "module m; const int K = 7 / 1; function int f() { return K; }", "module m; var int g = 7 / 2;"),
}
