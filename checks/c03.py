"""C03 optimization passes keep IR well-formed and never fail internally (DESIGN C03)."""
PROPERTY = "C03"
RULE = ("same executions as C02: every real pass run (pipeline of ppci.api.optimize, single passes, random "
        "sequences up to 24 passes) on vlib.irgen modules (every fourth case: a vlib.cgen C program through c_to_ir; one in sixteen each from the Python and C3 front-ends); post-condition after each pass that changed the module: "
        "ppci.irutils.verify_module accepts it and the independent checker vlib.irwf (predecessors from terminators, "
        "naive dominators, def-use from operand fields, bookkeeping == re-derived truth) reports nothing; a pass "
        "raising on well-formed input is a violation; evaluations = post-condition evaluations; non-trivial = "
        "(case, pass, resulting module) distinct by structural hash")
ASSUMPTIONS = ["vlib.irwf's definition of well-formedness is the property's: one terminator last, all blocks reachable, "
               "defs dominate uses, one phi input per predecessor, operand types agree"]
MANIFEST_ENTRY = {
    "text": "verify_module plus an independent well-formedness re-check as post-condition of every wrapped pass run; "
            "exceptions escaping a pass on well-formed input are violations.",
    "note": "Inputs are checked well-formed by irwf before any pass runs; ill-formed generator output is discarded.",
    "technique": "runtime monitoring: post-condition monitor (verify_module + independent irwf) on every wrapped pass run",
}


def plan(tier, seed, avoid):
    n, per = (480, 15) if tier == "quick" else (8000, 125)
    return [{"start": s, "count": per} for s in range(0, n, per)]


def floors(tier):
    return {"evaluations": 1000, "observed.pass_changed": 6, "observed.seq_len_max": 8}


def run_shard(spec):
    from vlib import optmon
    return optmon.run_shard(spec, PROPERTY)


# ---- regression probes of the defects repaired by 'fix:' commits -----------

def _fn(nblocks, ret=True):
    from ppci import ir
    m = ir.Module("probe")
    f = ir.Function("f", ir.Binding.GLOBAL, ir.i32)
    m.add_function(f)
    x = ir.Parameter("x", ir.i32)
    f.add_parameter(x)
    bs = []
    for i in range(nblocks):
        b = ir.Block("b%d" % i)
        f.add_block(b)
        bs.append(b)
    f.entry = bs[0]
    return m, f, x, bs


def _wf(m):
    from vlib import irwf
    from ppci.irutils import verify_module
    try:
        verify_module(m)
    except Exception as e:
        return "verify_module: %s: %s" % (type(e).__name__, e)
    p = irwf.check_module(m)
    return p[0] if p else None


def _guard(fn):
    def run():
        try:
            return fn()
        except Exception as e:
            return "raised %s: %s" % (type(e).__name__, str(e)[:100])
    return run


@_guard
def probe_mem2reg_debugdb():
    from ppci import ir
    from ppci.opt import Mem2RegPromotor
    m, f, x, (b0, b1, b2) = _fn(3)
    a = ir.Alloc("a", 4, 4); b0.add_instruction(a)
    p = ir.AddressOf(a, "p"); b0.add_instruction(p)
    b0.add_instruction(ir.Store(x, p))
    b0.add_instruction(ir.CJump(x, "==", x, b1, b2))
    one = ir.Const(1, "one", ir.i32); b1.add_instruction(one)
    b1.add_instruction(ir.Store(one, p)); b1.add_instruction(ir.Jump(b2))
    v = ir.Load(p, "v", ir.i32); b2.add_instruction(v); b2.add_instruction(ir.Return(v))
    Mem2RegPromotor().run(m)
    return _wf(m)


@_guard
def probe_jump_delete_same_target():
    from ppci import ir
    m, f, x, (b0, b1) = _fn(2)
    j = ir.CJump(x, "==", x, b1, b1)
    b0.add_instruction(j)
    b1.add_instruction(ir.Return(x))
    b0.remove_instruction(j)
    j.delete()
    if j in b1.references or j in x.used_by:
        return "deleted cjmp still referenced"
    return None


@_guard
def probe_replace_use_duplicate():
    from ppci import ir
    m, f, x, (b0,) = _fn(1)
    c = ir.Const(2, "c", ir.i32); b0.add_instruction(c)
    t = ir.Binop(c, "+", c, "t", ir.i32); b0.add_instruction(t)
    b0.add_instruction(ir.Return(t))
    c.replace_by(x)
    if t.a is not x or t.b is not x or c in t.uses or x not in t.uses or t in c.used_by:
        return "x + x: replace_by left operands/uses inconsistent"
    t.b = c  # now x + c ; then set a to c and b to x: uses must follow
    t.a = c
    t.b = x
    if set(t.uses) != {c, x}:
        return "operand setter dropped a use still held by the other operand"
    return _wf(m)


@_guard
def probe_cjumppass():
    from ppci import ir
    from ppci.opt.cjmp import CJumpPass
    m, f, x, (b0, b1, b2, b3) = _fn(4)
    c1 = ir.Const(1, "c1", ir.i32); b0.add_instruction(c1)
    c2 = ir.Const(2, "c2", ir.i32); b0.add_instruction(c2)
    b0.add_instruction(ir.CJump(c1, "<", c2, b1, b2))
    b1.add_instruction(ir.Jump(b3))
    b2.add_instruction(ir.Jump(b3))
    phi = ir.Phi("phi", ir.i32); b3.add_instruction(phi)
    phi.set_incoming(b1, c1); phi.set_incoming(b2, c2)
    b3.add_instruction(ir.Return(phi))
    CJumpPass().run(m)
    return _wf(m)


@_guard
def probe_cleanpass_phis():
    from ppci import ir
    from ppci.opt import CleanPass
    # single-input phi in a block glued onto its predecessor; and an empty
    # block whose predecessor already reaches the successor with another value
    m, f, x, (b0, b1, b2, b3) = _fn(4)
    c1 = ir.Const(1, "c1", ir.i32); b0.add_instruction(c1)
    b0.add_instruction(ir.CJump(x, "<", c1, b1, b2))
    b1.add_instruction(ir.Jump(b2))            # empty block, b0 also jumps to b2 directly
    phi = ir.Phi("phi", ir.i32); b2.add_instruction(phi)
    phi.set_incoming(b0, x); phi.set_incoming(b1, c1)
    b2.add_instruction(ir.Jump(b3))
    phi2 = ir.Phi("phi2", ir.i32); b3.add_instruction(phi2)   # single predecessor b2
    phi2.set_incoming(b2, phi)
    b3.add_instruction(ir.Return(phi2))
    from vlib.refinterp import Interp
    want = [Interp(m).run("f", [v]).retval for v in (0, 5)]
    CleanPass().run(m)
    bad = _wf(m)
    if bad:
        return bad
    got = [Interp(m).run("f", [v]).retval for v in (0, 5)]
    return None if got == want else "CleanPass changed results %r -> %r" % (want, got)


def _fold_probe(ty, op, a, b):
    @_guard
    def run():
        from ppci import ir
        from ppci.opt import ConstantFolder
        m, f, x, (b0,) = _fn(1)
        t = ir.get_ty(ty)
        ca = ir.Const(a, "ca", t); b0.add_instruction(ca)
        cb = ir.Const(b, "cb", t); b0.add_instruction(cb)
        r = ir.Binop(ca, op, cb, "r", t); b0.add_instruction(r)
        c = ir.Cast(r, "c", ir.i32); b0.add_instruction(c)
        b0.add_instruction(ir.Return(c))
        ConstantFolder().run(m)
        return _wf(m)
    return run


PROBES = {
    "fold-crash-zero-divisor-negative-shift": lambda: _fold_probe("i32", "%", 5, 0)() or _fold_probe("i32", "<<", 1, -1)(),
    "fold-huge-shift-memoryerror": _fold_probe("u64", "<<", 1, 1 << 62),
    "mem2reg-requires-debug-db": probe_mem2reg_debugdb,
    "jump-delete-same-target-keyerror": probe_jump_delete_same_target,
    "duplicate-operand-use-bookkeeping": probe_replace_use_duplicate,
    "cjumppass-stale-phi-uses-unreachable": probe_cjumppass,
    "cleanpass-phi-handling": probe_cleanpass_phis,
    "cjumppass-unreachable-blocks": probe_cjumppass,
    "operand-setter-drops-shared-use": probe_replace_use_duplicate,
}
