"""C34 build runner: every requested target and each transitive dependency runs exactly once,
after its dependencies; a loop is reported iff the requested part of the graph is cyclic (DESIGN 4, C34).

Observation point: a recording task class registered through the public
`ppci.build.tasks.register_task` extension point; every run of a target's task
appends (target name, step) to a history list.  Two public paths are driven:

  direct   Project/Target objects + TaskRunner().run(project, [names])
  xml      an XML recipe through ppci.api.construct(file, [names]) (RecipeLoader),
           single-target requests alternately through the project's `default`

The oracle is a history checker working on the dependency graph given as a bit
mask: closure of the request, cyclicity of the induced subgraph, and for the
acyclic case "history is a permutation of the closure in which every target
comes after all of its direct dependencies, each target's tasks contiguous and
in their declared order".  `Project.dependencies(t)` is compared with the
transitive closure as well.  A target outside the closure that runs is counted
(observed.extra_target_ran) but is not a refuting event of the statement.

The hash seed is this property's schedule (the runner iterates sets of names):
cases run in workers with PYTHONHASHSEED 0,1,2,3 (`__hashseed__` in the shard
spec), and three naming schemes / two request orders vary the set iteration
order further.  The thorough tier runs every enumerated case under all four
seeds; the quick tier does so for n <= 3 and for the self-dependency-free
4-target graphs, runs the 4-target graphs that contain a self-dependency (always
cyclic when requested) under seed 0 only, and each 4-target XML recipe under
one seed (see RULE).

Open findings hollow this sweep out on the unchanged tree (DESIGN 3.2): with
`dfs-state-never-popped-reconvergence-is-loop` open, acyclic cases in which some
requested target reaches a target along two different paths are avoided; with
`targets-ordered-by-sorting-a-partial-order` open, acyclic cases whose closure is
not a strict weak order under "depends on" (incomparability not transitive) are
avoided.  Avoided cases are still executed: only the finding's own symptom is
tolerated there and counted under observed.avoided; any other refuting event is
a violation.
"""
from vlib.core import rng, h

PROPERTY = "C34"
RULE = ("dependency graphs on n targets as an n*n bit mask (bit i*n+j: target i depends on target j, diagonal = "
        "self-dependency) x every non-empty request subset; exhaustive space: ALL graphs for n = 1..4 (2^16 masks x "
        "15 subsets for n = 4) through Project/Target/TaskRunner and all self-dependency-free graphs for n <= 4 "
        "(4096 x 15 for n = 4) also through an XML recipe and api.construct. Hash seeds (PYTHONHASHSEED of the "
        "worker): thorough runs every case of both spaces under 0,1,2,3; quick runs n <= 3 and the self-dependency-"
        "free 4-target graphs under all four seeds, the 4-target graphs with self-dependencies under seed 0 only, "
        "and each 4-target XML recipe under one seed (index mod 4). 5 targets: sampled (graph, subset) pairs, half "
        "of them DAG-biased (quick 16k, thorough 200k), each under all four seeds; 1-2 recording tasks per target, "
        "3 naming schemes, 2 request orders; non-trivial = the closure of the request has >= 3 targets or contains "
        "a cycle; distinct = distinct (n, mask, request), counted once although each runs under several hash seeds")
ASSUMPTIONS = ["the history list appended to by the registered recording task is the execution order",
               "TaskError whose message mentions 'loop' or 'cycl' is the runner's loop report"]
MANIFEST_ENTRY = {
    "text": "for every dependency graph on <= 4 targets and every non-empty request (exhaustive; thorough tier under 4 "
            "hash seeds each, quick tier under 4 seeds for the self-dependency-free graphs and seed 0 for the rest) the "
            "build runner runs exactly the closure of the request, each target once and after its dependencies, and "
            "reports a loop iff the requested part is cyclic; 5 targets sampled",
    "note": "5 targets are sampled, not enumerated; while the two open findings stand (reconverging dependencies "
            "reported as loops; ordering by sorting a partial order) the verdict sweep is limited to cyclic requests, "
            "tree-shaped requests and closures that are strict weak orders",
    "technique": "runtime monitoring: history checker on the task order recorded through a task registered in task_map, "
                 "over exhaustively enumerated dependency graphs x hash seeds"}

K_DIAMOND = "dfs-state-never-popped-reconvergence-is-loop"
K_SORT = "targets-ordered-by-sorting-a-partial-order"
HASHSEEDS = ("0", "1", "2", "3")
NAMES = (("t0", "t1", "t2", "t3", "t4"), ("a", "b", "c", "d", "e"), ("lib", "app", "test", "docs", "all"))
SHARD_TIMEOUT = {"quick": 1200, "thorough": 3 * 3600}
STOP_AFTER = 40  # refuting events after which a shard stops enumerating (the run is a violation anyway)


def EXHAUSTIVE(tier):
    return True


def plan(tier, seed, avoid):
    """quick: all 2^16 4-target graphs under hash seed 0, the 4096 self-dependency-free ones under all four
    seeds (direct path) and under seed (index mod 4) through the XML path; thorough: everything under all seeds."""
    specs = []
    for hs in HASHSEEDS:
        specs.append({"part": "exh", "path": "direct", "space": "all", "n": [1, 2, 3], "lo": 0, "hi": 0,
                      "__hashseed__": hs})
        if tier == "thorough" or hs == HASHSEEDS[0]:
            step = 1 << 13
            for lo in range(0, 1 << 16, step):
                specs.append({"part": "exh", "path": "direct", "space": "all", "n": [4], "lo": lo, "hi": lo + step,
                              "__hashseed__": hs})
        else:
            for lo in range(0, 1 << 12, 1 << 11):
                specs.append({"part": "exh", "path": "direct", "space": "nodiag", "n": [4], "lo": lo,
                              "hi": lo + (1 << 11), "__hashseed__": hs})
        specs.append({"part": "exh", "path": "xml", "space": "nodiag", "n": [1, 2, 3], "lo": 0, "hi": 0,
                      "__hashseed__": hs})
        if tier == "thorough":
            for lo in range(0, 1 << 12, 1 << 11):
                specs.append({"part": "exh", "path": "xml", "space": "nodiag", "n": [4], "lo": lo,
                              "hi": lo + (1 << 11), "__hashseed__": hs})
            for i in range(4):
                specs.append({"part": "sample5", "count": 50000, "idx": i, "__hashseed__": hs})
        else:
            specs.append({"part": "exh", "path": "xml", "space": "nodiag", "n": [4], "lo": 0, "hi": 1 << 12,
                          "residue": int(hs), "__hashseed__": hs})
            specs.append({"part": "sample5", "count": 16000, "idx": 0, "__hashseed__": hs})
    return specs


def floors(tier):
    return {"evaluations": 200000, "distinct_nontrivial": 5000,
            "observed.verdict.acyclic_ran_in_order": 20000, "observed.verdict.loop_reported_on_cyclic": 100000,
            "observed.path.direct": 100000, "observed.path.xml": 5000, "observed.path.xml_default": 100,
            "observed.hashseed": 4, "observed.queries.dependencies": 20000,
            "observed.closure_size.3": 1000, "observed.closure_size.4": 1000, "observed.part.sample5": 10000}


# ---- oracle -----------------------------------------------------------------------

def deps_of(n, mask):
    return [[j for j in range(n) if mask >> (i * n + j) & 1] for i in range(n)]


def spread(n, index):
    """The index-th self-dependency-free graph: bits of index go to the off-diagonal positions."""
    mask = 0
    k = 0
    for i in range(n):
        for j in range(n):
            if i != j:
                if index >> k & 1:
                    mask |= 1 << (i * n + j)
                k += 1
    return mask


def closure_of(deps, roots):
    seen = set(roots)
    stack = list(roots)
    while stack:
        v = stack.pop()
        for w in deps[v]:
            if w not in seen:
                seen.add(w)
                stack.append(w)
    return seen


def is_cyclic(deps, nodes):
    """Cycle (self-dependency included) in the subgraph induced on `nodes` (closed under deps)."""
    state = {}
    for s in nodes:
        if s in state:
            continue
        state[s] = 1
        stack = [(s, iter(deps[s]))]
        while stack:
            v, it = stack[-1]
            for w in it:
                if state.get(w) == 1:
                    return True
                if w not in state:
                    state[w] = 1
                    stack.append((w, iter(deps[w])))
                    break
            else:
                state[v] = 2
                stack.pop()
    return False


def reconverges(deps, root):
    """Acyclic graphs only: does some target have two different dependency paths from root?"""
    sub = closure_of(deps, [root])
    indeg = {}
    for v in sub:
        for w in deps[v]:
            indeg[w] = indeg.get(w, 0) + 1
    return any(c >= 2 for c in indeg.values())


def strict_weak_order(deps, nodes):
    """Is 'depends (transitively) on' restricted to nodes a strict weak order?"""
    nodes = sorted(nodes)
    below = {v: closure_of(deps, [v]) - {v} for v in nodes}
    inc = {v: {w for w in nodes if w != v and w not in below[v] and v not in below[w]} for v in nodes}
    for x in nodes:
        for y in inc[x]:
            for z in inc[y]:
                if z != x and z not in inc[x]:
                    return False
    return True


def judge(deps, names, tasks_per, req, outcome, history, clo=None, cyclic=None):
    """Returns (kind, text): kind None = no refuting event."""
    if clo is None:
        clo = closure_of(deps, req)
        cyclic = is_cyclic(deps, clo)
    status = outcome[0]
    if status == "other":
        return "exception", "runner raised %s" % outcome[1]
    if cyclic:
        if status == "loop":
            return None, "loop_reported_on_cyclic"
        return "loop-missed", "requested part is cyclic but the runner %s" % (
            "ran %r" % (history,) if status == "ok" else "raised %s" % outcome[1])
    if status == "loop":
        return "false-loop", "loop reported (%s) but the requested part is acyclic" % outcome[1]
    if status != "ok":
        return "exception", "runner raised %s" % outcome[1]
    # history: list of (target name, step)
    idx = {names[i]: i for i in range(len(deps))}
    seq = []
    for tname, step in history:
        if tname not in idx:
            return "history", "unknown target %r in history" % tname
        seq.append((idx[tname], step))
    ran = {}
    for pos, (t, step) in enumerate(seq):
        ran.setdefault(t, []).append((pos, step))
    for t in sorted(clo):
        if t not in ran:
            return "missing", "target %s (in the closure of the request) never ran; history %r" % (names[t], history)
        steps = [s for _, s in ran[t]]
        want = [str(k) for k in range(tasks_per[t])]
        if steps != want:
            return "twice", "target %s ran its tasks as %r, expected once %r; history %r" % (
                names[t], steps, want, history)
        poss = [p for p, _ in ran[t]]
        if poss != list(range(poss[0], poss[0] + len(poss))):
            return "twice", "tasks of target %s are interleaved with others; history %r" % (names[t], history)
    for t in sorted(clo):
        for d in deps[t]:
            if ran[d][-1][0] > ran[t][0][0]:
                return "order", "target %s ran before its dependency %s; history %r" % (names[t], names[d], history)
    return None, "acyclic_ran_in_order"


# ---- the recording task and the two public paths ----------------------------------

HISTORY = []
_registered = []


def ensure_task():
    if _registered:
        return
    from ppci.build.tasks import Task, register_task

    @register_task
    class RecordTask(Task):
        """Appends (target, step) to the history: the observation point."""

        def run(self):
            HISTORY.append((self.target.name, self.get_argument("step")))

    _registered.append(RecordTask)


def run_direct(deps, names, tasks_per, req_names):
    from ppci.build.tasks import Project, Target, TaskRunner, TaskError

    project = Project("p")
    project.default = None
    for i, ds in enumerate(deps):
        t = Target(names[i], project)
        for d in ds:
            t.add_dependency(names[d])
        for k in range(tasks_per[i]):
            t.add_task(("record", {"step": str(k)}))
        project.add_target(t)
    del HISTORY[:]
    try:
        TaskRunner().run(project, list(req_names))
        return ("ok",), list(HISTORY), project
    except TaskError as e:
        msg = str(getattr(e, "msg", e))
        if "loop" in msg.lower() or "cycl" in msg.lower():
            return ("loop", msg), list(HISTORY), project
        return ("other", "TaskError: " + msg), list(HISTORY), project
    except BaseException as e:  # noqa: RecursionError etc. is judged, not fatal
        return ("other", "%s: %s" % (type(e).__name__, str(e)[:100])), list(HISTORY), project


def recipe_xml(deps, names, tasks_per, default=None):
    out = ['<project name="p"%s>' % (' default="%s"' % default if default else "")]
    for i, ds in enumerate(deps):
        dep = ' depends="%s"' % ",".join(names[d] for d in ds) if ds else ""
        out.append(' <target name="%s"%s>' % (names[i], dep))
        for k in range(tasks_per[i]):
            out.append('  <record step="%d" />' % k)
        out.append(" </target>")
    out.append("</project>")
    return "\n".join(out)


def run_xml(deps, names, tasks_per, req_names, use_default):
    import io

    from ppci import api
    from ppci.build.tasks import TaskError

    default = req_names[0] if use_default else None
    text = recipe_xml(deps, names, tasks_per, default)
    del HISTORY[:]
    try:
        api.construct(io.StringIO(text), [] if use_default else list(req_names))
        return ("ok",), list(HISTORY), text
    except TaskError as e:
        msg = str(getattr(e, "msg", e))
        if "loop" in msg.lower() or "cycl" in msg.lower():
            return ("loop", msg), list(HISTORY), text
        return ("other", "TaskError: " + msg), list(HISTORY), text
    except BaseException as e:  # noqa
        return ("other", "%s: %s" % (type(e).__name__, str(e)[:100])), list(HISTORY), text


class Mon:
    def __init__(self, spec):
        self.spec = spec
        self.evals = 0
        self.obs = {}
        self.viol = []
        self.samples = []
        self.inconclusive = []
        self.discarded = {}
        self.nontrivial_count = 0
        self.nontrivial_hashes = set()
        self.refuting = 0

    def refute(self, summary, case, replay):
        self.refuting += 1
        if len(self.viol) < 5:
            self.viol.append({"summary": summary, "case": case(), "replay_spec": replay})

    def count(self, *path):
        d = self.obs
        for p in path[:-1]:
            d = d.setdefault(p, {})
        d[path[-1]] = d.get(path[-1], 0) + 1

    def result(self):
        return {"evaluations": self.evals, "nontrivial_count": self.nontrivial_count,
                "nontrivial_hashes": sorted(self.nontrivial_hashes), "observed": self.obs,
                "discarded": self.discarded, "violations": self.viol[:5], "samples": self.samples[:2],
                "inconclusive": self.inconclusive[:3]}


def one_case(mon, n, mask, reqbits, path, avoid, count_distinct, part, deps=None):
    """Run one (graph, request) through one path and judge the history."""
    if deps is None:
        deps = deps_of(n, mask)
    req = [i for i in range(n) if reqbits >> i & 1]
    scheme = (mask + reqbits) % 3
    names = NAMES[scheme][:n]
    tasks_per = [1 + ((mask >> i) + reqbits + i) % 2 for i in range(n)]
    if (mask >> 1) & 1:
        req = req[::-1]
    req_names = [names[i] for i in req]
    clo = closure_of(deps, req)
    cyclic = is_cyclic(deps, clo)

    # classes switched off by open findings (input-defined)
    tolerated = set()
    reconv = weak = None
    if not cyclic:
        reconv = len(clo) >= 3 and any(reconverges(deps, t) for t in req)
        weak = len(clo) < 3 or strict_weak_order(deps, clo)
        if K_DIAMOND in avoid and reconv:
            tolerated.add("false-loop")
        if K_SORT in avoid and not weak:
            tolerated.add("order")

    use_default = False
    if path == "direct":
        outcome, history, project = run_direct(deps, names, tasks_per, req_names)
        extra = None
    else:
        use_default = len(req) == 1 and (bin(mask).count("1") + reqbits) % 2 == 0
        outcome, history, extra = run_xml(deps, names, tasks_per, req_names, use_default)
        project = None
    kind, text = judge(deps, names, tasks_per, req, outcome, history, clo, cyclic)

    pname = "xml_default" if use_default else path

    def make_case():
        case = {"n": n, "mask": mask, "request": req_names, "path": pname,
                "depends": {names[i]: [names[d] for d in deps[i]] for i in range(n)},
                "tasks_per_target": {names[i]: tasks_per[i] for i in range(n)},
                "hashseed": mon.spec.get("__hashseed__"), "outcome": list(outcome), "history": history,
                "closure": sorted(names[i] for i in clo), "requested_part_cyclic": cyclic}
        if extra:
            case["recipe"] = extra
        return case

    if tolerated:
        # avoided class: executed for the record; only the finding's own symptom is tolerated
        key = "+".join(sorted(tolerated))
        if kind is None:
            mon.count("avoided", key, "behaved")
        elif kind in tolerated:
            mon.count("avoided", key, "known_symptom_" + kind)
        else:
            mon.refute("n=%d mask=%#x request=%r [%s, hashseed %s]: %s" % (
                n, mask, req_names, pname, mon.spec.get("__hashseed__"), text), make_case,
                replay_spec(mon.spec, n, mask, reqbits, path))
        return

    mon.evals += 1
    mon.count("path", pname)
    mon.count("part", part)
    mon.count("closure_size", str(len(clo)))
    if any(i in deps[i] for i in clo):
        mon.count("shape", "self_dependency_in_closure")
    if reconv:
        mon.count("shape", "acyclic_reconverging")
    if weak is False:
        mon.count("shape", "acyclic_not_weak_order")
    if len(clo) < n:
        mon.count("shape", "targets_outside_closure")
    nontrivial = len(clo) >= 3 or cyclic
    if nontrivial and count_distinct == "count":
        mon.nontrivial_count += 1
    elif nontrivial and count_distinct == "hash":
        mon.nontrivial_hashes.add(h([n, mask, reqbits]))
    if kind is None:
        mon.count("verdict", text)
        if outcome[0] == "ok":
            idx = {names[i]: i for i in range(n)}
            if any(idx[t] not in clo for t, _ in history):
                mon.count("extra_target_ran")
        elif history:
            mon.count("loop_reported_after_some_tasks_ran")
        if len(mon.samples) < 2 and len(clo) == n >= 4 and not cyclic and mask % 7 == 3:
            case = make_case()
            mon.samples.append({"depends": case["depends"], "request": req_names, "history": history,
                                "hashseed": case["hashseed"], "path": pname})
    else:
        mon.refute("n=%d mask=%#x request=%r [%s, hashseed %s]: %s" % (
            n, mask, req_names, pname, mon.spec.get("__hashseed__"), text), make_case,
            replay_spec(mon.spec, n, mask, reqbits, path))
        return

    # transitive closure query (Project.dependencies), only where it terminates by contract
    if project is not None and not cyclic:
        for t in req:
            try:
                got = project.dependencies(names[t])
            except BaseException as e:  # noqa
                got = "raised %s" % type(e).__name__
            want = {names[i] for i in closure_of(deps, [t]) - {t}}
            mon.count("queries", "dependencies")
            if got != want:
                def qcase(t=t, got=got, want=want):
                    case = make_case()
                    case["dependencies_query"] = {"target": names[t], "want": sorted(want),
                                                  "got": sorted(got) if isinstance(got, set) else got}
                    return case

                mon.refute("Project.dependencies(%r) = %r, transitive closure is %r" % (names[t], got, sorted(want)),
                           qcase, replay_spec(mon.spec, n, mask, reqbits, path))


def replay_spec(spec, n, mask, reqbits, path):
    return {"part": "single", "n": n, "mask": mask, "reqbits": reqbits, "path": path,
            "__hashseed__": spec.get("__hashseed__", "0"), "tier": spec.get("tier"), "seed": spec.get("seed"),
            "avoid": spec.get("avoid", [])}


def sample5(seed, idx, k):
    """The k-th sampled (mask, reqbits) on 5 targets: independent of the hash seed."""
    r = rng(seed, PROPERTY, "s5/%d/%d" % (idx, k))
    n = 5
    p = r.choice((0.08, 0.15, 0.25, 0.4))
    mask = 0
    if r.random() < 0.5:
        order = list(range(n))
        r.shuffle(order)
        for a in range(n):
            for b in range(a):
                if r.random() < p * 1.6:
                    mask |= 1 << (order[a] * n + order[b])  # later depends on earlier: a DAG
    else:
        for i in range(n):
            for j in range(n):
                if r.random() < (p if i != j else p / 4):
                    mask |= 1 << (i * n + j)
    reqbits = r.randrange(1, 1 << n)
    return mask, reqbits


def run_shard(spec):
    import os

    mon = Mon(spec)
    avoid = spec.get("avoid", [])
    hs = str(spec.get("__hashseed__", "0"))
    if os.environ.get("PYTHONHASHSEED") != hs:
        return {"evaluations": 0, "inconclusive": ["worker runs with PYTHONHASHSEED=%r, shard wants %r" % (
            os.environ.get("PYTHONHASHSEED"), hs)]}
    mon.count("hashseed", hs)
    ensure_task()
    first_seed = hs == HASHSEEDS[0]
    part = spec["part"]
    if part == "exh":
        path = spec["path"]
        nodiag = spec.get("space") == "nodiag"
        for n in spec["n"]:
            bits = n * (n - 1) if nodiag else n * n
            lo, hi = (spec["lo"], spec["hi"]) if spec["hi"] else (0, 1 << bits)
            for index in range(lo, hi):
                if "residue" in spec and index % 4 != spec["residue"]:
                    continue
                if mon.refuting >= STOP_AFTER:
                    mon.discarded["shard_stopped_after_%d_refuting_events" % STOP_AFTER] = 1
                    break
                mask = spread(n, index) if nodiag else index
                deps = deps_of(n, mask)
                for reqbits in range(1, 1 << n):
                    one_case(mon, n, mask, reqbits, path, avoid,
                             "count" if (first_seed and path == "direct") else "none", "exh_%s" % path, deps)
    elif part == "sample5":
        for k in range(spec["count"]):
            if mon.refuting >= STOP_AFTER:
                mon.discarded["shard_stopped_after_%d_refuting_events" % STOP_AFTER] = 1
                break
            mask, reqbits = sample5(spec["seed"], spec["idx"], k)
            path = "xml" if k % 8 == 0 else "direct"
            one_case(mon, 5, mask, reqbits, path, avoid, "hash" if first_seed else "none", "sample5")
    elif part == "single":
        one_case(mon, spec["n"], spec["mask"], spec["reqbits"], spec["path"], avoid, "none", "single")
    return mon.result()


# ---- known findings ------------------------------------------------------------------

def _probe_run(depends, request):
    ensure_task()
    names = sorted(depends)
    deps = [[names.index(d) for d in depends[nm]] for nm in names]
    outcome, history, _ = run_direct(deps, names, [1] * len(names), request)
    kind, text = judge(deps, names, [1] * len(names), [names.index(x) for x in request], outcome, history)
    return kind, text


def probe_diamond():
    kind, text = _probe_run({"a": ["b", "c"], "b": ["d"], "c": ["d"], "d": []}, ["a"])
    return None if kind is None else "a->b, a->c, b->d, c->d, request [a]: %s" % text


def probe_sort():
    # which set iteration order goes wrong depends on the hash seed (the probe worker runs with
    # PYTHONHASHSEED=0): try every assignment of the names to the roles, observe the runner only
    import itertools

    for perm in itertools.permutations(("a", "b", "x")):
        up, low, free = perm
        kind, text = _probe_run({up: [low], low: [], free: []}, [up, free])
        if kind is not None:
            return "%s depends on %s, %s independent, request [%s, %s]: %s" % (up, low, free, up, free, text)
    for perm in itertools.permutations(("a", "b", "c", "x")):
        t3, t2, t1, free = perm
        kind, text = _probe_run({t3: [t2], t2: [t1], t1: [], free: []}, [t3, free])
        if kind is not None:
            return "chain %s->%s->%s plus independent %s: %s" % (t3, t2, t1, free, text)
    return None


PROBES = {K_DIAMOND: probe_diamond, K_SORT: probe_sort}
