"""C19 S-record output decodes to the object's code (DESIGN 4, C19).

Monitor: ``ppci.format.srecord.write_srecord(obj, f)`` is run on real
``ObjectFile`` objects whose ``code`` section has a generated size and content
(section address 0, as in an unlinked or default-linked object; the writer
never looks at ``section.address``, so addresses ``0..len`` are the expected
ones, as DESIGN states).  The written text is decoded by

  1. ``vlib.hexref.srec_read`` - written from the Motorola S-record definition:
     every record must have the form S<type><count><address><data><checksum>,
     a count equal to the bytes that follow and a one's-complement checksum;
     data records (S1/S2/S3) must tile exactly ``[0, len)`` with the code
     bytes, without overlap and all of one type; a header may only be an S0
     record; the file must end with the termination record that belongs to the
     data type (S9/S8/S7) and nothing may follow it; S5/S6 count records, if
     present, must carry the number of data records;
  2. GNU BFD: ``objdump -s -f -b srec`` over batches of files (refuses bad
     checksums / malformed records).

Second part ("records"): ``SRecord(typ, address, data).to_line()`` for every
record type and in-range address/data is compared with a reference encoder and
files assembled from such S1/S2/S3 lines are decoded by both readers.

Open findings and their avoid switches (DESIGN 3.2):
  * ``srec-header-in-data-record``: *every* file the writer produces starts with
    an S1 *data* record at address 0 carrying the text "HDR".  There is no input
    that avoids it, so the switch narrows the monitor by position, never by
    content: the first record of the file is still checked for form, count and
    checksum but it is not interpreted (neither as header nor as data) and it is
    removed from the copy given to objdump.  Everything after it is judged as
    above.  When the finding is closed the whole file is interpreted.
  * ``srec-16bit-addresses-only``: code sizes are capped at 65536 bytes.
On the thorough tier every 10th shard runs without the switches and a failing
case is re-run with them (neutralise-and-retest).
"""
import io
import os

from vlib.core import rng, h

PROPERTY = "C19"
RULE = ("files: code section sizes 0..130 each, k*30-1..k*30+1 (30 = bytes per record), random sizes up to 5000, "
        "sizes around 65536, and (when not avoided) sizes above 64 KiB up to 300000 (thorough: one case above "
        "16 MiB); contents random / all 00 / all FF; records: every S-record type with in-range boundary and "
        "random addresses and 0..(255-address bytes-1) data bytes; non-trivial = file with at least 2 data "
        "records, or a single record with data; distinct by hash of (size, content) / (type, address, data)")
ASSUMPTIONS = ["vlib/hexref.py implements the Motorola S-record definition (types S0-S9, count, one's complement checksum)",
               "GNU BFD's srec reader (objdump -s -f -b srec) places data record bytes correctly and refuses bad checksums",
               "the code section's bytes belong at addresses 0..len (section.address is 0 in the generated objects)"]
MANIFEST_ENTRY = {
    "text": "S-record files written by write_srecord for generated code sections, and single records encoded by "
            "SRecord.to_line, are decoded by an independent specification reader and by GNU objdump: every record "
            "must have a correct count and checksum, data records must give exactly the code bytes at 0..len, the "
            "header may only be an S0 record and the termination record must match the data record type.",
    "note": "while srec-header-in-data-record is open the first record of each file is checked for form only "
            "(position-based narrowing); while srec-16bit-addresses-only is open sizes stop at 65536; objects "
            "with a non-zero code section address are not generated (the writer ignores section.address).",
    "technique": "runtime monitoring: two independent S-record readers (specification reader + GNU BFD) over "
                 "files and records produced by the real writer",
}
KEY_HDR = "srec-header-in-data-record"
KEY_16 = "srec-16bit-addresses-only"
SHARD_TIMEOUT = {"quick": 1500, "thorough": 3 * 3600}


def EXHAUSTIVE(tier):
    return False


# ---- workload -----------------------------------------------------------------

def size_list(tier, seed, avoid):
    """Deterministic list of code sizes (one file case each)."""
    r = rng(seed, PROPERTY, "sizes")
    quick = tier == "quick"
    sizes = list(range(0, 131))
    for k in range(5, 25 if quick else 200):
        sizes += [30 * k - 1, 30 * k, 30 * k + 1]
    sizes += [65535, 65536, 65520, 65521, 65506, 65505, 65490, 65000]
    sizes += [r.randrange(65000, 65537) for _ in range(8 if quick else 60)]
    big = []
    if KEY_16 not in avoid:
        big = [65537, 65538, 65550, 65566, 65567, 70000, 100000, 131071, 131072, 131073, 196608 + 29, 300000]
        big += [r.randrange(65537, 300000) for _ in range(10 if quick else 100)]
    total = 400 if quick else 5000
    while len(sizes) + len(big) < total:
        sizes.append(r.randrange(131, 5000))
    sizes += big
    if KEY_16 not in avoid and not quick:
        sizes.append((1 << 24) + 100)  # needs S3 records
    return sizes


def plan(tier, seed, avoid):
    n = len(size_list(tier, seed, avoid))
    per = 34 if tier == "quick" else 100
    specs = []
    for s in range(0, n, per):
        spec = {"part": "files", "first": s, "count": min(per, n - s)}
        if tier != "quick" and avoid and (s // per) % 10 == 9:
            spec["unrestricted"] = True
        specs.append(spec)
    nrec = 4000 if tier == "quick" else 200000
    per = 1000 if tier == "quick" else 10000
    specs += [{"part": "records", "first": s, "count": per} for s in range(0, nrec, per)]
    return specs


def floors(tier):
    k = 1 if tier == "quick" else 10
    return {"evaluations": 3000 * k, "distinct_nontrivial": 2000 * k,
            "observed.files.judged": 380 * k, "observed.files.objdump_decoded": 380 * k,
            "observed.files.data_records": 20000 * k, "observed.files.sizes_ge_65000": 10,
            "observed.files.empty": 1, "observed.files.single_record": 25,
            "observed.records.compared": 3000 * k, "observed.records.types": 9,
            "observed.records.objdump_files": 50 * k}


def make_file_case(spec, idx, avoid, sizes):
    r = rng(spec["seed"], PROPERTY, "file%d" % idx)
    size = sizes[idx]
    style = r.choice(["random"] * 8 + ["zero", "ff"])
    if style == "zero":
        data = bytes(size)
    elif style == "ff":
        data = b"\xff" * size
    else:
        data = r.randbytes(size)
    return {"index": idx, "size": size, "style": style, "data": data}


def case_json(c, extra=None):
    d = c["data"]
    out = {"index": c["index"], "size": c["size"], "style": c["style"]}
    if len(d) <= 256:
        out["code_hex"] = d.hex()
    else:
        out["code_sha"] = h(d)
        out["code_head_hex"] = d[:32].hex()
    if extra:
        out.update(extra)
    return out


# ---- monitor: files --------------------------------------------------------------

def write_real(data):
    from ppci.format.srecord import write_srecord
    from ppci.binutils.objectfile import ObjectFile, Section
    from ppci.api import get_arch

    obj = ObjectFile(get_arch("m68k"))
    sec = Section("code")
    obj.add_section(sec)
    sec.add_data(data)
    other = Section("data")  # must not leak into the file
    obj.add_section(other)
    other.add_data(b"\xa5" * 7)
    f = io.StringIO()
    write_srecord(obj, f)
    return f.getvalue()


def judge_text(c, text, skip, obs):
    """Specification reader verdict on one file -> problems."""
    from vlib import hexref

    probs = []
    rd = hexref.srec_read(text, skip_lines=skip)
    c["rd_records"] = rd["records"]
    for p in rd["problems"][:3]:
        probs.append("specification reader: " + p)
    want = [(0, c["data"])] if c["data"] else []
    got, overlap = hexref.merge_regions(rd["chunks"])
    if overlap or sum(len(d) for _, d in rd["chunks"]) != sum(len(d) for _, d in got):
        probs.append("specification reader: data records overlap")
    diff = hexref.first_difference(want, got)
    if diff:
        hint = ""
        if rd["chunks"] and rd["chunks"][0][1] == b"HDR" and rd["header"] is None:
            hint = " (first record is an S%s data record carrying 'HDR': header text in a data record)" % (
                rd["data_types"][0] if rd["data_types"] else "?")
        probs.append("specification reader: " + diff + hint)
    if len(rd["data_types"]) > 1:
        probs.append("specification reader: data record types mixed: %s" % rd["data_types"])
    if rd["terminator"] is None:
        probs.append("specification reader: no termination record (S7/S8/S9)")
    elif rd["data_types"]:
        t = hexref.SREC_TERMINATOR_OF[rd["data_types"][0]]
        if rd["terminator"][0] != t:
            probs.append("specification reader: S%d data records terminated by S%d, expected S%d" % (
                rd["data_types"][0], rd["terminator"][0], t))
    if text and not text.endswith("\n"):
        probs.append("last record is not terminated by a newline")
    # accounting
    f = obs["files"]
    f["data_records"] += len(rd["chunks"])
    for t, n in rd["records"].items():
        f["record_types"][t] = f["record_types"].get(t, 0) + n
    f["header"]["S0" if rd["header"] is not None else ("skipped_first_record" if skip else "none")] += 1
    for typ, addr, data in rd["skipped"]:
        key = "S%d@%#x:%s" % (typ, addr, data[:8].hex())
        if len(f["skipped_first_record"]) < 8 or key in f["skipped_first_record"]:
            f["skipped_first_record"][key] = f["skipped_first_record"].get(key, 0) + 1
    return probs


def objdump_files(cases, texts, skip, tmp, obs, incon):
    from vlib import hexref

    out = {}
    names = []
    for c in cases:
        name = "c19_%d.srec" % c["index"]
        text = texts[c["index"]]
        if skip:
            text = "".join(text.splitlines(True)[skip:])
        with open(os.path.join(tmp, name), "w") as f:
            f.write(text)
        names.append(name)
    try:
        parsed, stderr = hexref.objdump_read("srec", names, tmp)
        obs["objdump_runs"] += 1
    except Exception as e:  # noqa
        incon.append("objdump failed: %s: %s" % (type(e).__name__, e))
        parsed, stderr = None, ""
    for c, name in zip(cases, names):
        try:
            os.unlink(os.path.join(tmp, name))
        except OSError:
            pass
        if parsed is None:
            continue
        probs = out.setdefault(c["index"], [])
        p = parsed.get(name)
        if p is None:
            msg = [ln for ln in stderr.splitlines() if name in ln]
            probs.append("objdump refuses the file: %s" % ("; ".join(msg)[:300] or "no message"))
            continue
        want = [(0, c["data"])] if c["data"] else []
        got, overlap = hexref.merge_regions(p["sections"])
        if overlap or sum(len(d) for _, d in p["sections"]) != sum(len(d) for _, d in got):
            probs.append("objdump: sections overlap")
        diff = hexref.first_difference(want, got)
        if diff:
            probs.append("objdump: " + diff)
        obs["files"]["objdump_decoded"] += 1
    return out


def judge_files(cases, skip, tmp, obs, incon):
    problems, texts = {}, {}
    for c in cases:
        try:
            text = write_real(c["data"])
        except Exception as e:  # noqa
            problems[c["index"]] = ["write_srecord raised %s: %s" % (type(e).__name__, e)]
            continue
        texts[c["index"]] = text
        problems[c["index"]] = judge_text(c, text, skip, obs)
        obs["files"]["judged"] += 1
    todo = [c for c in cases if c["index"] in texts and c["size"] <= 400000]
    for c in cases:
        if c["index"] in texts and c["size"] > 400000:
            obs["files"]["too_big_for_objdump"] += 1
    for i in range(0, len(todo), 25):
        res = objdump_files(todo[i:i + 25], texts, skip, tmp, obs, incon)
        for idx, probs in res.items():
            problems[idx] += probs
    return problems, texts


def new_obs():
    return {"objdump_runs": 0,
            "files": {"judged": 0, "objdump_decoded": 0, "data_records": 0, "record_types": {}, "empty": 0,
                      "single_record": 0, "sizes_ge_65000": 0, "sizes_above_64k": 0, "size_class": {},
                      "size_mod_30": {}, "header": {"S0": 0, "none": 0, "skipped_first_record": 0},
                      "skipped_first_record": {}, "too_big_for_objdump": 0, "style": {},
                      "unrestricted": {"cases": 0, "failed": 0, "explained_by_open_findings": 0}},
            "records": {"compared": 0, "types": {}, "objdump_files": 0, "data_len_class": {}, "empty_data": 0,
                        "address_at_field_limit": 0}}


def run_files(spec):
    tmp = os.environ.get("VERIF_TMP") or os.getcwd()
    obs = new_obs()
    incon = []
    unrestricted = bool(spec.get("unrestricted"))
    from vlib import hexref
    obs["oracle_versions"] = {"objdump": hexref.objdump_version()}
    avoid = [] if unrestricted else list(spec["avoid"])
    # the size list is always the one of the plan (made with the run's avoid set)
    sizes = spec.get("sizes") or size_list(spec["tier"], spec["seed"], spec["avoid"])
    indices = spec.get("indices") or range(spec["first"], spec["first"] + spec["count"])
    cases = [make_file_case(spec, i, avoid, sizes) for i in indices]
    if unrestricted:
        # without the 16-bit switch: let some of the cases be larger than 64 KiB
        for c in cases:
            r = rng(spec["seed"], PROPERTY, "grow%d" % c["index"])
            if r.random() < 0.1:
                c["size"] = r.randrange(65537, 200000)
                c["data"] = r.randbytes(c["size"])
                c["grown"] = True
    skip = 1 if KEY_HDR in avoid else 0
    problems, texts = judge_files(cases, skip, tmp, obs, incon)
    res = {"evaluations": 0, "nontrivial_hashes": [], "observed": obs, "violations": [], "samples": [],
           "inconclusive": incon, "discarded": {}}
    f = obs["files"]
    retry = []
    for c in cases:
        res["evaluations"] += 1
        size = c["size"]
        f["empty"] += size == 0
        f["single_record"] += 1 <= size <= 30
        f["sizes_ge_65000"] += size >= 65000
        f["sizes_above_64k"] += size > 65536
        cls = ("0" if size == 0 else "1-30" if size <= 30 else "31-1000" if size <= 1000 else "1001-64999"
               if size < 65000 else "65000-65536" if size <= 65536 else "65537-16777216" if size <= 1 << 24
               else "above 16 MiB")
        f["size_class"][cls] = f["size_class"].get(cls, 0) + 1
        k = str(size % 30)
        f["size_mod_30"][k] = f["size_mod_30"].get(k, 0) + 1
        f["style"][c["style"]] = f["style"].get(c["style"], 0) + 1
        if size > 30:
            res["nontrivial_hashes"].append(h([size, h(c["data"])]))
        probs = problems[c["index"]]
        if unrestricted:
            f["unrestricted"]["cases"] += 1
        if probs and unrestricted and spec["avoid"]:
            f["unrestricted"]["failed"] += 1
            retry.append(c)
        elif probs:
            add_violation(res, spec, c, probs, texts)
        elif len(res["samples"]) < 1 and 30 < size < 100:
            res["samples"].append(case_json(c, {"written": texts[c["index"]].split("\n")}))
    if retry:
        scratch = new_obs()
        for c in retry:
            if KEY_16 in spec["avoid"] and c["size"] > 65536:
                c["size"], c["data"] = 65536, c["data"][:65536]
        p2, t2 = judge_files(retry, 1 if KEY_HDR in spec["avoid"] else 0, tmp, scratch, incon)
        for c in retry:
            if p2[c["index"]]:
                add_violation(res, spec, c, p2[c["index"]], t2, note="fails with the avoid switches applied")
            else:
                f["unrestricted"]["explained_by_open_findings"] += 1
    return res


def add_violation(res, spec, c, probs, texts, note=None):
    if len(res["violations"]) >= 5:
        return
    extra = {"problems": probs}
    text = texts.get(c["index"])
    if text is not None:
        lines = text.split("\n")
        extra["written_head"] = lines[:6]
        extra["written_tail"] = lines[-4:]
        extra["written_lines"] = len(lines)
    if note:
        extra["note"] = note
    rs = {"part": "files", "indices": [c["index"]], "tier": spec["tier"], "seed": spec["seed"],
          "avoid": spec["avoid"]}
    if c.get("grown"):
        rs = None  # replay through the shard spec
    v = {"summary": "code of %d bytes: %s" % (c["size"], probs[0]), "case": case_json(c, extra)}
    if rs:
        v["replay_spec"] = rs
    res["violations"].append(v)


# ---- monitor: single records ---------------------------------------------------

def gen_record(r):
    from vlib import hexref

    typ = r.choice([0, 1, 1, 1, 2, 2, 2, 3, 3, 3, 5, 6, 7, 8, 9])
    n = hexref.SREC_ADDR_BYTES[typ]
    maxdata = 255 - n - 1
    if typ in (1, 2, 3):
        ln = r.choice([0, 1, 2, 16, 30, 32, maxdata, maxdata - 1, r.randrange(0, maxdata + 1), r.randrange(0, 40)])
        top = min((1 << (8 * n)) - ln, (1 << (8 * n)) - 1)
        addr = r.choice([0, top, max(0, top - 1), 1 << (8 * n - 1), 0x7AF0 % (top + 1), r.randrange(0, top + 1),
                         r.randrange(0, top + 1), 0xFFFF % (top + 1), 0x10000 % (top + 1)])
        data = r.choice([r.randbytes(ln), r.randbytes(ln), bytes(ln), b"\xff" * ln])
    elif typ == 0:
        ln = r.choice([0, 3, 20, r.randrange(0, maxdata + 1)])
        addr, data = 0, r.choice([b"HDR", r.randbytes(ln), bytes(r.randrange(32, 127) for _ in range(ln))])
    else:
        addr = r.choice([0, 1, 3, (1 << (8 * n)) - 1, r.randrange(0, 1 << (8 * n))])
        data = b""
    return typ, addr, data


def run_records(spec):
    from ppci.format.srecord import SRecord
    from vlib import hexref

    tmp = os.environ.get("VERIF_TMP") or os.getcwd()
    obs = new_obs()
    ro = obs["records"]
    incon = []
    res = {"evaluations": 0, "nontrivial_hashes": [], "observed": obs, "violations": [], "samples": [],
           "inconclusive": incon, "discarded": {}}

    def violation(summary, case):
        if len(res["violations"]) < 5:
            res["violations"].append({"summary": summary, "case": case,
                                      "replay_spec": {"part": "records", "first": case["index"], "count": 1,
                                                      "tier": spec["tier"], "seed": spec["seed"],
                                                      "avoid": spec["avoid"]}})

    pool = {1: [], 2: [], 3: []}  # lines for the objdump files
    for idx in range(spec["first"], spec["first"] + spec["count"]):
        r = rng(spec["seed"], PROPERTY, "rec%d" % idx)
        typ, addr, data = gen_record(r)
        case = {"index": idx, "type": typ, "address": addr, "data_hex": data.hex()}
        want = hexref.srec_record(typ, addr, data)
        res["evaluations"] += 1
        ro["compared"] += 1
        ro["types"]["S%d" % typ] = ro["types"].get("S%d" % typ, 0) + 1
        cls = "0" if not data else "1-32" if len(data) <= 32 else "33-249" if len(data) < 250 else "250-252"
        ro["data_len_class"][cls] = ro["data_len_class"].get(cls, 0) + 1
        ro["empty_data"] += len(data) == 0
        ro["address_at_field_limit"] += addr + len(data) == 1 << (8 * hexref.SREC_ADDR_BYTES[typ])
        if data:
            res["nontrivial_hashes"].append(h(case))
        try:
            got = SRecord(typ, addr, data).to_line()
        except Exception as e:  # noqa
            violation("SRecord(%d, %#x, %d bytes).to_line() raised %s: %s" % (typ, addr, len(data), type(e).__name__, e), case)
            continue
        case["line"], case["reference"] = got, want
        if not isinstance(got, str) or got.upper() != want:
            violation("SRecord(%d, %#x, %d bytes).to_line() = %s, reference %s" % (typ, addr, len(data), str(got)[:60], want[:60]), case)
            continue
        rd = hexref.srec_read(got + "\n")
        bad = [p for p in rd["problems"] if "count record says" not in p]  # a lone S5/S6 counts nothing
        if bad:
            violation("record %s: %s" % (got[:60], bad[0]), case)
            continue
        if typ in pool and data:
            pool[typ].append((addr, data, got))
        elif len(res["samples"]) < 1 and typ == 0 and data:
            res["samples"].append(case)
    # files of non-overlapping data records of one type, read back by both readers
    files = []
    for typ, recs in pool.items():
        cur, used = [], []
        for addr, data, line in recs:
            if any(addr < a + len(d) and a < addr + len(data) for a, d in used) or len(cur) >= 12:
                files.append((typ, cur))
                cur, used = [], []
            cur.append((addr, data, line))
            used.append((addr, data))
        if cur:
            files.append((typ, cur))
    names = []
    for i, (typ, recs) in enumerate(files):
        term = SRecord(hexref.SREC_TERMINATOR_OF[typ], 0, bytes()).to_line()
        text = "".join(line + "\n" for _, _, line in recs) + term + "\n"
        rd = hexref.srec_read(text)
        want, _ = hexref.merge_regions([(a, d) for a, d, _ in recs])
        got, overlap = hexref.merge_regions(rd["chunks"])
        d = hexref.first_difference(want, got)
        if rd["problems"] or d or overlap:
            violation("file of S%d records: %s" % (typ, (rd["problems"] or [d or "overlap"])[0]),
                      {"index": spec["first"], "type": typ, "lines": text.split("\n")})
        name = "c19r_%d_%d.srec" % (spec["first"], i)
        with open(os.path.join(tmp, name), "w") as f:
            f.write(text)
        names.append(name)
    for i in range(0, len(names), 100):
        part = names[i:i + 100]
        try:
            parsed, stderr = hexref.objdump_read("srec", part, tmp)
            obs["objdump_runs"] += 1
        except Exception as e:  # noqa
            incon.append("objdump failed: %s: %s" % (type(e).__name__, e))
            break
        for name, (typ, recs) in zip(part, files[i:i + 100]):
            p = parsed.get(name)
            lines = [line for _, _, line in recs]
            if p is None:
                msg = [ln for ln in stderr.splitlines() if name in ln]
                violation("objdump refuses a file of S%d records: %s" % (typ, "; ".join(msg)[:200]),
                          {"index": spec["first"], "type": typ, "lines": lines})
                continue
            want, _ = hexref.merge_regions([(a, d) for a, d, _ in recs])
            got, overlap = hexref.merge_regions(p["sections"])
            d = hexref.first_difference(want, got)
            if d or overlap:
                violation("objdump on a file of S%d records: %s" % (typ, d or "sections overlap"),
                          {"index": spec["first"], "type": typ, "lines": lines})
            ro["objdump_files"] += 1
    for name in names:
        try:
            os.unlink(os.path.join(tmp, name))
        except OSError:
            pass
    return res


def run_shard(spec):
    if spec["part"] == "files":
        return run_files(spec)
    return run_records(spec)


# ---- probes ---------------------------------------------------------------------

def probe_header():
    from vlib import hexref

    text = write_real(bytes([1, 2, 3, 4, 5]))
    rd = hexref.srec_read(text)
    first = text.split("\n")[0]
    if rd["header"] is None and rd["chunks"] and rd["chunks"][0] == (0, b"HDR"):
        return ("write_srecord puts the header text in a data record: first line %s is S1 at address 0 with "
                "data 'HDR'; a reader sees 48 44 52 under the code at 0..2" % first)
    got, overlap = hexref.merge_regions(rd["chunks"])
    if overlap or got != [(0, bytes([1, 2, 3, 4, 5]))]:
        return "5-byte code section decodes to %r" % (rd["chunks"],)
    return None


def probe_16bit():
    from vlib import hexref

    n = 65536 + 60
    data = bytes((i * 7 + (i >> 8)) & 0xFF for i in range(n))
    text = write_real(data)
    rd = hexref.srec_read(text, skip_lines=0)
    # look only at the records that carry the bytes above 64 KiB
    tail = [(a, d) for a, d in rd["chunks"] if d != b"HDR"][-3:]
    want_tail_addr = n - len(tail[-1][1]) if tail else None
    if tail and tail[-1][0] == want_tail_addr and set(rd["data_types"]) != {1}:
        return None
    return ("code of %d bytes: last data record is S%s at address %#x, expected address %#x "
            "(addresses wrap at 64 KiB, only S1 records are written)" % (
                n, rd["data_types"][0] if rd["data_types"] else "?", tail[-1][0] if tail else -1, want_tail_addr))


PROBES = {KEY_HDR: probe_header, KEY_16: probe_16bit}
