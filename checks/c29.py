"""C29 code generation succeeds for supported IR on x86_64, arm, arm:thumb, riscv, riscv:rvc (DESIGN C29).

Monitor: ``ppci.api.ir_to_object`` (after ``ppci.api.optimize(m, level)``) is
called on well-formed modules that only use value types the target maps to a
register class (``arch.info.value_classes``); any exception is a refuting
event, keyed by mechanism (lowest unmatched node of the selection tree, read
from the labelled tree in the raising frame; otherwise exception type +
raising function).

Workload: (1) the systematic matrix of vlib.cgmatrix -- every binop / unop /
compare / cast for every supported type x operand sources x consumers, memory
addressing forms incl. large offsets and frames, every argument position on
caller and callee side, phis, loops, undefined, blobs, indirect calls,
register-pressure functions -- batched 40 functions per module; a failing
module is bisected over function subsets to the failing function;
(2) vlib.irgen random modules (types restricted to the target's, high register
pressure through cgmatrix.add_pressure) at every level.

Known findings: every avoid switch is a list of feature patterns (construct,
type) evaluated on the IR *handed to ir_to_object* (after optimize) -- a
function that contains an avoided feature is not compiled in the main sweep.
Thorough tier additionally compiles the avoided matrix cells ("unrestricted"):
a failure there must carry a mechanism listed by an open finding, otherwise
it is a violation (new mechanism hidden behind an avoided construct).

Three open findings have a trigger that is an allocator state, not an IR
construct (re-spilling of spill temporaries, a coalesced self-move met by
freeze, a spill in a thumb frame beyond 255 bytes).  Their avoid switches sit
at the trigger: harness wrappers of rewrite_program / freeze_moves abandon the
function (discarded, counted) before the defective code runs; the verdict
never inspects what the defect would have raised.  A compilation exceeding
the per-call watchdog (SIGALRM) is discarded and counted, never judged.

Narrowing (stated): exceptions raised by ``optimize`` itself are counted and
discarded (C03 judges passes); "every level" = 0,1,2,s -- the quick tier
compiles each matrix cell at level 0 and one rotating other level.
"""
import fnmatch

from vlib.core import rng, h

PROPERTY = "C29"
TARGETS = ["x86_64", "arm", "arm:thumb", "riscv", "riscv:rvc"]
LEVELS = ["0", "1", "2", "s"]
BATCH = 40

RULE = ("for each of x86_64, arm, arm:thumb, riscv, riscv:rvc: the vlib.cgmatrix matrix (every binop/unop/compare/cast "
        "for every type in arch.info.value_classes x operand source {param, const 0/small/large/negative/minimum, local "
        "load, global load, other op} x consumer {return, store, compare, call argument}; loads/stores over addressing forms, "
        "offsets and frame sizes; argument positions 1..10 caller/callee; phi/loop/undefined/blob/indirect-call/"
        "pressure functions) and vlib.irgen random modules with pressure post-pass, each through "
        "ppci.api.optimize(level) and ppci.api.ir_to_object; quick = 1/8 slice of the matrix (rotating with the seed) "
        "at level 0 + one other level, thorough = whole matrix at levels 0,1,2,s; evaluation = one (function, level, "
        "target) that ir_to_object compiled or raised on; all matrix cells are distinct by construction, random "
        "modules distinct by seed index")
ASSUMPTIONS = ["modules built by vlib.cgmatrix / vlib.irgen are well-formed (checked each time by ppci.irutils.verify_module "
               "and vlib.irwf.check_module before optimisation)",
               "supported value types = keys of arch.info.value_classes (+ ptr)"]
MANIFEST_ENTRY = {
    "text": "Every operator/type/operand-shape/consumer combination and random high-pressure modules are pushed through "
            "the real optimize + ir_to_object on the five mature targets; any exception is reported with the uncovered "
            "tree node or raising function as mechanism.",
    "note": "Constructs of open findings (many sub-word operators and casts have no selection pattern) are excluded "
            "from the main sweep by feature patterns on the IR given to ir_to_object; the thorough tier compiles them "
            "too and requires the listed mechanism. Exceptions from optimize() are C03's concern and only counted.",
    "technique": "runtime monitoring: exception monitor on ppci.api.ir_to_object over a systematic IR matrix and random modules",
}

# --------------------------------------------------------------------------
# known findings: feature patterns (avoid switch) and the mechanisms they explain

FINDINGS = {}


def _finding(key, targets, deny, mech, witness_target, witness_cell):
    FINDINGS[key] = {"targets": targets, "deny": deny, "mech": mech, "wt": witness_target, "wc": witness_cell}


ALL = TARGETS
X86 = ["x86_64"]
ARM = ["arm"]
THUMB = ["arm:thumb"]
RV = ["riscv", "riscv:rvc"]



def _c(**kw):
    return kw


def _bin(op, ty, use="ret"):
    return _c(k="binop", op=op, ty=ty, a="param", b="param", use=use)


def _un(op, ty):
    return _c(k="unop", op=op, ty=ty, a="param", use="ret")


def _cast(ty, to):
    return _c(k="cast", ty=ty, to=to, a="param", use="ret")


_finding("irdag-rotate-keyerror", ALL, ["binop:rol:*", "binop:ror:*"], ["KeyError:do_binop:*"],
         ["x86_64", "riscv"], [_c(k="misc", what="rotate", ty="u32", op="rol"), _c(k="misc", what="rotate", ty="i32", op="ror")])
_finding("ra-gives-up-respilling-spill-temporaries", ALL, [], ["RuntimeError:alloc_frame:Give up after*"], ["arm"],
         [_c(k="misc", what="respill", ty="i32", n=12, uses=2)])
_finding("ra-freeze-self-move-assertion", ALL, [], ["AssertionError:freeze_moves:*"], [], [])
_finding("rvc-shift-const-lhs-pattern-negative-immediate", ["riscv:rvc"], ["binop:<<:i32:lhs-lt-32", "binop:>>:i32:lhs-lt-32"],
         ["AssertionError:__setitem__:*"], ["riscv:rvc"],
         [_c(k="binop", op="<<", ty="i32", a="c_min", b="param", use="ret")])
_finding("riscv-shift-by-constant-below-minus-32-assertion", RV, ["binop:<<:i32:rhs-lt-32", "binop:>>:i32:rhs-lt-32"],
         ["AssertionError:__setitem__:*"], ["riscv", "riscv:rvc"],
         [_c(k="binop", op="<<", ty="i32", a="param", b="c_min", use="ret"), _c(k="binop", op=">>", ty="i32", a="param", b="c_min", use="ret")])
_finding("tailcall-new-entry-block-name-collides", ALL, [], ["AssertionError:do_emit:*", "combination:AssertionError:do_emit:*"], [], [])
# ---- x86_64
_finding("x86_64-8bit-mul-div-rem-uncovered", X86, ["binop:[*/%]:[iu]8"], ["uncovered:MUL[IU]8", "uncovered:DIV[IU]8", "uncovered:REM[IU]8"],
         ["x86_64"] * 3, [_bin("*", "u8"), _bin("/", "i8"), _bin("%", "u8")])
_finding("x86_64-16bit-mul-rem-uncovered", X86, ["binop:[*%]:[iu]16"], ["uncovered:MUL[IU]16", "uncovered:REM[IU]16"],
         ["x86_64"] * 2, [_bin("*", "i16"), _bin("%", "u16")])
_finding("x86_64-8bit-neg-inv-uncovered", X86, ["unop:?:[iu]8"], ["uncovered:NEG[IU]8", "uncovered:INV[IU]8"],
         ["x86_64"] * 2, [_un("-", "u8"), _un("~", "i8")])
_finding("x86_64-smallint-float-cast-uncovered", X86,
         ["cast:[iu]8:f*", "cast:[iu]16:f*", "cast:f*:[iu]8", "cast:f*:[iu]16"],
         ["uncovered:[IU]8TOF*", "uncovered:[IU]16TOF*", "uncovered:F*TO[IU]8", "uncovered:F*TO[IU]16"],
         ["x86_64"] * 2, [_cast("i8", "f32"), _cast("f64", "u16")])
_finding("x86_64-stack-passed-small-int-parameter-notimplemented", X86,
         ["param:[iu]8:cls[6-9]", "param:[iu]16:cls[6-9]"], ["NotImplementedError:gen_function_enter:*"],
         ["x86_64"], [_c(k="args", ty="i16", n=7, side="callee", lead="i32")])
_finding("x86_64-stack-passed-small-or-float-argument-notimplemented", X86,
         ["callarg:[iu]8:cls[6-9]", "callarg:[iu]16:cls[6-9]", "callarg:f*:cls[89]"], ["NotImplementedError:gen_call:*"],
         ["x86_64"] * 2, [_c(k="args", ty="i8", n=7, side="caller", lead="i32"), _c(k="args", ty="f64", n=9, side="caller")])
# ---- arm
_finding("arm-subword-mul-div-rem-uncovered", ARM, ["binop:[*/%]:[iu]8", "binop:[*/%]:[iu]16"],
         ["uncovered:MUL[IU]8", "uncovered:DIV[IU]8", "uncovered:REM[IU]8", "uncovered:MUL[IU]16", "uncovered:DIV[IU]16",
          "uncovered:REM[IU]16"], ["arm"] * 2, [_bin("*", "u8"), _bin("/", "i16")])
_finding("arm-remu32-uncovered", ARM, ["binop:%:u32"], ["uncovered:REMU32"], ["arm"], [_bin("%", "u32")])
_finding("arm-subu8-uncovered", ARM, ["binop:-:u8"], ["uncovered:SUBU8"], ["arm"], [_bin("-", "u8")])
_finding("arm-subword-inv-uncovered", ARM, ["unop:~:[iu]8", "unop:~:[iu]16"], ["uncovered:INV[IU]8", "uncovered:INV[IU]16"],
         ["arm"], [_un("~", "u16")])
_finding("arm-subword-int-cast-uncovered", ARM, ["cast:[iu]16:[iu]8", "cast:[iu]8:[iu]16"],
         ["uncovered:[IU]16TO[IU]8", "uncovered:[IU]8TO[IU]16"], ["arm"] * 2, [_cast("i16", "u8"), _cast("u8", "i16")])
_finding("arm-consti8-negative-uncovered", ARM, ["const:i8:negative"], ["uncovered:CONSTI8"], ["arm"],
         [_c(k="binop", op="+", ty="i8", a="param", b="c_neg", use="ret")])
_finding("arm-large-frame-offset-invalid-imm32", ARM, ["frame:ge256"], ["ValueError:encode_imm32:*"], ["arm"],
         [_c(k="mem", ty="i32", addr="bigframe", dir="load", frame=2100)])
# ---- thumb
_finding("thumb-subword-add-sub-uncovered", THUMB, ["binop:[+-]:[iu]16", "binop:[+-]:u8"],
         ["uncovered:ADD[IU]16", "uncovered:ADDU8", "uncovered:SUB[IU]16", "uncovered:SUBU8"], ["arm:thumb"] * 2,
         [_bin("+", "u8"), _bin("-", "i16")])
_finding("thumb-subword-mul-div-rem-uncovered", THUMB, ["binop:[*/%]:[iu]8", "binop:[*/%]:[iu]16"],
         ["uncovered:MUL[IU]8", "uncovered:DIV[IU]8", "uncovered:REM[IU]8", "uncovered:MUL[IU]16", "uncovered:DIV[IU]16",
          "uncovered:REM[IU]16"], ["arm:thumb"], [_bin("*", "u16")])
_finding("thumb-divu32-remu32-uncovered", THUMB, ["binop:/:u32", "binop:%:u32"], ["uncovered:DIVU32", "uncovered:REMU32"],
         ["arm:thumb"] * 2, [_bin("/", "u32"), _bin("%", "u32")])
_finding("thumb-inv-uncovered", THUMB, ["unop:~:*"], ["uncovered:INV[IU]*"], ["arm:thumb"], [_un("~", "i32")])
_finding("thumb-subword-int-cast-uncovered", THUMB, ["cast:[iu]16:[iu]8", "cast:[iu]8:[iu]16"],
         ["uncovered:[IU]16TO[IU]8", "uncovered:[IU]8TO[IU]16"], ["arm:thumb"], [_cast("u16", "i8")])
_finding("thumb-cjmp-signed-le-keyerror", THUMB, ["cjump:<=:i*"], ["KeyError:pattern_cjmp_signed:*"], ["arm:thumb"],
         [_c(k="cmp", op="<=", ty="i32", a="param", b="param")])
_finding("thumb-stack-passed-argument-typeerror", THUMB, ["callarg:*:pos[4-9]"], ["TypeError:__init__:*"], ["arm:thumb"],
         [_c(k="args", ty="i32", n=5, side="caller")])
_finding("thumb-blob-argument-notimplemented", THUMB, ["callarg:blob*"], ["NotImplementedError:gen_call:*"], ["arm:thumb"],
         [_c(k="misc", what="blobarg", size=8)])
_finding("thumb-copyblob-uncovered", THUMB, ["copyblob", "store:blob"], ["uncovered:MOVB"], ["arm:thumb"],
         [_c(k="misc", what="copyblob", size=8, src="param")])
_finding("thumb-spill-slot-beyond-255-minictx-has-no-frame", THUMB, [], ["AttributeError:pattern_fprel32:*"], ["arm:thumb"],
         [_c(k="misc", what="pressure", ty="i32", n=12, frame=300)])
_finding("float-identity-cast-uncovered", X86 + RV, ["cast:f32:f32", "cast:f64:f64"], ["uncovered:F32TOF32", "uncovered:F64TOF64"],
         ["x86_64", "riscv"], [_cast("f32", "f32"), _cast("f64", "f64")])
# ---- riscv
_finding("riscv-subword-mul-div-rem-uncovered", RV,
         ["binop:/:i16", "binop:/:i8", "binop:/:u8", "binop:[*]:i16", "binop:%:i16", "binop:%:i8", "binop:%:u8"],
         ["uncovered:DIVI16", "uncovered:DIVI8", "uncovered:DIVU8", "uncovered:MULI16", "uncovered:REMI16",
          "uncovered:REMI8", "uncovered:REMU8"], ["riscv", "riscv:rvc"], [_bin("/", "u8"), _bin("*", "i16")])
_finding("riscv-subword-neg-inv-uncovered", RV, ["unop:-:u8", "unop:-:u16", "unop:~:[iu]16"],
         ["uncovered:NEGU8", "uncovered:NEGU16", "uncovered:INV[IU]16"], ["riscv", "riscv:rvc"], [_un("-", "u8"), _un("~", "i16")])
_finding("riscv-float-int-cast-uncovered", RV,
         ["cast:f*:[iu]8", "cast:f*:[iu]16", "cast:f*:u32", "cast:[iu]8:f*", "cast:[iu]16:f*", "cast:u32:f*"],
         ["uncovered:F*TO[IU]8", "uncovered:F*TO[IU]16", "uncovered:F*TOU32", "uncovered:[IU]8TOF*", "uncovered:[IU]16TOF*",
          "uncovered:U32TOF*"], ["riscv", "riscv:rvc"], [_cast("f32", "u32"), _cast("i16", "f64")])
_finding("riscv-large-frame-fprel-uncovered", RV, ["frame:ge2048"], ["uncovered:FPRELU32"], ["riscv", "riscv:rvc"],
         [_c(k="mem", ty="i32", addr="bigframe", dir="load", frame=4200)] * 2)


def deny_for(target, avoid):
    pats = []
    for key in avoid:
        f = FINDINGS.get(key)
        if f and target in f["targets"]:
            pats += f["deny"]
    return pats


def explains(target, avoid, feats, mech):
    """Is the failure mechanism ``mech`` on a function with features ``feats``
    explained by an open finding whose avoid patterns hit this function?"""
    for key in avoid:
        f = FINDINGS.get(key)
        if not f or target not in f["targets"]:
            continue
        if not any(fnmatch.fnmatchcase(x, p) for p in f["deny"] for x in feats):
            continue
        if any(fnmatch.fnmatchcase(mech, p) for p in f["mech"]):
            return key
    return None


# --------------------------------------------------------------------------


def plan(tier, seed, avoid):
    specs = []
    if tier == "quick":
        for t in TARGETS:
            for part in range(3):
                specs.append({"part": "matrix", "target": t, "stride": 8, "offset": seed % 8, "sub": part, "nsub": 3,
                              "levels": "rot"})
            for s in range(0, 60, 20):
                specs.append({"part": "random", "target": t, "start": s, "count": 20, "levels": "rot"})
    else:
        for t in TARGETS:
            for part in range(10):
                specs.append({"part": "matrix", "target": t, "stride": 1, "offset": 0, "sub": part, "nsub": 10,
                              "levels": "all"})
            for part in range(2):
                specs.append({"part": "unrestricted", "target": t, "sub": part, "nsub": 2})
            for s in range(0, 2000, 100):
                specs.append({"part": "random", "target": t, "start": s, "count": 100, "levels": "rot"})
    return specs


def floors(tier):
    if tier == "quick":
        return {"evaluations": 5500, "observed.targets": 5, "observed.random_modules_compiled": 150,
                "observed.levels": 4, "observed.spill_or_pressure_functions": 200}
    return {"evaluations": 100000, "observed.targets": 5, "observed.random_modules_compiled": 7000,
            "observed.levels": 4, "observed.unrestricted_cells": 3000}


def EXHAUSTIVE(tier):
    return False


SHARD_TIMEOUT = {"quick": 900, "thorough": 4 * 3600}


class Mon:
    def __init__(self, spec):
        self.spec = spec
        self.evals = 0
        self.nontrivial = 0
        self.viol = []
        self.viol_keys = set()
        self.obs = {"targets": {}, "levels": {}, "cells_ok": {}, "cells_attempted": {}, "avoided_functions": {},
                    "kinds": {}, "random_modules_compiled": 0, "random_functions_compiled": 0,
                    "spill_or_pressure_functions": 0, "unrestricted_cells": 0, "known_mechanisms": {},
                    "neutralised_constructs": 0, "avoided_but_compiles": {}}
        self.disc = {}
        self.samples = []
        self.inconclusive = []

    def bump(self, d, k, n=1):
        d[k] = d.get(k, 0) + n

    def discard(self, why, n=1):
        self.disc[why] = self.disc.get(why, 0) + n

    def violation(self, key, summary, case):
        if key in self.viol_keys:
            return
        self.viol_keys.add(key)
        if len(self.viol) < 12:
            v = {"summary": summary, "case": case}
            if "replay_spec" in case:
                v["replay_spec"] = case["replay_spec"]
            self.viol.append(v)

    def result(self):
        return {"evaluations": self.evals, "nontrivial_count": self.nontrivial, "observed": self.obs,
                "discarded": self.disc, "samples": self.samples[:3], "violations": self.viol,
                "inconclusive": self.inconclusive[:5]}


def levels_for(spec, index):
    if spec.get("levels") == "all":
        return list(LEVELS)
    if spec.get("levels") == "rot":
        return ["0", LEVELS[1 + (index + spec["seed"]) % 3]]
    return list(spec.get("levels") or ["0"])


class Watchdog(BaseException):
    """Raised by SIGALRM inside a compilation that exceeds the per-call budget
    (never a verdict: the case is discarded and counted)."""


def _on_alarm(signum, frame):
    raise Watchdog("compilation exceeded the watchdog budget")


def compile_subset(api, m, arch, funcs, budget=90):
    """ir_to_object on the module restricted to ``funcs`` (a view: the list of
    functions is swapped for the call)."""
    import signal

    allf = list(m._functions)
    allx = list(m.externals)
    m._functions[:] = funcs
    # functions left out stay visible as symbols (their address may be taken / they may be called)
    m.externals[:] = allx + [f for f in allf if f not in funcs]
    old_handler = signal.signal(signal.SIGALRM, _on_alarm)
    signal.setitimer(signal.ITIMER_REAL, budget)
    try:
        api.ir_to_object([m], arch)
        return None
    except Avoided as e:
        return e
    except Watchdog as e:
        return Avoided("watchdog-timeout")
    except Exception as e:  # the monitored event
        return e
    finally:
        signal.setitimer(signal.ITIMER_REAL, 0)
        signal.signal(signal.SIGALRM, old_handler)
        m._functions[:] = allf
        m.externals[:] = allx


class Avoided(Exception):
    """Raised by the harness-side avoid switches that sit at the trigger point
    inside the register allocator (see install_allocator_switches)."""


def install_allocator_switches(target, avoid):
    """Two open findings have a trigger that cannot be read off the IR: whether
    the allocator spills, and whether it picks a spill temporary for spilling
    again.  Their avoid switches therefore sit at the trigger: a wrapper of
    GraphColoringRegisterAllocator.rewrite_program abandons the function
    (Avoided -> discarded, counted) *before* the defective code runs.  The
    verdict never looks at the exception the defect would have produced."""
    from ppci.codegen.registerallocator import GraphColoringRegisterAllocator as RA

    if getattr(RA, "_c29_wrapped", False):
        RA._c29_cfg = (target, tuple(avoid))
        return
    RA._c29_wrapped = True
    RA._c29_cfg = (target, tuple(avoid))
    orig_rewrite = RA.rewrite_program
    orig_alloc = RA.alloc_frame

    def alloc_frame(self, frame):
        self._c29_temps = set()
        return orig_alloc(self, frame)

    def rewrite_program(self, node):
        tgt, av = RA._c29_cfg
        temps = getattr(self, "_c29_temps", None)
        if temps is None:
            temps = self._c29_temps = set()
        if "thumb-spill-slot-beyond-255-minictx-has-no-frame" in av and tgt == "arm:thumb" \
                and self.frame.stacksize + 8 >= 256:
            raise Avoided("thumb-spill-slot-beyond-255-minictx-has-no-frame")
        if "ra-gives-up-respilling-spill-temporaries" in av and node.temps and all(t in temps for t in node.temps):
            raise Avoided("ra-gives-up-respilling-spill-temporaries")
        frame = self.frame
        orig_new = frame.new_reg

        def new_reg(cls, twain=""):
            r = orig_new(cls, twain)
            temps.add(r)
            return r

        frame.new_reg = new_reg
        try:
            return orig_rewrite(self, node)
        finally:
            del frame.new_reg

    orig_freeze_moves = RA.freeze_moves

    def freeze_moves(self, u):
        tgt, av = RA._c29_cfg
        if "ra-freeze-self-move-assertion" in av:
            for mv in list(self.NodeMoves(u)):
                if self.node(mv.used_registers[0]) is self.node(mv.defined_registers[0]):
                    raise Avoided("ra-freeze-self-move-assertion")
        return orig_freeze_moves(self, u)

    RA.alloc_frame = alloc_frame
    RA.rewrite_program = rewrite_program
    RA.freeze_moves = freeze_moves


def locate(api, m, arch, funcs, exc, out):
    """Bisect a failing function set down to single functions; out gets
    (function or list, exception)."""
    if len(funcs) == 1:
        out.append((funcs[0], exc))
        return
    half = len(funcs) // 2
    found = False
    for part in (funcs[:half], funcs[half:]):
        e = compile_subset(api, m, arch, part)
        if e is not None:
            found = True
            locate(api, m, arch, part, e, out)
    if not found:
        out.append((funcs, exc))


def setup():
    import logging
    import sys

    logging.disable(logging.CRITICAL)
    sys.setrecursionlimit(20000)


def function_text(f):
    import io
    from ppci.irutils import Writer

    s = io.StringIO()
    try:
        Writer(file=s).write_function(f)
    except Exception as e:  # noqa
        s.write("<cannot print: %r>" % (e,))
    return s.getvalue()


def run_shard(spec):
    setup()
    part = spec["part"]
    mon = Mon(spec)
    if part == "matrix":
        run_matrix(spec, mon, unrestricted=False)
    elif part == "unrestricted":
        run_matrix(spec, mon, unrestricted=True)
    elif part == "random":
        run_random(spec, mon)
    elif part == "one":
        run_one(spec, mon)
    return mon.result()


def prepared_batch(api, cm, irwf, verify_module, arch, ptr_size, cells, level, mon):
    mb = cm.ModuleBuilder(ptr_size)
    for c in cells:
        mb.add(c)
    m = mb.m
    try:
        verify_module(m)
        problems = irwf.check_module(m)
    except Exception as e:  # noqa
        problems = ["verify_module: %r" % (e,)]
    if problems:
        mon.inconclusive.append("matrix module ill-formed: %s" % (problems[:2],))
        return None, None
    try:
        api.optimize(m, level)
    except Exception as e:  # noqa  (C03's concern)
        mon.discard("optimize-raised:%s" % type(e).__name__, len(cells))
        return None, None
    return mb, m


def run_matrix(spec, mon, unrestricted):
    from ppci import api
    from ppci.irutils import verify_module
    from vlib import cgmatrix as cm, irwf

    target = spec["target"]
    install_allocator_switches(target, spec["avoid"])
    arch = api.get_arch(target)
    ptr_size = arch.info.get_size("ptr")
    types = cm.target_types(arch)
    cells = cm.matrix(types)
    deny = deny_for(target, spec["avoid"])
    if unrestricted:
        sel = cells[spec["sub"]::spec["nsub"]]
    else:
        sel = cells[spec.get("offset", 0)::spec.get("stride", 1)][spec["sub"]::spec["nsub"]]
    mon.bump(mon.obs["targets"], target, 0)
    for bi in range(0, len(sel), BATCH):
        batch = sel[bi:bi + BATCH]
        levels = ["0"] if unrestricted else levels_for(spec, bi // BATCH)
        for level in levels:
            mb, m = prepared_batch(api, cm, irwf, verify_module, arch, ptr_size, batch, level, mon)
            if m is None:
                continue
            feats = {f: cm.function_features(f) for f in m.functions}
            hit = {f: cm.avoided(feats[f], deny) for f in m.functions}
            if unrestricted:
                todo = [f for f in m.functions if hit[f]]
                for f in todo:
                    e = compile_subset(api, m, arch, [f])
                    mon.obs["unrestricted_cells"] += 1
                    cell = mb.names[f.name]
                    if e is None:
                        mon.bump(mon.obs["avoided_but_compiles"], "%s %s" % (target, hit[f]))
                        continue
                    if isinstance(e, Avoided):
                        mon.discard("avoided-at-trigger:%s" % e)
                        continue
                    mech, detail = cm.failure_mechanism(e)
                    key = explains(target, spec["avoid"], feats[f], mech)
                    if key:
                        mon.bump(mon.obs["known_mechanisms"], "%s %s %s" % (target, key, mech))
                    else:
                        mon.evals += 1
                        report(mon, spec, target, level, mech, detail, cell, f, "unrestricted sweep: ")
                continue
            keep = [f for f in m.functions if not hit[f]]
            mon.bump(mon.obs["avoided_functions"], target, len(m.functions) - len(keep))
            if not keep:
                continue
            mon.bump(mon.obs["targets"], target, len(keep))
            mon.bump(mon.obs["levels"], level, len(keep))
            mon.bump(mon.obs["cells_attempted"], target, len(keep))
            mon.evals += len(keep)
            mon.nontrivial += len(keep)
            for f in keep:
                c = mb.names[f.name]
                mon.bump(mon.obs["kinds"], c["k"])
                if c.get("what") in ("pressure", "respill"):
                    mon.obs["spill_or_pressure_functions"] += 1
            e = compile_subset(api, m, arch, keep)
            if e is None:
                mon.bump(mon.obs["cells_ok"], target, len(keep))
                if len(mon.samples) < 2:
                    mon.samples.append({"target": target, "level": level, "cell": mb.names[keep[0].name],
                                        "ir": function_text(keep[0])[:600], "outcome": "compiled"})
                continue
            failing = []
            locate(api, m, arch, keep, e, failing)
            nfail = 0
            for f, ex in failing:
                if isinstance(ex, Avoided):
                    nfail += 1
                    mon.evals -= 1
                    mon.nontrivial -= 1
                    mon.discard("avoided-at-trigger:%s" % ex)
                    continue
                mech, detail = cm.failure_mechanism(ex)
                if isinstance(f, list):
                    nfail += len(f)
                    report(mon, spec, target, level, "combination:" + mech, detail,
                           [mb.names[x.name] for x in f], f[0], "only fails in combination: ")
                else:
                    nfail += 1
                    report(mon, spec, target, level, mech, detail, mb.names[f.name], f, "")
            mon.bump(mon.obs["cells_ok"], target, max(0, len(keep) - nfail))


def report(mon, spec, target, level, mech, detail, cell, f, prefix):
    key = "%s/%s" % (target, mech)
    mon.violation(key, "%sir_to_object raised on %s -O%s: %s [%s] cell %s" % (prefix, target, level, mech, detail[:120], cell),
                  {"target": target, "level": level, "mechanism": mech, "detail": detail, "cell": cell,
                   "ir": function_text(f)[:3000],
                   "replay_spec": {"part": "one", "target": target, "level": level, "cell": cell,
                                   "tier": spec.get("tier"), "seed": spec.get("seed"), "avoid": []}})


def run_one(spec, mon):
    """Replay of a single matrix cell."""
    from ppci import api
    from ppci.irutils import verify_module
    from vlib import cgmatrix as cm, irwf

    target, level, cell = spec["target"], spec["level"], spec["cell"]
    install_allocator_switches(target, spec.get("avoid") or [])
    if not isinstance(cell, dict):
        mon.inconclusive.append("replay of a combination / random case: use the recorded ir")
        return
    arch = api.get_arch(target)
    mb, m = prepared_batch(api, cm, irwf, verify_module, arch, arch.info.get_size("ptr"), [cell], level, mon)
    if m is None:
        return
    mon.evals += 1
    e = compile_subset(api, m, arch, list(m.functions))
    if e is not None and not isinstance(e, Avoided):
        mech, detail = cm.failure_mechanism(e)
        report(mon, spec, target, level, mech, detail, cell, m.functions[0], "")


# --------------------------------------------------------------------------
# random modules


def random_cfg(r, target, types, ptr_size, deny):
    from vlib import cgmatrix as cm

    def usable(t):
        base = ["binop:+:%s", "binop:-:%s", "binop:&:%s", "binop:^:%s", "load:%s", "store:%s", "const:%s", "param:%s",
                "cjump:<:%s", "cjump:==:%s", "phi:%s", "callarg:%s", "returns:%s"]
        if t[0] == "f":
            base = [b for b in base if "&" not in b and "^" not in b]
        return cm.avoided({b % t for b in base}, deny) is None

    vals = [t for t in types if t != "ptr" and usable(t)]
    cfg = {"ptr_size": ptr_size, "types": vals, "float": any(t[0] == "f" for t in vals),
           "size": r.choice([8, 14, 24, 40]), "n_funcs": 3, "shape": "mem" if r.random() < 0.2 else "ssa",
           "rotates": cm.avoided({"binop:rol:i32", "binop:ror:i32"}, deny) is None and r.random() < 0.5,
           "undefined": r.random() < 0.3, "volatile": r.random() < 0.3, "casts": True}
    return cfg


def run_random(spec, mon):
    from ppci import api
    from ppci.irutils import verify_module
    from vlib import cgmatrix as cm, irwf, irgen

    target = spec["target"]
    install_allocator_switches(target, spec["avoid"])
    arch = api.get_arch(target)
    ptr_size = arch.info.get_size("ptr")
    types = cm.target_types(arch)
    deny = deny_for(target, spec["avoid"])
    native = "i32" if "i32" in types else "i16"
    mon.bump(mon.obs["targets"], target, 0)
    for idx in range(spec["start"], spec["start"] + spec["count"]):
        for level in levels_for(spec, idx):
            r = rng(spec["seed"], PROPERTY, "%s/%d" % (target, idx))
            cfg = random_cfg(r, target, types, ptr_size, deny)
            try:
                m, info = irgen.gen_module(r, cfg)
                mon.obs["neutralised_constructs"] += cm.neutralise(m, deny, native)
                pressure = r.choice([0, 6, 12, 24])
                if pressure:
                    cm.add_pressure(m, r, pressure, ptr_size)
                verify_module(m)
                problems = irwf.check_module(m)
            except Exception as e:  # noqa generator trouble is mine, not ppci's
                mon.discard("generator-error:%s" % type(e).__name__)
                continue
            if problems:
                mon.discard("generator-ill-formed")
                if len(mon.inconclusive) < 2:
                    mon.inconclusive.append("random module %s/%d ill-formed: %s" % (target, idx, problems[:2]))
                continue
            try:
                api.optimize(m, level)
            except Exception as e:  # noqa  (C03)
                mon.discard("optimize-raised:%s" % type(e).__name__)
                continue
            funcs = list(m.functions)
            feats = {f: cm.function_features(f) for f in funcs}
            keep = [f for f in funcs if cm.avoided(feats[f], deny) is None]
            mon.bump(mon.obs["avoided_functions"], target, len(funcs) - len(keep))
            if not keep:
                mon.discard("random-module-all-functions-avoided")
                continue
            mon.evals += len(keep)
            mon.nontrivial += len(keep)
            mon.bump(mon.obs["targets"], target, len(keep))
            mon.bump(mon.obs["levels"], level, len(keep))
            if pressure:
                mon.obs["spill_or_pressure_functions"] += len(keep)
            groups = [keep]
            if "tailcall-new-entry-block-name-collides" in spec["avoid"]:
                names = {}
                for f in keep:
                    for b in f.blocks:
                        names.setdefault(b.name, set()).add(f.name)
                if any(len(v) > 1 for v in names.values()):
                    # avoid switch: equally named blocks of two functions never meet in one ir_to_object call
                    groups = [[f] for f in keep]
                    mon.bump(mon.obs, "modules_split_for_duplicate_block_names")
            e = None
            for g in groups:
                e = compile_subset(api, m, arch, g)
                if e is not None:
                    keep = g
                    break
            if e is None:
                mon.obs["random_modules_compiled"] += 1
                mon.obs["random_functions_compiled"] += len(keep)
                if len(mon.samples) < 3 and len(mon.samples) < 1 + (idx % 2):
                    mon.samples.append({"target": target, "level": level, "random_index": idx, "cfg": cfg,
                                        "functions": len(keep), "tags": info["tags"][:12], "outcome": "compiled"})
                continue
            failing = []
            locate(api, m, arch, keep, e, failing)
            for f, ex in failing:
                if isinstance(ex, Avoided):
                    mon.evals -= 1
                    mon.nontrivial -= 1
                    mon.discard("avoided-at-trigger:%s" % ex)
                    continue
                mech, detail = cm.failure_mechanism(ex)
                f0 = f[0] if isinstance(f, list) else f
                key = "%s/%s" % (target, mech)
                mon.violation(key, "ir_to_object raised on %s -O%s: %s [%s] random module %d function %s" % (
                    target, level, mech, detail[:120], idx, f0.name),
                    {"target": target, "level": level, "mechanism": mech, "detail": detail, "random_index": idx,
                     "cfg": cfg, "function": f0.name, "features": sorted(feats[f0]), "ir": function_text(f0)[:6000],
                     "replay_spec": {"part": "random", "target": target, "start": idx, "count": 1,
                                     "levels": [level], "tier": spec.get("tier"), "seed": spec.get("seed"),
                                     "avoid": spec.get("avoid")}})


# --------------------------------------------------------------------------
# probes


def probe_cell(key):
    def probe():
        setup()
        from ppci import api
        from ppci.irutils import verify_module
        from vlib import cgmatrix as cm

        f = FINDINGS[key]
        out = []
        for target, cell in zip(f["wt"], f["wc"]):
            arch = api.get_arch(target)
            mb = cm.ModuleBuilder(arch.info.get_size("ptr"))
            mb.add(cell)
            verify_module(mb.m)
            e = compile_subset(api, mb.m, arch, list(mb.m.functions))
            if e is not None:
                mech, detail = cm.failure_mechanism(e)
                out.append("%s %s: %s" % (target, cm.cell_key(cell), mech))
        if out:
            return "ir_to_object still raises: " + "; ".join(out)[:400]
        return None
    return probe


def probe_freeze_self_move():
    """No IR-level recipe is known for this allocator state; the witness is
    the first vlib.irgen module (fixed seeds, 64 indices, x86_64, level 1) that trips the
    assertion -- searched afresh so that it survives changes of irgen."""
    setup()
    from ppci import api
    from vlib import cgmatrix as cm, irgen

    arch = api.get_arch("x86_64")
    types = cm.target_types(arch)
    deny = deny_for("x86_64", [k for k in FINDINGS if k != "ra-freeze-self-move-assertion"])
    install_allocator_switches("x86_64", [k for k in FINDINGS if k not in ("ra-freeze-self-move-assertion",)])
    for idx in range(0, 64):
        r = rng(0, PROPERTY, "x86_64/%d" % idx)
        cfg = random_cfg(r, "x86_64", types, 8, deny)
        try:
            m, info = irgen.gen_module(r, cfg)
            cm.neutralise(m, deny, "i32")
            pressure = r.choice([0, 6, 12, 24])
            if pressure:
                cm.add_pressure(m, r, pressure, 8)
            api.optimize(m, "1")
        except Exception:  # noqa
            continue
        funcs = [f for f in m.functions if cm.avoided(cm.function_features(f), deny) is None]
        for f in funcs:
            e = compile_subset(api, m, arch, [f])
            if e is not None and not isinstance(e, Avoided):
                mech, detail = cm.failure_mechanism(e)
                if mech.startswith("AssertionError:freeze_moves"):
                    return "ir_to_object still raises %s on x86_64 -O1, vlib.irgen module index %d function %s" % (mech, idx, f.name)
    return None


def probe_duplicate_block_names():
    setup()
    from ppci import api, ir
    from vlib import cgmatrix as cm

    # the real pass on two self tail recursive functions
    m = ir.Module("tc")
    for name in ("fa", "fb"):
        f = ir.Function(name, ir.Binding.GLOBAL, ir.i32)
        m.add_function(f)
        p = ir.Parameter("p", ir.i32)
        f.add_parameter(p)
        e, rec, done = ir.Block(name + "_entry"), ir.Block(name + "_rec"), ir.Block(name + "_done")
        for b in (e, rec, done):
            f.add_block(b)
        f.entry = e
        zero = ir.Const(0, name + "_zero", ir.i32)
        one = ir.Const(1, name + "_one", ir.i32)
        e.add_instruction(zero)
        e.add_instruction(one)
        e.add_instruction(ir.CJump(p, "<=", zero, done, rec))
        done.add_instruction(ir.Return(zero))
        d = ir.Binop(p, "-", one, name + "_dec", ir.i32)
        rec.add_instruction(d)
        c = ir.FunctionCall(f, [d], name + "_rc", ir.i32)
        rec.add_instruction(c)
        rec.add_instruction(ir.Return(c))
    api.optimize(m, "2")
    try:
        api.ir_to_object([m], api.get_arch("x86_64"))
    except Exception as e:  # noqa
        mech, detail = cm.failure_mechanism(e)
        return "two self tail recursive functions, optimize(2), ir_to_object x86_64 still raises %s (blocks %s)" % (
            mech, sorted(b.name for f in m.functions for b in f.blocks if "new_entry" in b.name))
    return None


PROBES = {}


def _register():
    for key in FINDINGS:
        PROBES[key] = probe_cell(key)
    PROBES["ra-freeze-self-move-assertion"] = probe_freeze_self_move
    PROBES["tailcall-new-entry-block-name-collides"] = probe_duplicate_block_names


_register()


if __name__ == "__main__":  # calibration helper:  python -m checks.c29 <target> <level> [stride] [noavoid]
    import collections
    import sys

    setup()
    from ppci import api
    from ppci.irutils import verify_module
    from vlib import cgmatrix as cm, irwf

    target, level = sys.argv[1], sys.argv[2]
    stride = int(sys.argv[3]) if len(sys.argv) > 3 else 1
    avoid = [] if "noavoid" in sys.argv else sorted(FINDINGS)
    deny = deny_for(target, avoid)
    arch = api.get_arch(target)
    cells = cm.matrix(cm.target_types(arch))[::stride]
    mon = Mon({})
    table = collections.defaultdict(list)
    passes = collections.Counter()
    known = collections.Counter()
    nav = 0
    for bi in range(0, len(cells), BATCH):
        mb, m = prepared_batch(api, cm, irwf, verify_module, arch, arch.info.get_size("ptr"), cells[bi:bi + BATCH], level, mon)
        if m is None:
            continue
        funcs = list(m.functions)
        feats = {f: cm.function_features(f) for f in funcs}
        e = compile_subset(api, m, arch, funcs)
        failing = []
        if e is not None:
            locate(api, m, arch, funcs, e, failing)
        bad = {}
        for f, ex in failing:
            mech, detail = cm.failure_mechanism(ex)
            if isinstance(f, list):
                table["combination:" + mech].append(("group", set(), detail))
                continue
            bad[f] = 1
            key = explains(target, avoid, feats[f], mech)
            if key:
                known[key + " " + mech] += 1
            else:
                table[mech].append((cm.cell_key(mb.names[f.name]), feats[f], detail))
        for f in funcs:
            hit = cm.avoided(feats[f], deny)
            if hit:
                nav += 1
                if f not in bad:
                    passes[hit] += 1
    print(target, level, "cells", len(cells), "avoided", nav, mon.disc, mon.inconclusive)
    print("explained:", dict(known))
    print("avoided but compiles:", dict(passes))
    for mech in sorted(table):
        rows = table[mech]
        common = set.intersection(*[r[1] for r in rows]) if rows else set()
        print("%4d %s   common=%s" % (len(rows), mech, sorted(x for x in common if not x.startswith(("param:", "returns", "alloc")))[:8]))
        for r in rows[:3]:
            print("        ", r[0], "|", r[2][:140])
