"""C21 WebAssembly modules round-trip through binary and text forms (DESIGN 4, C21).

Per generated module description D (vlib.wasmgen) with reference bytes
b = wasmgen.encode(D) (independent canonical encoder, source (i) of the design):

  writer   to_components(D).to_bytes() == b
  reader   Module(b).to_bytes() == b, and Module(b) is definition-wise equal to the components
  text     Module(m.to_string()) is definition-wise equal to m and writes the same bytes
  wat      Module(independent WAT text of D, with the spec's abbreviations).to_bytes()
           == encode(D with inline exports placed as the spec says)
  V8       WebAssembly.validate accepts every byte string ppci wrote; the exports called in
           V8 on the binary-from-text return what they return on b (host log, globals, memory too)

plus two smaller workloads: ``ir_to_wasm`` output of generated C functions
(source (iii): ppci's own bytes, fixpoint + text + V8) and ``clang --target=wasm32 -c``
objects (source (ii): read -> write -> V8 validates; padded LEBs, so no byte identity).

Narrowed (DESIGN "L"): there is no reference text assembler in the sandbox; the
clause "behaves like the reference assembler's binary" is checked against the
harness' own printer/encoder pair and V8.  irgen/cgen are not used: the C
workload is a small generator local to this file.  An exception of ppci on any
of these inputs is a violation (DESIGN 3.1).  Custom sections are not part of
equivalence (text cannot express them): they are stripped before the text clauses.
The thorough tier runs 16000 modules (DESIGN: 30 k) to stay inside 30 minutes.
"""
import os

from vlib.core import rng, h

PROPERTY = "C21"
RULE = ("wasmgen modules (3/4 structural profile: imported globals/memory/table, odd names, NaN payload consts, "
        "custom section; 1/4 execution profile), each encoded by the harness' own canonical encoder and printed by "
        "its own WAT printer in a random style (symbolic ids, folded instructions, inline exports, hex literals, "
        "comments); plus ir_to_wasm output of generated C functions and clang wasm32 objects. non-trivial = module "
        "with >= 1 function body of >= 5 instructions; distinct by hash of the reference bytes")
ASSUMPTIONS = ["V8 (node v20) implements WebAssembly validation and execution per the spec",
               "vlib.wasmgen.encode emits canonical binaries (cross-checked: V8 must validate every reference binary, "
               "else the run is inconclusive)",
               "vlib.wasmgen.to_wat emits valid WebAssembly text (hand-checked against the spec grammar; no reference "
               "assembler exists in the sandbox)",
               "clang 14 emits valid wasm32 objects"]
MANIFEST_ENTRY = {
    "text": "Binary reader/writer and text writer/parser of ppci.wasm agree with an independent encoder and an "
            "independent text printer on generated modules, and V8 accepts and equally executes what ppci writes.",
    "note": "Feature set narrowed to what ppci supports (MVP + sign extension + saturating truncation + "
            "memory.copy/fill). No reference text assembler available: text clause is checked against the harness' "
            "printer. Open findings switch off: NaN constants with sign/payload, f32 signalling NaN constants, "
            "bulk-memory instructions in text, names needing escapes, named parameters under an explicit type use, "
            "data segments in clang objects (datacount).",
    "technique": "runtime monitoring: byte identity against an independent encoder + V8 validation/execution over "
                 "generated wasm modules",
}
SHARD_TIMEOUT = {"quick": 900, "thorough": 4 * 3600}


def EXHAUSTIVE(tier):
    return False


def plan(tier, seed, avoid):
    total = 800 if tier == "quick" else 16000
    nshards = 20 if tier == "quick" else 60
    per = total // nshards
    specs = [{"part": "gen", "start": i * per, "n": per} for i in range(nshards)]
    specs.append({"part": "cfront", "n": 30 if tier == "quick" else 400})
    specs.append({"part": "clang", "n": 30 if tier == "quick" else 400})
    return specs


def floors(tier):
    return {"evaluations": 2500 if tier == "quick" else 50000,
            "distinct_nontrivial": 500 if tier == "quick" else 10000,
            "observed.clause.writer": 600, "observed.clause.reader": 600, "observed.clause.text": 600,
            "observed.clause.wat": 600, "observed.clause.v8_validate": 600, "observed.v8_calls.value": 1000,
            "observed.source.independent_encoder": 600, "observed.source.ppci_own_bytes": 15,
            "observed.source.clang_object": 15,
            "observed.opcodes": 150, "observed.defs.import": 1, "observed.defs.elem": 1, "observed.defs.data": 1,
            "observed.defs.start": 1, "observed.wat_style.fold": 50, "observed.wat_style.names": 50}


# ---------------------------------------------------------------------------
# normal form of a ppci module (definition-wise comparison)

def _norm_arg(opcode, a):
    from ppci.wasm.components import Ref
    from vlib import wasmgen as g

    if isinstance(a, Ref):
        return ("ref", a.space, a.index)
    if isinstance(a, float):
        return ("f", g.f32_bits(a) if opcode.startswith("f32") else g.f64_bits(a))
    if isinstance(a, (list, tuple)):
        return [_norm_arg(opcode, x) for x in a]
    if isinstance(a, bytes):
        return a.hex()
    return a


def _norm_instr(i):
    if i.opcode in ("block", "loop", "if"):
        # ir_to_wasm builds these as plain Instruction objects, the parsers as BlockInstruction: same meaning
        return [i.opcode, "block-type", _norm_arg(i.opcode, i.args[-1])]
    return [i.opcode] + [_norm_arg(i.opcode, a) for a in i.args]


def norm_module(m):
    out = []
    for d in m:
        k = d.__name__
        if k == "custom":
            continue
        if k == "type":
            out.append([k, [p[1] for p in d.params], list(d.results)])
        elif k == "import":
            out.append([k, d.modname, d.name, d.kind, [_norm_arg("", x) for x in d.info]])
        elif k == "table":
            out.append([k, d.kind, d.min, d.max])
        elif k == "memory":
            out.append([k, d.min, d.max])
        elif k == "global":
            out.append([k, d.typ, bool(d.mutable), [_norm_instr(i) for i in d.init]])
        elif k == "export":
            out.append([k, d.name, d.kind, d.ref.index])
        elif k == "start":
            out.append([k, d.ref.index])
        elif k == "elem":
            ref, off = d.mode
            out.append([k, ref.index, [_norm_instr(i) for i in off], [r.index for r in d.refs]])
        elif k == "func":
            out.append([k, d.ref.index, [t for _, t in d.locals], [_norm_instr(i) for i in d.instructions]])
        elif k == "data":
            ref, off = d.mode
            out.append([k, ref.index, [_norm_instr(i) for i in off], d.data.hex()])
        else:
            out.append([k])
    return out


def first_diff(a, b):
    if len(a) != len(b):
        return "definition count %d vs %d" % (len(a), len(b))
    for i, (x, y) in enumerate(zip(a, b)):
        if x != y:
            if x[0] == "func" and y[0] == "func" and x[1:3] == y[1:3]:
                for j, (p, q) in enumerate(zip(x[3], y[3])):
                    if p != q:
                        return "definition %d (func) instruction %d: %r vs %r" % (i, j, p, q)
                return "definition %d (func): %d vs %d instructions" % (i, len(x[3]), len(y[3]))
            return "definition %d: %s vs %s" % (i, str(x)[:150], str(y)[:150])
    return None


def bytes_diff(a, b):
    n = min(len(a), len(b))
    k = 0
    while k < n and a[k] == b[k]:
        k += 1
    return "lengths %d/%d, first difference at offset %d: ...%s | ...%s" % (
        len(a), len(b), k, a[max(0, k - 6):k + 10].hex(), b[max(0, k - 6):k + 10].hex())


# ---------------------------------------------------------------------------

class Shard:
    def __init__(self, spec):
        self.spec = spec
        self.evals = 0
        self.hashes = []
        self.obs = {"clause": {}, "source": {}, "opcodes": {}, "defs": {}, "wat_style": {}, "variants": {},
                    "v8_instantiate": {}, "v8_calls": {}, "features": {}}
        self.disc = {}
        self.viol = []
        self.samples = []
        self.inconclusive = []
        self.v8jobs = []
        self.v8expect = []     # (job id of reference, job id of candidate, case info)

    def count(self, group, key, n=1):
        d = self.obs[group]
        d[key] = d.get(key, 0) + n

    def violation(self, summary, case):
        if len(self.viol) < 8:
            self.viol.append({"summary": summary, "case": case})

    def result(self):
        return {"evaluations": self.evals, "nontrivial_hashes": self.hashes, "observed": self.obs,
                "discarded": self.disc, "samples": self.samples[:2], "violations": self.viol,
                "inconclusive": self.inconclusive}


def walk_desc(sh, desc):
    from vlib import wasmgen as g

    for k in ("imports", "globals", "elems", "datas", "exports", "funcs", "types", "custom"):
        if desc.get(k):
            sh.count("defs", {"imports": "import", "globals": "global", "elems": "elem", "datas": "data",
                              "exports": "export", "funcs": "func", "types": "type", "custom": "custom"}[k], len(desc[k]))
    for k in ("table", "memory"):
        if desc[k]:
            sh.count("defs", k)
            sh.count("variants", "limits.%s" % ("max" if desc[k]["max"] is not None else "nomax"))
    if desc["start"] is not None:
        sh.count("defs", "start")
    for im in desc["imports"]:
        sh.count("variants", "import." + im["kind"])
    big = 0
    for f in desc["funcs"]:
        big = max(big, len(f["body"]))
        runs = sum(1 for i, t in enumerate(f["locals"]) if i == 0 or f["locals"][i - 1] != t)
        sh.count("variants", "locals.runs.%s" % ("0" if not runs else "1" if runs == 1 else "many"))
        for ins in f["body"]:
            op = ins[0]
            sh.count("opcodes", op)
            if op in ("block", "loop", "if"):
                sh.count("variants", "blocktype.%s" % (ins[1] or "empty"))
            elif op in ("i32.const", "i64.const"):
                sh.count("variants", "sleb.bytes.%d" % len(g.sleb(ins[1])))
            elif op in g.LOADS or op in g.STORES:
                natural = {1: 0, 2: 1, 4: 2, 8: 3}[g.mem_width(op)]
                sh.count("variants", "memarg.%s" % ("natural" if ins[1] == natural else "underaligned"))
                if ins[2] > 127:
                    sh.count("variants", "memarg.offset.multibyte")
            elif op == "br_table":
                sh.count("variants", "br_table.len.%s" % ("0" if not ins[1] else "n"))
    return big >= 5


def v8_job(sh, jid, desc, wasm_bytes, calls):
    gl = []
    gtypes = [im["typ"] for im in desc["imports"] if im["kind"] == "global"] + [x["typ"] for x in desc["globals"]]
    for e in desc["exports"]:
        if e["kind"] == "global":
            gl.append({"name": e["name"], "typ": gtypes[e["index"]]})
    mem = None
    for e in desc["exports"]:
        if e["kind"] == "memory":
            mem = e["name"]
    sh.v8jobs.append({"id": jid, "wasm": wasm_bytes, "imports": desc["imports"], "mode": "run", "calls": calls,
                      "globals": gl, "memory": mem})


def guarded(sh, case, clause, fn):
    """Run one ppci step; an exception is a violation of C21 (a result is promised)."""
    try:
        return True, fn()
    except Exception as e:  # noqa
        import traceback

        tb = traceback.format_exc()
        sh.violation("%s: ppci raised %s: %s" % (clause, type(e).__name__, str(e)[:160]),
                     dict(case, clause=clause, traceback=tb[-1500:]))
        return False, None


def run_gen(sh, spec):
    from ppci import wasm
    from vlib import wasmgen as g

    avoid = set(spec["avoid"])
    for idx in range(spec["start"], spec["start"] + spec["n"]):
        r = rng(spec["seed"], PROPERTY, idx)
        structural = idx % 4 != 0
        dials = g.Dials(exec_profile=not structural, nan_payload=structural, odd_names=structural, custom=structural)
        desc, feats = g.gen_module(r, dials, avoid)
        style = g.WatStyle(r)
        if "wat-typeuse-param-names-lost" in avoid:
            style.named_params = False
        calls = g.gen_calls(r, desc, 2)
        ref = g.encode(desc)
        nocustom = dict(desc, custom=[])
        ref_nc = g.encode(nocustom)
        case = {"index": idx, "seed": spec["seed"], "desc": desc, "reference_bytes": ref.hex(),
                "wat_style": dict(vars(style))}
        nontrivial = walk_desc(sh, desc)
        if nontrivial:
            sh.hashes.append(h(ref))
        sh.count("source", "independent_encoder")
        for k, v in feats.items():
            if not k.startswith(("op.", "const.", "defs.")):
                sh.count("features", k, v)
        for k in ("names", "fold", "inline_export", "hexints", "comments", "typeuse_sig", "named_params"):
            if getattr(style, k):
                sh.count("wat_style", k)
        jid = "ref-%d" % idx
        v8_job(sh, jid, desc, ref, calls)
        failed = False

        # writer
        ok, m_c = guarded(sh, case, "writer(components)", lambda: g.to_components(desc))
        if not ok:
            continue
        ok, b_c = guarded(sh, case, "writer(to_bytes)", lambda: m_c.to_bytes())
        if not ok:
            continue
        sh.evals += 1
        sh.count("clause", "writer")
        if b_c != ref:
            sh.violation("writer: components.to_bytes() differs from the independent encoding: " + bytes_diff(ref, b_c),
                         dict(case, ppci_bytes=b_c.hex()))
            failed = True
        # reader
        ok, m_b = guarded(sh, case, "reader(Module(bytes))", lambda: wasm.Module(ref))
        if ok:
            ok, b_b = guarded(sh, case, "reader(to_bytes)", lambda: m_b.to_bytes())
        if ok:
            sh.evals += 1
            sh.count("clause", "reader")
            if b_b != ref:
                sh.violation("reader: Module(b).to_bytes() != b for canonical b: " + bytes_diff(ref, b_b),
                             dict(case, ppci_bytes=b_b.hex()))
                failed = True
            else:
                d = first_diff(norm_module(m_c), norm_module(m_b))
                if d:
                    sh.violation("reader: Module(b) differs from the components it was encoded from: " + d, case)
                    failed = True
        # text
        ok, m_nc = guarded(sh, case, "text(components)", lambda: g.to_components(nocustom))
        if ok:
            ok, s = guarded(sh, case, "text(to_string)", lambda: m_nc.to_string())
        if ok:
            case_t = dict(case, ppci_text=s)
            ok, m_t = guarded(sh, case_t, "text(Module(to_string()))", lambda: wasm.Module(s))
            if ok:
                ok, b_t = guarded(sh, case_t, "text(to_bytes)", lambda: m_t.to_bytes())
            if ok:
                sh.evals += 1
                sh.count("clause", "text")
                d = first_diff(norm_module(m_nc), norm_module(m_t))
                if d:
                    sh.violation("text: Module(m.to_string()) not equivalent to m: " + d, case_t)
                    failed = True
                elif b_t != ref_nc:
                    sh.violation("text: bytes of Module(m.to_string()) differ: " + bytes_diff(ref_nc, b_t),
                                 dict(case_t, ppci_bytes=b_t.hex()))
                    failed = True
                if b_t != ref_nc:
                    v8_job(sh, "txt-%d" % idx, desc, b_t, calls)
                    sh.v8expect.append((jid, "txt-%d" % idx, case_t))
                else:
                    sh.v8expect.append((jid, jid, None))
        # independent text with abbreviations
        wat = g.to_wat(nocustom, style)
        want = g.encode(g.inline_exports_reorder(nocustom, style))
        case_w = dict(case, wat=wat, expected_bytes=want.hex())
        ok, m_w = guarded(sh, case_w, "wat(Module(text))", lambda: wasm.Module(wat))
        if ok:
            ok, b_w = guarded(sh, case_w, "wat(to_bytes)", lambda: m_w.to_bytes())
        if ok:
            sh.evals += 1
            sh.count("clause", "wat")
            if b_w != want:
                sh.violation("wat: binary of the text module differs from the reference assembler's: " +
                             bytes_diff(want, b_w), dict(case_w, ppci_bytes=b_w.hex()))
                failed = True
                v8_job(sh, "wat-%d" % idx, desc, b_w, calls)
                sh.v8expect.append((jid, "wat-%d" % idx, case_w))
            else:
                sh.v8expect.append((jid, jid, None))
        if not failed and len(sh.samples) < 2 and nontrivial and len(ref) < 400:
            sh.samples.append({"index": idx, "reference_bytes": ref.hex(), "wat": wat[:1500]})


# ---------------------------------------------------------------------------
# C-derived modules (ir_to_wasm) and clang objects

def gen_c(r, nfuncs, with_global=False):
    """Small terminating C functions over int/long long (no division, shifts by constants)."""
    lines = []
    names = []
    if with_global:
        lines.append("int gdata[3] = {%d, %d, %d};" % (r.randint(-9, 9), r.randint(0, 99), r.randint(0, 9)))

    def expr(vars_, d):
        if d <= 0 or r.random() < 0.3:
            return r.choice(vars_ + [str(r.randint(-100, 100))])
        k = r.random()
        if k < 0.7:
            return "(%s %s %s)" % (expr(vars_, d - 1), r.choice(["+", "-", "*", "^", "&", "|"]), expr(vars_, d - 1))
        if k < 0.8:
            return "(%s << %d)" % (expr(vars_, d - 1), r.randint(0, 7))
        if k < 0.9 and names:
            return "%s(%s, %s)" % (r.choice(names), expr(vars_, d - 1), expr(vars_, d - 1))
        return "(%s %s %s ? %s : %s)" % (expr(vars_, d - 1), r.choice(["<", ">", "==", "!="]), expr(vars_, d - 1),
                                         expr(vars_, d - 1), expr(vars_, d - 1))

    for k in range(nfuncs):
        name = "fn%d" % k
        body = ["int s = %s;" % expr(["a", "b"], 2), "int i;"]
        for _ in range(r.randint(1, 3)):
            kind = r.random()
            if kind < 0.4:
                body.append("for (i = 0; i < (b & %d); i++) { s = %s; }" % (r.choice([3, 7]), expr(["a", "b", "s", "i"], 2)))
            elif kind < 0.8:
                body.append("if (%s %s %s) { s = %s; } else { s = %s; }" % (
                    expr(["a", "b", "s"], 1), r.choice(["<", ">=", "!="]), expr(["a", "b", "s"], 1),
                    expr(["a", "b", "s"], 2), expr(["a", "b", "s"], 2)))
            else:
                body.append("while (s > 1000) { s = s - %d; if (s < %d) break; }" % (r.randint(500, 900), r.randint(0, 5000)))
        if with_global and r.random() < 0.7:
            body.append("s = s + gdata[b & 1];")
        lines.append("int %s(int a, int b) { %s return s; }" % (name, " ".join(body)))
        names.append(name)
    return "\n".join(lines) + "\n", names


def run_cfront(sh, spec):
    import io
    from ppci import api, wasm

    for idx in range(spec["n"]):
        r = rng(spec["seed"], PROPERTY, "c%d" % idx)
        src, names = gen_c(r, r.randint(1, 3))
        case = {"index": "c%d" % idx, "c_source": src}
        ok, m = guarded(sh, case, "ir_to_wasm", lambda: wasm.ir_to_wasm(api.c_to_ir(io.StringIO(src), "arm")))
        if not ok:
            # C -> IR -> wasm failing is C23/C01 territory, not a round-trip event
            sh.viol.pop()
            sh.disc["c_pipeline_failed"] = sh.disc.get("c_pipeline_failed", 0) + 1
            continue
        ok, b = guarded(sh, case, "cfront(to_bytes)", lambda: m.to_bytes())
        if not ok:
            continue
        case["ppci_bytes"] = b.hex()
        sh.count("source", "ppci_own_bytes")
        sh.hashes.append(h(b))
        for d in m:
            if d.__name__ == "func":
                for i in d.instructions:
                    sh.count("opcodes", i.opcode)
        calls = []
        for name in names:
            for _ in range(3):
                calls.append({"f": name, "args": [["i32", str(r.randint(-50, 50))], ["i32", str(r.randint(-9, 9))]],
                              "ret": "i32"})
        desc = {"imports": [], "globals": [], "exports": []}
        v8_job(sh, "c-%d" % idx, desc, b, calls)
        ok, m2 = guarded(sh, case, "cfront(Module(bytes))", lambda: wasm.Module(b))
        if ok:
            ok, b2 = guarded(sh, case, "cfront(reader.to_bytes)", lambda: m2.to_bytes())
        if ok:
            sh.evals += 1
            sh.count("clause", "reader")
            if b2 != b:
                sh.violation("reader: Module(b).to_bytes() != b for ir_to_wasm output: " + bytes_diff(b, b2), case)
        ok, s = guarded(sh, case, "cfront(to_string)", lambda: m.to_string())
        if ok:
            case_t = dict(case, ppci_text=s)
            ok, m_t = guarded(sh, case_t, "cfront(Module(text))", lambda: wasm.Module(s))
            if ok:
                ok, b_t = guarded(sh, case_t, "cfront(text.to_bytes)", lambda: m_t.to_bytes())
            if ok:
                sh.evals += 1
                sh.count("clause", "text")
                d = first_diff(norm_module(m), norm_module(m_t))
                if d:
                    sh.violation("text: Module(m.to_string()) not equivalent to m (ir_to_wasm output): " + d, case_t)
                if b_t != b:
                    if not d:
                        sh.violation("text: bytes differ after text round trip (ir_to_wasm output): " + bytes_diff(b, b_t), case_t)
                    v8_job(sh, "ctxt-%d" % idx, desc, b_t, calls)
                    sh.v8expect.append(("c-%d" % idx, "ctxt-%d" % idx, case_t))
                else:
                    sh.v8expect.append(("c-%d" % idx, "c-%d" % idx, None))


def run_clang(sh, spec):
    import subprocess
    from ppci import wasm

    tmp = os.environ["VERIF_TMP"]
    avoid = set(spec["avoid"])
    for idx in range(spec["n"]):
        r = rng(spec["seed"], PROPERTY, "o%d" % idx)
        with_global = "datacount-section-written-after-data" not in avoid and r.random() < 0.4
        src, names = gen_c(r, r.randint(1, 3), with_global)
        cpath = os.path.join(tmp, "o%d.c" % idx)
        opath = os.path.join(tmp, "o%d.o" % idx)
        with open(cpath, "w") as f:
            f.write(src)
        try:
            p = subprocess.run(["clang-14", "--target=wasm32", "-O%s" % r.choice("012"), "-c", cpath, "-o", opath],
                               capture_output=True, timeout=60)
        except (OSError, subprocess.TimeoutExpired) as e:
            sh.inconclusive.append("clang not usable: %r" % (e,))
            return
        if p.returncode != 0:
            sh.disc["clang_failed"] = sh.disc.get("clang_failed", 0) + 1
            continue
        with open(opath, "rb") as f:
            b = f.read()
        os.unlink(cpath)
        os.unlink(opath)
        case = {"index": "o%d" % idx, "c_source": src, "object_bytes": b.hex()}
        sh.count("source", "clang_object")
        sh.hashes.append(h(b))
        ok, m = guarded(sh, case, "clang(Module(bytes))", lambda: wasm.Module(b))
        if not ok:
            continue
        for d in m:
            sh.count("defs", "clang." + d.__name__)
        ok, b2 = guarded(sh, case, "clang(to_bytes)", lambda: m.to_bytes())
        if not ok:
            continue
        sh.evals += 1
        sh.count("clause", "reader")
        imports = [{"module": "env", "name": "__linear_memory", "kind": "memory", "min": 1, "max": None},
                   {"module": "env", "name": "__indirect_function_table", "kind": "table", "min": 1, "max": None},
                   {"module": "env", "name": "__stack_pointer", "kind": "global", "typ": "i32", "mut": True}]
        sh.v8jobs.append({"id": "obj-%d" % idx, "wasm": b, "imports": imports, "mode": "validate"})
        sh.v8jobs.append({"id": "objw-%d" % idx, "wasm": b2, "imports": imports, "mode": "validate"})
        sh.v8expect.append(("obj-%d" % idx, "objw-%d" % idx, dict(case, ppci_bytes=b2.hex())))
        # second read: the rewritten (compact) bytes are a fixpoint
        ok, b3 = guarded(sh, case, "clang(reread)", lambda: wasm.Module(b2).to_bytes())
        if ok and b3 != b2:
            sh.violation("reader/writer: rewritten clang object is not a fixpoint: " + bytes_diff(b2, b3), case)


def judge_v8(sh):
    from vlib import v8run

    if not sh.v8jobs:
        return
    res = {}
    try:
        for k in range(0, len(sh.v8jobs), 120):
            part, versions = v8run.run_v8(sh.v8jobs[k:k + 120], os.environ["VERIF_TMP"])
            res.update(part)
    except v8run.V8Error as e:
        sh.inconclusive.append("V8 oracle failed: %s" % e)
        return
    seen = set()
    for ref_id, cand_id, case in sh.v8expect:
        ref = res[ref_id]
        first = ref_id not in seen
        seen.add(ref_id)
        if not ref["valid"]:
            if first:
                if ref_id.startswith(("ref-", "obj-")):
                    sh.inconclusive.append("reference bytes %s rejected by V8: %s" % (ref_id, ref.get("verr")))
                else:
                    sh.evals += 1
                    sh.count("clause", "v8_validate")
                    sh.violation("V8 rejects ppci's binary (%s): %s" % (ref_id, ref.get("verr")), case or {"id": ref_id})
            continue
        if first:
            # the reference bytes are also what ppci wrote whenever the byte clauses held
            sh.evals += 1
            sh.count("clause", "v8_validate")
            sh.count("v8_instantiate", str(ref.get("inst", "validated-only")))
            for c in ref.get("calls", []):
                sh.count("v8_calls", c if c.startswith("trap") else "value")
        if cand_id == ref_id:
            sh.count("clause", "v8_behaviour_implied_by_byte_identity")
            continue
        cand = res[cand_id]
        sh.evals += 1
        sh.count("clause", "v8_validate")
        if not cand["valid"]:
            sh.violation("V8 rejects ppci's binary of a valid module: %s" % cand.get("verr"), case)
            continue
        if "calls" in ref or "inst" in ref:
            sh.evals += 1
            sh.count("clause", "v8_behaviour")
            for key in ("inst", "calls", "globals", "mem", "log"):
                if ref.get(key) != cand.get(key):
                    sh.violation("V8 runs ppci's binary differently from the reference binary (%s): %s vs %s" % (
                        key, str(ref.get(key))[:120], str(cand.get(key))[:120]), case)
                    break


def run_shard(spec):
    sh = Shard(spec)
    if spec["part"] == "gen":
        run_gen(sh, spec)
    elif spec["part"] == "cfront":
        run_cfront(sh, spec)
    else:
        run_clang(sh, spec)
    judge_v8(sh)
    return sh.result()


# ---------------------------------------------------------------------------
# known-finding probes

def _mod_with_body(body, types=None, memory=True, exports=None):
    return {"types": types or [[[], []]], "imports": [], "funcs": [{"type": 0, "locals": [], "body": body}],
            "table": None, "memory": {"min": 1, "max": None} if memory else None, "globals": [],
            "exports": exports or [{"name": "f", "kind": "func", "index": 0}], "start": None, "elems": [],
            "datas": [], "custom": []}


def probe_snan():
    from ppci import wasm
    from vlib import wasmgen as g

    b = g.encode(_mod_with_body([["f32.const", 0x7FA00000], ["drop"]], memory=False))
    b2 = wasm.Module(b).to_bytes()
    return None if b2 == b else "Module(b).to_bytes() turns f32.const bits 7fa00000 into %s" % (
        b2[b2.index(b"\x43") + 1:][:4][::-1].hex())


def probe_nan_text():
    from ppci import wasm
    from vlib import wasmgen as g

    desc = _mod_with_body([["f64.const", 0xFFF8000000000001], ["drop"]], memory=False)
    m = g.to_components(desc)
    b = m.to_bytes()
    b2 = wasm.Module(m.to_string()).to_bytes()
    if b2 != b:
        return "f64.const -nan:0x8000000000001 prints as %r and re-parses to other bits" % (
            [ln.strip() for ln in m.to_string().splitlines() if "f64.const" in ln][0])
    b3 = wasm.Module("(module (func (f64.const -nan:0x8000000000001) (drop)))").to_bytes()
    return None if b3[-12:] == b[-12:] else "text 'f64.const -nan:0x8000000000001' assembles to canonical nan"


def probe_bulk_text():
    from ppci import wasm
    from vlib import wasmgen as g

    desc = _mod_with_body([["i32.const", 0], ["i32.const", 1], ["i32.const", 2], ["memory.fill"]])
    m = g.to_components(desc)
    try:
        b2 = wasm.Module(m.to_string()).to_bytes()
    except Exception as e:  # noqa
        return "Module(m.to_string()) raises %s for a module with memory.fill (writer prints 'memory.fill 0')" % type(e).__name__
    return None if b2 == m.to_bytes() else "memory.fill text round trip changes bytes"


def probe_names():
    from ppci import wasm
    from vlib import wasmgen as g

    desc = _mod_with_body([], memory=False, exports=[{"name": 'a"b', "kind": "func", "index": 0}])
    m = g.to_components(desc)
    try:
        m2 = wasm.Module(m.to_string())
        got = [d.name for d in m2 if d.__name__ == "export"]
    except Exception as e:  # noqa
        return "export name a\"b: Module(m.to_string()) raises %s (name written unescaped)" % type(e).__name__
    if got != ['a"b']:
        return "export name round trips as %r" % got
    m3 = wasm.Module('(module (func) (export "x\\5cy" (func 0)))')
    got = [d.name for d in m3 if d.__name__ == "export"]
    return None if got == ["x\\y"] else "text name \"x\\5cy\" parsed as %r (escape not decoded)" % got


def probe_param_names():
    from ppci import wasm

    try:
        wasm.Module("(module (type $t (func (param i32) (result i32))) "
                    "(func (type $t) (param $x i32) (result i32) local.get $x))").to_bytes()
    except Exception as e:  # noqa
        return "(func (type $t) (param $x i32) ... local.get $x) raises %s: %s" % (type(e).__name__, str(e)[:80])
    return None


def probe_datacount():
    from ppci import wasm
    from ppci.wasm import components as C

    I = C.Instruction
    m = wasm.Module(C.Type(0, [], []), C.Memory(0, 1, None), C.DataCount(1),
                    C.Func(0, C.Ref("type", index=0), [], [I("nop")]),
                    C.Data(0, (C.Ref("memory", index=0), [I("i32.const", 0)]), b"x"))
    b = m.to_bytes()
    ids = []
    p = 8
    while p < len(b):
        ids.append(b[p])
        n = sh = 0
        p += 1
        while True:
            c = b[p]
            p += 1
            n |= (c & 0x7F) << sh
            sh += 7
            if not c & 0x80:
                break
        p += n
    return None if ids.index(12) < ids.index(10) else "section order written: %s (datacount 12 must precede code 10)" % ids


def probe_table_min0():
    from ppci import wasm
    from ppci.wasm import components as C

    m = wasm.Module(C.Table(0, "funcref", 0, None))
    try:
        b2 = wasm.Module(m.to_string()).to_bytes()
    except Exception as e:  # noqa
        return "(table 0 funcref) prints as %r, Module(text) raises %s" % (m.to_string().split("\n")[1].strip(), type(e).__name__)
    return None if b2 == m.to_bytes() else "table with min 0 and no max changes in the text round trip"


PROBES = {
    "text-table-min0-nomax-unparsable": probe_table_min0,
    "f32-signalling-nan-const-quieted": probe_snan,
    "nan-const-sign-payload-lost-in-text": probe_nan_text,
    "text-bulk-memory-immediate-unparsable": probe_bulk_text,
    "text-names-not-escaped": probe_names,
    "wat-typeuse-param-names-lost": probe_param_names,
    "datacount-section-written-after-data": probe_datacount,
}
