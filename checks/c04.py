"""C04 x86-64 native code reproduces C program behaviour (DESIGN C04).

Each vlib.cgen program (UB-free, filtered by gcc+UBSan) gets a run_all()
that calls entry() on three argument vectors.  It is built by ppci for every
chosen optimisation level on both link paths (A: ppci assembler, compiler,
linker and ELF writer only; B: ppci relocatable ELF linked with a
gcc-compiled driver by gcc) and executed natively.  stdout and exit status
must equal those of the gcc-built executable.  A ppci build that raises or a
ppci executable that dies by signal / hangs is a refuting event.
"""
import os

from vlib.core import rng, h

PROPERTY = "C04"
RULE = ("vlib.cgen programs x optimisation levels (quick: two of 0,1,2,s per program; thorough: all four) x link paths "
        "A (ppci crt0+BSP+linker+ELF) and B (ppci relocatable ELF + gcc driver); native execution; stdout and exit "
        "status compared with the gcc -O0 executable of the same source; evaluations = executed ppci builds compared; "
        "non-trivial = program whose gcc run printed >= 5 report lines, distinct by (source hash, level, path)")
ASSUMPTIONS = ["gcc 12 -O0 implements C99 for UB-free programs", "the host CPU and kernel execute x86-64 ELF correctly",
               "the support code of path A (crt0 + decimal printing BSP) is itself compiled by ppci at -O0"]
MANIFEST_ENTRY = {
    "text": "Differential native execution of ppci-generated x86-64 code against gcc on generated UB-free programs, "
            "all optimisation levels, both link paths.",
    "note": "C subset of vlib.cgen (integers, pointers, arrays, structs, control flow, calls); report(long) is the only "
            "interface between ppci and gcc code on path B (ppci's variadic convention is private).",
    "technique": "runtime monitoring: gcc executable as oracle for natively executed ppci x86-64 code",
}
LEVELS = ["0", "1", "2", "s"]


def plan(tier, seed, avoid):
    n, per = (128, 4) if tier == "quick" else (1600, 25)
    return [{"start": s, "count": per} for s in range(0, n, per)]


def floors(tier):
    return {"evaluations": 250, "distinct_nontrivial": 120, "observed.path.A": 80, "observed.path.B": 80}


def run_shard(spec):
    from ppci.common import CompilerError
    from vlib import cgen, native

    workdir = os.environ["VERIF_TMP"]
    evals = 0
    nontrivial = set()
    viol = []
    disc = {}
    obs = {"path": {}, "level": {}, "tags": {}, "programs": 0, "ppci_diagnostics": {}}
    samples = []
    for idx in range(spec["start"], spec["start"] + spec["count"]):
        r = rng(spec["seed"], PROPERTY, idx)
        cfg = {"avoid": spec["avoid"], "size": r.choice([12, 20, 26, 34])}
        src, info = cgen.gen_program(r, cfg)
        argvecs = cgen.gen_args(r, 3)
        full = native.with_run_all(src, argvecs)
        case = {"id": "cgen/%s/%d" % (spec["seed"], idx), "index": idx}
        st, want_out, want_rc = native.gcc_reference(full, workdir, idx)
        if st != "ok":
            disc[want_out] = disc.get(want_out, 0) + 1
            continue
        obs["programs"] += 1
        levels = LEVELS if spec["tier"] == "thorough" else r.sample(LEVELS, 2)
        for t in info["tags"]:
            obs["tags"][t] = obs["tags"].get(t, 0) + 1
        stop = False
        for lvl in levels:
            for path in ("A", "B"):
                tag = "%d_%s%s" % (idx, lvl, path)
                try:
                    exe = (native.build_path_a if path == "A" else native.build_path_b)(full, lvl, workdir, tag)
                except CompilerError as e:
                    msg = str(getattr(e, "msg", e))[:70]
                    obs["ppci_diagnostics"][msg] = obs["ppci_diagnostics"].get(msg, 0) + 1
                    # a diagnostic at code generation time for a program the front-end accepted is judged:
                    viol.append({"summary": "ppci build -O%s path %s failed with diagnostic: %s" % (lvl, path, msg),
                                 "case": dict(case, level=lvl, path=path, source=full),
                                 "replay_spec": dict(spec, start=idx, count=1)})
                    stop = True
                    break
                except Exception as e:
                    import traceback
                    viol.append({"summary": "ppci build -O%s path %s raised %s: %s" % (lvl, path, type(e).__name__, str(e)[:120]),
                                 "case": dict(case, level=lvl, path=path, source=full, traceback=traceback.format_exc()[-1500:]),
                                 "replay_spec": dict(spec, start=idx, count=1)})
                    stop = True
                    break
                kind, out, rc = native.run_exe(exe)
                try:
                    os.unlink(exe)
                except OSError:
                    pass
                evals += 1
                obs["path"][path] = obs["path"].get(path, 0) + 1
                obs["level"][lvl] = obs["level"].get(lvl, 0) + 1
                if want_out.count("\n") >= 5:
                    nontrivial.add(h([src, lvl, path]))
                diff = None
                if kind != "ok":
                    diff = "ppci executable ended by %s (%s); gcc's exits %d" % (kind, rc, want_rc)
                elif out != want_out:
                    a, b = out.split("\n"), want_out.split("\n")
                    n = next((i for i, (x, y) in enumerate(zip(a, b)) if x != y), min(len(a), len(b)))
                    diff = "output line %d: ppci %r, gcc %r" % (n, a[n] if n < len(a) else None, b[n] if n < len(b) else None)
                elif rc != want_rc:
                    diff = "exit status %d, gcc's %d" % (rc, want_rc)
                if diff:
                    if len(viol) < 10:
                        viol.append({"summary": "-O%s path %s: %s" % (lvl, path, diff),
                                     "case": dict(case, level=lvl, path=path, source=full, gcc_output=want_out[:1500], ppci_output=out[:1500]),
                                     "replay_spec": dict(spec, start=idx, count=1)})
                    stop = True
                    break
            if stop:
                break
        if len(samples) < 1 and not stop and idx % 5 == 0:
            samples.append({"case": case["id"], "levels": levels, "output": want_out[:400], "source": full[:2500]})
    return {"evaluations": evals, "nontrivial_hashes": sorted(nontrivial), "observed": obs, "discarded": disc,
            "violations": viol, "samples": samples}


def probe_phi_copies():
    from vlib import native
    workdir = os.environ.get("VERIF_TMP") or "."
    src = ("void report(long);\nlong run_all(void) {\n  unsigned char i = 2;\n  do { } while (i-- > 1);\n"
           "  report(i);\n  long j = 0; long k = 5;\n  do { j = j + k; } while (k-- > 1);\n  report(j); report(k);\n  return 0;\n}\n")
    for lvl in ("1", "2", "s"):
        try:
            exe = native.build_path_a(src, lvl, workdir, "probe" + lvl)
        except Exception as e:
            return "build at -O%s raised %s: %s" % (lvl, type(e).__name__, str(e)[:100])
        kind, out, rc = native.run_exe(exe)
        os.unlink(exe)
        if kind != "ok" or out.split() != ["0", "15", "0"]:
            return "-O%s prints %r (%s), a conforming compiler prints 0 15 0" % (lvl, out.split(), kind)
    return None


def probe_imm32():
    from vlib import native
    workdir = os.environ.get("VERIF_TMP") or "."
    src = ("void report(long);\nunsigned long g = 5;\nlong run_all(void) {\n  unsigned long x = g;\n"
           "  report((long)(x + 0x90000000ul)); report((long)(x | 0x80000000ul)); report((long)(x & 0xfffffffful));\n  return 0;\n}\n")
    for lvl in ("0", "2"):
        try:
            exe = native.build_path_a(src, lvl, workdir, "probei" + lvl)
        except Exception as e:
            return "build at -O%s raised %s: %s" % (lvl, type(e).__name__, str(e)[:100])
        kind, out, rc = native.run_exe(exe)
        os.unlink(exe)
        if kind != "ok" or out.split() != ["2415919109", "2147483653", "5"]:
            return "-O%s prints %r (%s), a conforming compiler prints 2415919109 2147483653 5" % (lvl, out.split(), kind)
    return None


PROBES = {"codegen-phi-copies-before-conditional-jump": probe_phi_copies,
          "x86-unsigned-imm32-sign-extended": probe_imm32}
