"""C17 ELF output is read back faithfully by independent ELF tools (DESIGN 4, C17).

Every ELF file written by ``ppci.format.elf.write_elf`` in a shard (relocatable
and executable; x86_64, arm, riscv, xtensa, microblaze) is read by four
independent readers:

* my own struct-based ELF parser (``parse_elf``, ~150 lines, from the gABI),
* GNU ``readelf -hSlsr -W``,
* ``llvm-readelf-14 -hSlsr -W``,
* GNU ``objdump -s`` (section contents).

What is compared with the ObjectFile that was written:
e_type, e_machine, class, byte order, e_entry (= address of the entry symbol);
per object section: name, sh_addr, sh_size, sh_addralign, bytes (own parser and
objdump); symbols as a multiset of (name, value, size, binding, type, section
name) with locals before globals and .symtab sh_info = index of the first
global, sh_link -> string table; RELA sections per section with (offset, type
number = arch.get_reloc_type, symbol name, addend) in object order, sh_info ->
patched section, sh_link -> .symtab; for executables one PT_LOAD per image,
the bytes found at every virtual address of an image through the program
headers == image.data, p_offset = p_vaddr (mod p_align), p_filesz <= p_memsz.
The three header/table readers must agree with each other field by field, and
any warning or error a tool prints is a refuting event.  x86_64 executables of
a tiny exit(value) program (code and data in two segments, absolute relocation
between them) are additionally started through the kernel; the exit status
must be the value stored in the data segment.

Workload: vlib.objgen object sets ("elf" names, zero-size sections, odd symbol
types) and the compiled corpus of C14, written as relocatable files and linked
with generated layouts (several images, DEFINESYMBOL/SECTIONDATA sections,
unplaced sections) as executables.

Narrowed: the compiled workload is C14's fixed corpus, not cgen; "process
output equals C04's expectation" is replaced by the exit-status program above
(C04 owns running compiled programs).
"""
import io
import os
import re
import struct
import subprocess

from vlib.core import rng, h

PROPERTY = "C17"
RULE = ("objgen object sets and a fixed compiled corpus on x86_64/arm/riscv/xtensa/microblaze written as relocatable "
        "ELF (one file per object) and, linked with a generated layout of 1-3 memories, as executable ELF; plus "
        "x86_64 exit(value) executables run by the kernel; non-trivial = file with >= 1 non-empty section and "
        ">= 1 symbol; distinct by hash of the file bytes")
ASSUMPTIONS = ["GNU readelf/objdump 2.40 and llvm-readelf-14 read ELF correctly and print what they read",
               "my ELF parser follows the gABI layouts (it is cross-checked against both tools on every file)",
               "the Linux kernel's ELF loader for the exec test"]
MANIFEST_ENTRY = {
    "text": "Every relocatable and executable ELF file written in the run is accepted without diagnostics by GNU "
            "readelf, llvm-readelf, objdump and an own ELF parser, which all see the object's sections, symbols, "
            "RELA entries, entry point and machine, and whose PT_LOAD segments reproduce each memory image byte for "
            "byte; x86_64 executables run under the kernel with the expected exit status.",
    "note": "Known findings switch off: microblaze (big-endian headers are written little-endian), image bases that "
            "are not page aligned, absolute symbols, x86_64 relocation types without ELF number (absaddr32/16, jmp8), relocations on "
            "the four non-x86 targets (no ELF numbering exists). Compiled workload is a fixed corpus.",
    "technique": "runtime monitoring: 4 independent ELF readers (+ kernel exec) over objgen and compiler output",
}

F_BE = "elf-big-endian-headers-written-little-endian"
F_CONGR = "elf-segment-offset-not-congruent-to-vaddr"
F_ABS = "elf-absolute-symbol-keyerror"
F_X86REL = "elf-x86-64-relocation-types-without-number"
F_NOREL = "elf-relocations-only-for-x86-64"
F_JMP8 = "elf-x86-64-jmp8-without-number"

ARCHES = ["x86_64", "arm", "riscv", "xtensa", "microblaze"]
MACHINE = {"x86_64": 62, "arm": 40, "riscv": 243, "xtensa": 94, "microblaze": 189}
BITS = {"x86_64": 64}
BIG = {"microblaze"}
TOOL_MACHINE = {  # what the tools print for these e_machine values
    "x86_64": ("Advanced Micro Devices X86-64",), "arm": ("ARM",), "riscv": ("RISC-V",),
    "xtensa": ("Tensilica Xtensa Processor",),
    "microblaze": ("Xilinx MicroBlaze", "Xilinx MicroBlaze 32-bit RISC soft processor core"),
}
X86_MAPPED = ("rel32", "abs64", "abs32", "absaddr64")
SYMTYPE = {"func": 2, "object": 1}


def EXHAUSTIVE(tier):
    return False


def plan(tier, seed, avoid):
    n = 14 if tier == "quick" else 800
    specs = [{"part": "objgen", "shard": i, "n": n} for i in range(20 if tier == "quick" else 32)]
    specs += [{"part": "compiled", "arch": a} for a in ARCHES]
    specs += [{"part": "exec", "n": 24 if tier == "quick" else 600}]
    return specs


def floors(tier):
    k = 1 if tier == "quick" else 12
    return {"evaluations": 500 * k, "distinct_nontrivial": 300 * k,
            "observed.files.x86_64.rel": 40 * k, "observed.files.x86_64.exec": 40 * k,
            "observed.files.arm.rel": 20 * k, "observed.files.arm.exec": 15 * k,
            "observed.files.riscv.rel": 20 * k, "observed.files.xtensa.exec": 15 * k,
            "observed.compared.sections": 1500 * k, "observed.compared.symbols": 3000 * k,
            "observed.compared.relocations": 50 * k, "observed.compared.load_bytes": 5000 * k,
            "observed.compared.segments": 150 * k, "observed.reader_ok.readelf": 400 * k,
            "observed.reader_ok.llvm-readelf": 400 * k, "observed.reader_ok.objdump": 400 * k,
            "observed.exec_runs": 15, "observed.origin.compiled": 20}


# --------------------------------------------------------------------------
# own ELF reader (gABI)


class ElfError(Exception):
    pass


def parse_elf(data):
    """Parse an ELF file into plain dicts. Raises ElfError on malformed structure."""
    if data[:4] != b"\x7fELF":
        raise ElfError("bad magic")
    cls, enc, ver = data[4], data[5], data[6]
    if cls not in (1, 2) or enc not in (1, 2) or ver != 1:
        raise ElfError("bad e_ident class=%d data=%d version=%d" % (cls, enc, ver))
    bits = 32 if cls == 1 else 64
    e = "<" if enc == 1 else ">"

    def unpack(fmt, off):
        size = struct.calcsize(e + fmt)
        if off < 0 or off + size > len(data):
            raise ElfError("structure at %#x (+%d) extends past the end of the file (%d bytes)" % (off, size, len(data)))
        return struct.unpack_from(e + fmt, data, off)

    if bits == 32:
        (e_type, e_machine, e_version, e_entry, e_phoff, e_shoff, e_flags, e_ehsize, e_phentsize, e_phnum,
         e_shentsize, e_shnum, e_shstrndx) = unpack("HHIIIIIHHHHHH", 16)
        want_eh, want_ph, want_sh, want_sym, want_rela = 52, 32, 40, 16, 12
    else:
        (e_type, e_machine, e_version, e_entry, e_phoff, e_shoff, e_flags, e_ehsize, e_phentsize, e_phnum,
         e_shentsize, e_shnum, e_shstrndx) = unpack("HHIQQQIHHHHHH", 16)
        want_eh, want_ph, want_sh, want_sym, want_rela = 64, 56, 64, 24, 24
    out = {"bits": bits, "big": enc == 2, "e_type": e_type, "e_machine": e_machine, "e_version": e_version,
           "e_entry": e_entry, "e_flags": e_flags, "e_phnum": e_phnum, "e_shnum": e_shnum,
           "e_shstrndx": e_shstrndx, "e_ehsize": e_ehsize, "e_phoff": e_phoff, "e_shoff": e_shoff}
    if e_version != 1:
        raise ElfError("e_version %d" % e_version)
    if e_ehsize != want_eh:
        raise ElfError("e_ehsize %d, the ELF%d header has %d bytes" % (e_ehsize, bits, want_eh))
    if e_phnum and e_phentsize != want_ph:
        raise ElfError("e_phentsize %d != %d" % (e_phentsize, want_ph))
    if e_shnum and e_shentsize != want_sh:
        raise ElfError("e_shentsize %d != %d" % (e_shentsize, want_sh))
    phdrs = []
    for i in range(e_phnum):
        off = e_phoff + i * e_phentsize
        if bits == 32:
            p_type, p_offset, p_vaddr, p_paddr, p_filesz, p_memsz, p_flags, p_align = unpack("IIIIIIII", off)
        else:
            p_type, p_flags, p_offset, p_vaddr, p_paddr, p_filesz, p_memsz, p_align = unpack("IIQQQQQQ", off)
        if p_offset + p_filesz > len(data):
            raise ElfError("segment %d [%#x,+%#x) extends past the end of the file" % (i, p_offset, p_filesz))
        phdrs.append({"type": p_type, "offset": p_offset, "vaddr": p_vaddr, "paddr": p_paddr, "filesz": p_filesz,
                      "memsz": p_memsz, "flags": p_flags, "align": p_align})
    shdrs = []
    for i in range(e_shnum):
        off = e_shoff + i * e_shentsize
        if bits == 32:
            f = unpack("IIIIIIIIII", off)
        else:
            f = unpack("IIQQQQIIQQ", off)
        sh = dict(zip(("name_off", "type", "flags", "addr", "offset", "size", "link", "info", "addralign",
                       "entsize"), f))
        if sh["type"] not in (0, 8) and sh["offset"] + sh["size"] > len(data):
            raise ElfError("section %d [%#x,+%#x) extends past the end of the file" % (i, sh["offset"], sh["size"]))
        shdrs.append(sh)
    if e_shnum:
        if shdrs[0]["type"] != 0 or any(shdrs[0][k] for k in ("name_off", "flags", "addr", "offset", "size")):
            raise ElfError("section header 0 is not the null section")
        if not (0 < e_shstrndx < e_shnum) or shdrs[e_shstrndx]["type"] != 3:
            raise ElfError("e_shstrndx %d is not a string table" % e_shstrndx)

    def strz(tab, off):
        if off >= len(tab):
            raise ElfError("string offset %d outside string table of %d bytes" % (off, len(tab)))
        end = tab.find(b"\0", off)
        if end < 0:
            raise ElfError("unterminated string at %d" % off)
        return tab[off:end].decode("utf-8", "replace")

    def body(sh):
        return data[sh["offset"]:sh["offset"] + sh["size"]] if sh["type"] != 8 else b""

    if e_shnum:
        shstr = body(shdrs[e_shstrndx])
        for sh in shdrs:
            sh["name"] = strz(shstr, sh["name_off"])
            sh["data"] = body(sh)
    out["phdrs"] = phdrs
    out["sections"] = shdrs
    out["symbols"] = []
    out["relas"] = {}
    symtab_index = None
    for i, sh in enumerate(shdrs):
        if sh["type"] == 2:
            if symtab_index is not None:
                raise ElfError("two SHT_SYMTAB sections")
            symtab_index = i
            if sh["entsize"] != want_sym or sh["size"] % want_sym:
                raise ElfError(".symtab entsize %d size %d" % (sh["entsize"], sh["size"]))
            if not (0 < sh["link"] < e_shnum) or shdrs[sh["link"]]["type"] != 3:
                raise ElfError(".symtab sh_link %d is not a string table" % sh["link"])
            strtab = shdrs[sh["link"]]["data"]
            for k in range(sh["size"] // want_sym):
                off = sh["offset"] + k * want_sym
                if bits == 32:
                    st_name, st_value, st_size, st_info, st_other, st_shndx = unpack("IIIBBH", off)
                else:
                    st_name, st_info, st_other, st_shndx, st_value, st_size = unpack("IBBHQQ", off)
                if 0 < st_shndx < 0xFF00 and st_shndx >= e_shnum:
                    raise ElfError("symbol %d: st_shndx %d >= e_shnum %d" % (k, st_shndx, e_shnum))
                out["symbols"].append({"name": strz(strtab, st_name), "value": st_value, "size": st_size,
                                       "bind": st_info >> 4, "type": st_info & 15, "other": st_other,
                                       "shndx": st_shndx})
            if out["symbols"] and any(out["symbols"][0][k] for k in ("value", "size", "bind", "type", "shndx")):
                raise ElfError("symbol 0 is not the null symbol")
            out["symtab_info"] = sh["info"]
    for i, sh in enumerate(shdrs):
        if sh["type"] == 4:
            if sh["entsize"] != want_rela or sh["size"] % want_rela:
                raise ElfError("%s entsize %d size %d" % (sh["name"], sh["entsize"], sh["size"]))
            if sh["link"] != symtab_index:
                raise ElfError("%s sh_link %d is not the symbol table (%r)" % (sh["name"], sh["link"], symtab_index))
            if not (0 < sh["info"] < e_shnum):
                raise ElfError("%s sh_info %d is not a section" % (sh["name"], sh["info"]))
            ents = []
            for k in range(sh["size"] // want_rela):
                off = sh["offset"] + k * want_rela
                if bits == 32:
                    r_offset, r_info, r_addend = unpack("IIi", off)
                    sym, typ = r_info >> 8, r_info & 0xFF
                else:
                    r_offset, r_info, r_addend = unpack("QQq", off)
                    sym, typ = r_info >> 32, r_info & 0xFFFFFFFF
                if sym >= len(out["symbols"]):
                    raise ElfError("%s entry %d: symbol index %d >= %d" % (sh["name"], k, sym, len(out["symbols"])))
                ents.append({"offset": r_offset, "info": r_info, "sym": sym, "type": typ, "addend": r_addend})
            out["relas"][sh["name"]] = {"target": sh["info"], "entries": ents}
    return out


# --------------------------------------------------------------------------
# text readers


def run_tool(argv, files, cwd):
    p = subprocess.run(argv + files, cwd=cwd, capture_output=True, timeout=600)
    return p.returncode, p.stdout.decode("utf-8", "replace"), p.stderr.decode("utf-8", "replace")


def split_files(text, files):
    """readelf/objdump print 'File: name' resp. 'name:     file format' before each file."""
    out = {}
    if len(files) == 1 and "File: " not in text:
        return {files[0]: text}
    cur = None
    for line in text.splitlines():
        m = re.match(r"File: (\S+)$", line)
        if m:
            cur = m.group(1)
            out[cur] = []
            continue
        if cur is not None:
            out[cur].append(line)
    return {k: "\n".join(v) for k, v in out.items()}


def parse_readelf(text):
    """GNU-style readelf -hSlsr -W output -> dict (same shape as the parts of parse_elf that are compared)."""
    v = {"header": {}, "sections": [], "symbols": [], "relas": {}, "phdrs": []}
    for m in re.finditer(r"^\s+([A-Za-z/' ]+?):\s+(.*?)\s*$", text, re.M):
        v["header"].setdefault(m.group(1).strip(), m.group(2))
    sec_re = re.compile(r"^\s*\[\s*(\d+)\]\s(.{17})\s*(\S+)\s+([0-9a-f]+)\s+([0-9a-f]+)\s+([0-9a-f]+)\s+([0-9a-f]+)\s+"
                        r"([A-Za-z]*)\s+(\d+)\s+(\d+)\s+(\d+)\s*$")
    sec_re0 = re.compile(r"^\s*\[\s*0\]\s+NULL\s")
    sym_re = re.compile(r"^\s*(\d+):\s+([0-9a-f]+)\s+(\S+)\s+(\S+)\s+(\S+)\s+(\S+)\s+(\S+)(?:\s(.*))?$")
    rel_head = re.compile(r"^Relocation section '(.*)' at offset 0x[0-9a-f]+ contains (\d+) entr")
    rel_re = re.compile(r"^([0-9a-f]+)\s+([0-9a-f]+)\s+(\S+)\s+([0-9a-f]+)\s+(.*?) ([+-]) ([0-9a-f]+)\s*$")
    ph_re = re.compile(r"^\s+(\S+)\s+0x([0-9a-f]+)\s+0x([0-9a-f]+)\s+0x([0-9a-f]+)\s+0x([0-9a-f]+)\s+0x([0-9a-f]+)\s+"
                       r"([RWE ]{3})\s+(?:0x)?([0-9a-f]+)\s*$")
    mode = None
    cur = None
    for line in text.splitlines():
        if line.startswith("Section Headers:"):
            mode = "sec"
            continue
        if line.startswith("Program Headers:"):
            mode = "ph"
            continue
        if line.startswith("Symbol table '"):
            mode = "sym"
            continue
        if line.startswith("Key to Flags") or line.startswith(" Section to Segment"):
            mode = None
            continue
        m = rel_head.match(line)
        if m:
            mode = "rel"
            cur = v["relas"].setdefault(m.group(1), {"count": int(m.group(2)), "entries": []})
            continue
        if mode == "sec":
            if sec_re0.match(line):
                v["sections"].append({"idx": 0, "name": "", "type": "NULL", "addr": 0, "offset": 0, "size": 0,
                                      "entsize": 0, "flags": "", "link": 0, "info": 0, "addralign": 0})
                continue
            m = sec_re.match(line)
            if m:
                g = m.groups()
                v["sections"].append({"idx": int(g[0]), "name": g[1].strip(), "type": g[2], "addr": int(g[3], 16),
                                      "offset": int(g[4], 16), "size": int(g[5], 16), "entsize": int(g[6], 16),
                                      "flags": g[7], "link": int(g[8]), "info": int(g[9]), "addralign": int(g[10])})
            elif line.strip().startswith("["):
                if not line.strip().startswith("[Nr]"):
                    v.setdefault("unparsed", []).append(line)
        elif mode == "sym":
            m = sym_re.match(line)
            if m:
                g = m.groups()
                size = int(g[2], 16) if g[2].startswith("0x") else int(g[2])
                v["symbols"].append({"num": int(g[0]), "value": int(g[1], 16), "size": size, "type": g[3],
                                     "bind": g[4], "vis": g[5], "ndx": g[6], "name": (g[7] or "").strip()})
            elif line.strip() and not line.strip().startswith("Num:"):
                v.setdefault("unparsed", []).append(line)
        elif mode == "rel":
            m = rel_re.match(line)
            if m:
                g = m.groups()
                add = int(g[6], 16) * (-1 if g[5] == "-" else 1)
                cur["entries"].append({"offset": int(g[0], 16), "info": int(g[1], 16), "typename": g[2],
                                       "symvalue": int(g[3], 16), "symname": g[4].strip(), "addend": add})
            elif line.strip() and not line.strip().startswith("Offset"):
                v.setdefault("unparsed", []).append(line)
        elif mode == "ph":
            m = ph_re.match(line)
            if m:
                g = m.groups()
                v["phdrs"].append({"type": g[0], "offset": int(g[1], 16), "vaddr": int(g[2], 16),
                                   "paddr": int(g[3], 16), "filesz": int(g[4], 16), "memsz": int(g[5], 16),
                                   "flags": g[6], "align": int(g[7], 16)})
    return v


def parse_objdump_s(text):
    """objdump -s -> {section name: {address: byte}}."""
    secs = {}
    cur = None
    for line in text.splitlines():
        m = re.match(r"^Contents of section (.*):$", line)
        if m:
            cur = secs.setdefault(m.group(1), {})
            continue
        m = re.match(r"^ ([0-9a-f]+) ((?:[0-9a-f]+ ?){1,4})", line)
        if m and cur is not None:
            addr = int(m.group(1), 16)
            hx = m.group(2).replace(" ", "")
            for i in range(0, len(hx), 2):
                cur[addr + i // 2] = int(hx[i:i + 2], 16)
    return secs


SHT = {0: "NULL", 1: "PROGBITS", 2: "SYMTAB", 3: "STRTAB", 4: "RELA"}
STT = {0: "NOTYPE", 1: "OBJECT", 2: "FUNC", 3: "SECTION", 4: "FILE"}
STB = {0: "LOCAL", 1: "GLOBAL", 2: "WEAK"}
PT = {0: "NULL", 1: "LOAD", 2: "DYNAMIC"}


def compare_reader(tool, view, mine, arch):
    """A text reader's view against my parser's view of the same file. Returns a difference or None."""
    if view.get("unparsed"):
        return "%s printed a line my reader cannot parse: %r" % (tool, view["unparsed"][0][:100])
    hd = view["header"]
    want_type = {1: "REL (Relocatable file)", 2: "EXEC (Executable file)"}.get(mine["e_type"])
    if hd.get("Type") != want_type:
        return "%s Type %r, header has e_type %d" % (tool, hd.get("Type"), mine["e_type"])
    if hd.get("Class") != "ELF%d" % mine["bits"]:
        return "%s Class %r" % (tool, hd.get("Class"))
    if ("big endian" in hd.get("Data", "")) != mine["big"]:
        return "%s Data %r" % (tool, hd.get("Data"))
    if hd.get("Machine") not in TOOL_MACHINE[arch]:
        return "%s Machine %r for %s (e_machine %d)" % (tool, hd.get("Machine"), arch, mine["e_machine"])
    try:
        if int(hd.get("Entry point address", "x"), 16) != mine["e_entry"]:
            return "%s entry %s vs %#x" % (tool, hd.get("Entry point address"), mine["e_entry"])
        if int(hd.get("Number of section headers", "x")) != mine["e_shnum"]:
            return "%s e_shnum %s vs %d" % (tool, hd.get("Number of section headers"), mine["e_shnum"])
        if int(hd.get("Number of program headers", "x")) != mine["e_phnum"]:
            return "%s e_phnum %s vs %d" % (tool, hd.get("Number of program headers"), mine["e_phnum"])
        if int(hd.get("Section header string table index", "x")) != mine["e_shstrndx"]:
            return "%s e_shstrndx differs" % tool
    except ValueError:
        return "%s header fields not numeric: %r" % (tool, {k: hd.get(k) for k in ("Entry point address",)})
    if len(view["sections"]) != len(mine["sections"]):
        return "%s lists %d sections, file has %d" % (tool, len(view["sections"]), len(mine["sections"]))
    for a, b in zip(view["sections"], mine["sections"]):
        tb = SHT.get(b["type"], "?")
        for k, x, y in (("name", a["name"], b["name"]), ("type", a["type"], tb), ("addr", a["addr"], b["addr"]),
                        ("offset", a["offset"], b["offset"]), ("size", a["size"], b["size"]),
                        ("entsize", a["entsize"], b["entsize"]), ("link", a["link"], b["link"]),
                        ("info", a["info"], b["info"]), ("addralign", a["addralign"], b["addralign"])):
            if x != y:
                return "%s section [%d] %s: %r vs %r" % (tool, a["idx"], k, x, y)
        fl = "".join(c for c, bit in (("W", 1), ("A", 2), ("X", 4), ("I", 0x40)) if b["flags"] & bit)
        if sorted(a["flags"]) != sorted(fl):
            return "%s section [%d] flags %r vs %#x" % (tool, a["idx"], a["flags"], b["flags"])
    if len(view["symbols"]) != len(mine["symbols"]):
        return "%s lists %d symbols, file has %d" % (tool, len(view["symbols"]), len(mine["symbols"]))
    for a, b in zip(view["symbols"], mine["symbols"]):
        ndx = {0: "UND", 0xFFF1: "ABS", 0xFFF2: "COM"}.get(b["shndx"], str(b["shndx"]))
        for k, x, y in (("name", a["name"], b["name"]), ("value", a["value"], b["value"]),
                        ("size", a["size"], b["size"]), ("type", a["type"], STT.get(b["type"], "?")),
                        ("bind", a["bind"], STB.get(b["bind"], "?")), ("ndx", a["ndx"], ndx)):
            if x != y:
                return "%s symbol %d %s: %r vs %r" % (tool, a["num"], k, x, y)
    if sorted(view["relas"]) != sorted(mine["relas"]):
        return "%s relocation sections %s vs %s" % (tool, sorted(view["relas"]), sorted(mine["relas"]))
    for name, rs in view["relas"].items():
        ents = mine["relas"][name]["entries"]
        if rs["count"] != len(ents) or len(rs["entries"]) != len(ents):
            return "%s %s: %d/%d entries vs %d" % (tool, name, rs["count"], len(rs["entries"]), len(ents))
        for a, b in zip(rs["entries"], ents):
            sym = mine["symbols"][b["sym"]]
            for k, x, y in (("offset", a["offset"], b["offset"]), ("info", a["info"], b["info"]),
                            ("addend", a["addend"], b["addend"]), ("symbol", a["symname"], sym["name"]),
                            ("symbol value", a["symvalue"], sym["value"])):
                if x != y:
                    return "%s %s entry at %#x %s: %r vs %r" % (tool, name, b["offset"], k, x, y)
    if len(view["phdrs"]) != len(mine["phdrs"]):
        return "%s lists %d program headers, file has %d" % (tool, len(view["phdrs"]), len(mine["phdrs"]))
    for a, b in zip(view["phdrs"], mine["phdrs"]):
        fl = "".join(c if b["flags"] & bit else " " for c, bit in (("R", 4), ("W", 2), ("E", 1)))
        for k, x, y in (("type", a["type"], PT.get(b["type"], "?")), ("offset", a["offset"], b["offset"]),
                        ("vaddr", a["vaddr"], b["vaddr"]), ("paddr", a["paddr"], b["paddr"]),
                        ("filesz", a["filesz"], b["filesz"]), ("memsz", a["memsz"], b["memsz"]),
                        ("align", a["align"], b["align"]), ("flags", a["flags"], fl)):
            if x != y:
                return "%s program header %s: %r vs %r" % (tool, k, x, y)
    return None


# --------------------------------------------------------------------------
# expected content from the ObjectFile


def compare_object(obj, mine, arch, etype, counts):
    """My parser's view of the file against the ObjectFile that was written."""
    from ppci.api import get_arch

    if mine["e_type"] != {"relocatable": 1, "executable": 2}[etype]:
        return "e_type %d for a %s file" % (mine["e_type"], etype)
    if mine["e_machine"] != MACHINE[arch]:
        return "e_machine %d, %s is %d" % (mine["e_machine"], arch, MACHINE[arch])
    if mine["bits"] != BITS.get(arch, 32) or mine["big"] != (arch in BIG):
        return "class/data ELF%d %s for %s" % (mine["bits"], "big" if mine["big"] else "little", arch)
    want_entry = 0
    if etype == "executable" and obj.entry_symbol_id is not None:
        want_entry = obj.get_symbol_id_value(obj.entry_symbol_id)
    if mine["e_entry"] != want_entry:
        return "e_entry %#x, entry symbol is at %#x" % (mine["e_entry"], want_entry)
    by_name = {}
    for i, sh in enumerate(mine["sections"]):
        if sh["type"] == 1:
            if sh["name"] in by_name:
                return "two PROGBITS sections named %r" % sh["name"]
            by_name[sh["name"]] = (i, sh)
    if sorted(by_name) != sorted(s.name for s in obj.sections):
        return "PROGBITS sections %s, object has %s" % (sorted(by_name), sorted(s.name for s in obj.sections))
    for s in obj.sections:
        i, sh = by_name[s.name]
        if sh["addr"] != s.address or sh["size"] != s.size or sh["addralign"] != s.alignment:
            return "section %r: addr/size/align %#x/%d/%d in the file, %#x/%d/%d in the object" % (
                s.name, sh["addr"], sh["size"], sh["addralign"], s.address, s.size, s.alignment)
        if sh["data"] != bytes(s.data):
            return "section %r: bytes in the file differ from the object (first at %d)" % (
                s.name, first_diff(sh["data"], bytes(s.data)))
        if s.alignment > 1 and s.size and sh["offset"] % s.alignment != sh["addr"] % s.alignment and False:
            return "section %r offset alignment" % s.name
        counts["sections"] = counts.get("sections", 0) + 1
    # symbols
    syms = mine["symbols"][1:]
    first_global = mine.get("symtab_info")
    if first_global is None:
        return "no .symtab"
    for k, sy in enumerate(syms, 1):
        if (sy["bind"] != 0) != (k >= first_global):
            return ".symtab sh_info %d but symbol %d (%r) has binding %d: locals must precede globals and sh_info " \
                   "must index the first global" % (first_global, k, sy["name"], sy["bind"])
    if first_global > len(syms) + 1:
        return ".symtab sh_info %d beyond the table (%d)" % (first_global, len(syms) + 1)
    secname = {i: sh["name"] for i, sh in enumerate(mine["sections"])}

    def key_file(sy):
        sec = {0: None, 0xFFF1: "<abs>"}.get(sy["shndx"], secname.get(sy["shndx"]))
        return (sy["name"], sy["value"], sy["size"], sy["bind"], sy["type"], sec)

    def key_obj(sy):
        bind = 1 if sy.binding == "global" else 0
        typ = SYMTYPE.get(sy.typ, 0)
        if sy.value is None:
            return (sy.name, 0, sy.size, bind, typ, None)
        if sy.section is None:
            return (sy.name, sy.value, sy.size, bind, typ, "<abs>")
        return (sy.name, sy.value + obj.get_section(sy.section).address, sy.size, bind, typ, sy.section)

    a = sorted(map(key_file, syms), key=repr)
    b = sorted(map(key_obj, obj.symbols), key=repr)
    if a != b:
        only_a = [x for x in a if x not in b][:2]
        only_b = [x for x in b if x not in a][:2]
        return "symbols differ: file-only %s, object-only %s" % (only_a, only_b)
    counts["symbols"] = counts.get("symbols", 0) + len(b)
    # relocations
    want = {}
    if etype == "relocatable":
        for x in obj.relocations:
            want.setdefault(".rela" + x.section, []).append(x)
    if sorted(want) != sorted(mine["relas"]):
        return "RELA sections %s, expected %s" % (sorted(mine["relas"]), sorted(want))
    march = get_arch(arch)
    for name, rels in want.items():
        got = mine["relas"][name]
        if secname.get(got["target"]) != name[5:]:
            return "%s sh_info points at section %r" % (name, secname.get(got["target"]))
        if len(got["entries"]) != len(rels):
            return "%s has %d entries, object has %d" % (name, len(got["entries"]), len(rels))
        for ent, x in zip(got["entries"], rels):
            osym = obj.symbols_by_id[x.symbol_id]
            num = march.get_reloc_type(x.reloc_type, osym)
            fsym = mine["symbols"][ent["sym"]]
            if (ent["offset"], ent["type"], ent["addend"]) != (x.offset, num, x.addend) or \
                    key_file(fsym) != key_obj(osym):
                return "%s: entry (offset %#x type %d addend %d symbol %r) for relocation (offset %#x %s=%d " \
                       "addend %d symbol %r)" % (name, ent["offset"], ent["type"], ent["addend"], fsym["name"],
                                                 x.offset, x.reloc_type, num, x.addend, osym.name)
            counts["relocations"] = counts.get("relocations", 0) + 1
    # segments
    if etype == "executable":
        loads = [p for p in mine["phdrs"] if p["type"] == 1]
        if len(loads) != len(obj.images) or len(mine["phdrs"]) != len(loads):
            return "%d program headers (%d PT_LOAD) for %d images" % (len(mine["phdrs"]), len(loads), len(obj.images))
        for p in loads:
            if p["filesz"] > p["memsz"]:
                return "PT_LOAD at %#x: p_filesz %d > p_memsz %d" % (p["vaddr"], p["filesz"], p["memsz"])
            if p["align"] > 1 and (p["align"] & (p["align"] - 1) or p["offset"] % p["align"] != p["vaddr"] % p["align"]):
                return "PT_LOAD vaddr %#x offset %#x: p_offset is not congruent to p_vaddr modulo p_align %#x" % (
                    p["vaddr"], p["offset"], p["align"])
        for i in range(len(loads)):
            for j in range(i + 1, len(loads)):
                a1, b1 = loads[i], loads[j]
                if a1["memsz"] and b1["memsz"] and a1["vaddr"] < b1["vaddr"] + b1["memsz"] and \
                        b1["vaddr"] < a1["vaddr"] + a1["memsz"]:
                    return "PT_LOAD segments at %#x and %#x overlap" % (a1["vaddr"], b1["vaddr"])
        for im in obj.images:
            want_bytes = bytes(im.data)
            for off in range(len(want_bytes)):
                va = im.address + off
                seg = [p for p in loads if p["vaddr"] <= va < p["vaddr"] + p["memsz"]]
                if len(seg) != 1:
                    return "image %r: address %#x is covered by %d PT_LOAD segments" % (im.name, va, len(seg))
                p = seg[0]
                d = va - p["vaddr"]
                got = mine["raw"][p["offset"] + d] if d < p["filesz"] else 0
                if got != want_bytes[off]:
                    return "image %r: byte at %#x is %#x through PT_LOAD, %#x in image.data" % (
                        im.name, va, got, want_bytes[off])
            counts["load_bytes"] = counts.get("load_bytes", 0) + len(want_bytes)
            counts["segments"] = counts.get("segments", 0) + 1
    elif mine["phdrs"]:
        return "relocatable file with %d program headers" % len(mine["phdrs"])
    return None


def first_diff(a, b):
    for i in range(min(len(a), len(b))):
        if a[i] != b[i]:
            return i
    return min(len(a), len(b))


# --------------------------------------------------------------------------
# worker


def inc(d, key, n=1):
    d[key] = d.get(key, 0) + n


class Ctx:
    def __init__(self, spec):
        self.spec = spec
        self.avoid = set(spec.get("avoid", []))
        self.tmp = os.environ.get("VERIF_TMP") or os.getcwd()
        self.evals = 0
        self.obs = {"files": {}, "compared": {}, "reader_ok": {}, "origin": {}}
        self.disc = {}
        self.viol = []
        self.samples = []
        self.hashes = []
        self.batch = []  # (file name, obj, arch, etype, case)
        self.inconclusive = None

    def refute(self, summary, case):
        if len(self.viol) < 4:
            v = {"summary": summary, "case": case}
            if "only" in case:
                v["replay_spec"] = dict(self.spec, only=case["only"])
            self.viol.append(v)


def write_file(ctx, obj, arch, etype, case, origin):
    """write_elf into the shard's temp dir; queues the file for the readers."""
    from ppci.format.elf import write_elf

    name = "f%04d.%s" % (len(ctx.batch), "o" if etype == "relocatable" else "elf")
    path = os.path.join(ctx.tmp, name)
    try:
        with open(path, "wb") as f:
            write_elf(obj, f, type=etype)
    except Exception as e:
        ctx.evals += 1
        ctx.refute("write_elf(%s, %s) raised %s: %s" % (arch, etype, type(e).__name__, str(e)[:120]), case)
        try:
            os.unlink(path)
        except OSError:
            pass
        return None
    ctx.batch.append((name, obj, arch, etype, case))
    inc(ctx.obs["files"].setdefault(arch, {}), "rel" if etype == "relocatable" else "exec")
    inc(ctx.obs["origin"], origin)
    return path


def flush(ctx):
    """Run the readers over everything queued and compare."""
    if not ctx.batch:
        return
    files = [b[0] for b in ctx.batch]
    outs = {}
    for tool, argv in (("readelf", ["readelf", "-hSlsr", "-W"]), ("llvm-readelf", ["llvm-readelf-14", "-hSlsr", "-W"]),
                       ("objdump", ["objdump", "-s"])):
        try:
            rc, so, se = run_tool(argv, files, ctx.tmp)
        except (OSError, subprocess.TimeoutExpired) as e:
            ctx.inconclusive = "reader %s could not be run: %s" % (tool, e)
            return
        per_file_err = {}
        if se.strip() or rc != 0:
            # attribute diagnostics to files (slow path)
            for fn in files:
                rc1, so1, se1 = run_tool(argv, [fn], ctx.tmp)
                if se1.strip() or rc1 != 0:
                    per_file_err[fn] = (rc1, se1.strip()[:300])
        if tool == "objdump":
            parts = {}
            cur = None
            for line in so.splitlines():
                m = re.match(r"^(\S+):\s+file format (\S+)$", line)
                if m:
                    cur = m.group(1)
                    parts[cur] = []
                elif cur is not None:
                    parts[cur].append(line)
            outs[tool] = ({k: "\n".join(v_) for k, v_ in parts.items()}, per_file_err)
        else:
            outs[tool] = (split_files(so, files), per_file_err)
    for name, obj, arch, etype, case in ctx.batch:
        ctx.evals += 1
        path = os.path.join(ctx.tmp, name)
        with open(path, "rb") as f:
            raw = f.read()
        what = "%s %s file" % (arch, etype)
        try:
            mine = parse_elf(raw)
        except (ElfError, struct.error) as e:
            ctx.refute("%s: own ELF reader rejects it: %s" % (what, e), case)
            continue
        mine["raw"] = raw
        bad = None
        for tool in ("readelf", "llvm-readelf", "objdump"):
            texts, errs = outs[tool]
            if name in errs:
                bad = "%s: %s complains (rc %d): %s" % (what, tool, errs[name][0], errs[name][1])
                break
            if name not in texts:
                bad = "%s: %s printed nothing for the file" % (what, tool)
                break
        if bad:
            ctx.refute(bad, case)
            continue
        d = compare_object(obj, mine, arch, etype, ctx.obs["compared"])
        if d:
            ctx.refute("%s: %s" % (what, d), case)
            continue
        for tool in ("readelf", "llvm-readelf"):
            view = parse_readelf(outs[tool][0][name])
            d = compare_reader(tool, view, mine, arch)
            if d:
                break
            inc(ctx.obs["reader_ok"], tool)
        if d:
            ctx.refute("%s: %s" % (what, d), case)
            continue
        dump = parse_objdump_s(outs["objdump"][0][name])
        for s in obj.sections:
            if not s.size:
                continue
            got = dump.get(s.name)
            if got is None:
                d = "objdump -s shows no contents for section %r" % s.name
                break
            want = {s.address + i: b for i, b in enumerate(bytes(s.data))}
            if got != want:
                d = "objdump -s contents of section %r differ from the object" % s.name
                break
        if d:
            ctx.refute("%s: %s" % (what, d), case)
            continue
        inc(ctx.obs["reader_ok"], "objdump")
        if obj.symbols and any(s.size for s in obj.sections):
            ctx.hashes.append(h(raw))
        if len(ctx.samples) < 2 and etype == "executable" and len(obj.images) > 1:
            ctx.samples.append({"arch": arch, "type": etype, "bytes": len(raw),
                                "images": [[im.name, hex(im.address), im.size] for im in obj.images],
                                "sections": [[s.name, hex(s.address), s.size] for s in obj.sections],
                                "symbols": len(obj.symbols),
                                "program_headers": [[hex(p["offset"]), hex(p["vaddr"]), p["filesz"]]
                                                    for p in mine["phdrs"]]})
    for name, *_ in ctx.batch:
        try:
            os.unlink(os.path.join(ctx.tmp, name))
        except OSError:
            pass
    ctx.batch = []


def result(ctx):
    res = {"evaluations": ctx.evals, "nontrivial_hashes": ctx.hashes, "observed": ctx.obs, "discarded": ctx.disc,
           "samples": ctx.samples[:2], "violations": ctx.viol}
    if getattr(ctx, "inconclusive", None):
        res["inconclusive"] = [ctx.inconclusive]
    return res


def run_shard(spec):
    ctx = Ctx(spec)
    if spec["part"] == "objgen":
        run_objgen(ctx, spec)
    elif spec["part"] == "compiled":
        run_compiled(ctx, spec)
    else:
        run_exec(ctx, spec)
    flush(ctx)
    return result(ctx)


def arch_list(ctx):
    return [a for a in ARCHES if not (a == "microblaze" and F_BE in ctx.avoid)]


def reloc_mode(ctx, arch):
    """Which relocation types may be put into relocatable files of this arch: True (all), False (none) or a tuple."""
    if arch == "x86_64":
        if F_X86REL not in ctx.avoid and F_JMP8 not in ctx.avoid:
            return True
        keep = X86_MAPPED
        if F_X86REL not in ctx.avoid:
            keep += ("absaddr32", "absaddr16")
        if F_JMP8 not in ctx.avoid:
            keep += ("jmp8",)
        return keep
    return False if F_NOREL in ctx.avoid else True


def strip_relocs(ospec, keep):
    ospec["relocations"] = [x for x in ospec["relocations"] if x["type"] in keep]


def run_objgen(ctx, spec):
    from vlib import objgen
    from ppci.api import link

    arches = arch_list(ctx)
    only = spec.get("only")
    idxs = [only] if only is not None else range(spec["shard"] * spec["n"], (spec["shard"] + 1) * spec["n"])
    for idx in idxs:
        r = rng(spec["seed"], PROPERTY, idx)
        arch = arches[idx % len(arches)]
        mode = reloc_mode(ctx, arch)
        want_exec = r.random() < 0.55
        try:
            oset = objgen.gen_object_set(r, arch, relocs=True if (mode or want_exec) else False, names="elf",
                                         odd_typs=True, max_size=r.choice([24, 80, 300]),
                                         undefined=1 if (want_exec and F_ABS not in ctx.avoid and r.random() < 0.3)
                                         else 0)
        except Exception as e:
            inc(ctx.disc, "generator-error:%s" % type(e).__name__)
            continue
        case = {"only": idx, "arch": arch, "objects": oset["objects"]}
        if not want_exec:
            for ospec in oset["objects"]:
                if isinstance(mode, tuple):
                    strip_relocs(ospec, mode)
                elif not mode:
                    ospec["relocations"] = []
                obj = objgen.build_object(ospec)
                write_file(ctx, obj, arch, "relocatable", dict(case, object=ospec), "objgen")
            continue
        defined = sorted(oset["defined"])
        entry = r.choice(defined) if defined and r.random() < 0.7 else None
        try:
            lay = objgen.gen_layout(r, oset["objects"], fit=True, addr_hi=oset["addr_hi"],
                                    page_aligned=True if F_CONGR in ctx.avoid else None, entry=entry,
                                    addr_lo=r.choice([0, 0x1000, 0x400000, 0x8000000]), max_memories=3)
            extras = {n: r.choice([0, 0x1234, 0x7FFFFFFF]) for n in oset["undefined"]}
            out = link([objgen.build_object(s) for s in oset["objects"]], layout=objgen.build_layout(lay),
                       extra_symbols=extras)
        except Exception as e:
            inc(ctx.disc, "link-or-layout-error:%s" % type(e).__name__)
            continue
        case = dict(case, layout=lay, extra_symbols=extras)
        write_file(ctx, out, arch, "executable", case, "objgen")
        if len(ctx.batch) >= 60:
            flush(ctx)


def run_compiled(ctx, spec):
    from ppci.api import cc, c3c, asm, link
    from vlib import objgen
    from checks.c14 import C_SRC, C3_SRC, ASM_SRC, EXT_SRC

    arch = spec["arch"]
    if arch not in arch_list(ctx):
        return
    mode = reloc_mode(ctx, arch)
    built = {}
    jobs = [("cc", k, v) for k, v in sorted(C_SRC.items())] + [("cc", "ext", EXT_SRC)]
    jobs += [("c3c", k, v) for k, v in sorted(C3_SRC.items())] + [("asm", "asm", ASM_SRC)]
    for origin, name, src in jobs:
        try:
            if origin == "cc":
                obj = cc(io.StringIO(src), arch)
            elif origin == "c3c":
                obj = c3c([io.StringIO(src)], [], arch)
            else:
                obj = asm(io.StringIO(src), arch)
        except Exception as e:
            inc(ctx.disc, "%s %s on %s failed: %s" % (origin, name, arch, type(e).__name__))
            continue
        built[name] = obj
        case = {"arch": arch, "origin": origin, "name": name, "source": src}
        # relocatable file of the compiler's object; relocation kinds that an open finding excludes are removed
        ospec = objgen.obj_to_spec(obj)
        if isinstance(mode, tuple):
            strip_relocs(ospec, mode)
        elif not mode:
            ospec["relocations"] = []
        write_file(ctx, objgen.build_object(ospec), arch, "relocatable", case, "compiled")
    r = rng(spec["seed"], PROPERTY, "compiled-" + arch)
    groups = [g for g in (["calls", "ext"], ["arith", "loop", "switchy"], ["mod"], ["list", "statics"],
                          ["asm", "arith"], ["strings", "structs"], ["arith"], ["loop", "statics", "switchy"])
              if all(n in built for n in g)]
    for g in groups:
        for rep in range(2):
            objs = [built[n] for n in g]
            entry = [s.name for o in objs for s in o.symbols if s.binding == "global" and s.value is not None][0]
            out = None
            err = None
            for with_runtime in (False, True):  # integer multiply/divide helpers live in the runtime library
                members = objs + ([objgen.get_arch(arch).runtime] if with_runtime else [])
                specs = [objgen.obj_to_spec(o) for o in members]
                try:
                    lay = objgen.gen_layout(r, specs, fit=True, phantom=False, leave_unplaced=(rep == 1),
                                            sectiondata=(rep == 1),
                                            page_aligned=True if F_CONGR in ctx.avoid else None,
                                            addr_lo=r.choice([0x1000, 0x400000, 0x10000000]))
                    out = link(members, layout=objgen.build_layout(lay), entry=entry)
                    break
                except Exception as e:
                    err = e
            if out is None:
                inc(ctx.disc, "link of %s raised %s" % ("+".join(g), type(err).__name__))
                continue
            write_file(ctx, out, arch, "executable", {"arch": arch, "members": g, "layout": lay, "entry": entry},
                       "compiled")


EXIT_CODE = bytes([0xB8, 0x3C, 0, 0, 0, 0x48, 0xBF]) + bytes(8) + bytes([0x0F, 0xB6, 0x3F, 0x0F, 0x05])


def run_exec(ctx, spec):
    """x86_64: mov eax,60 ; mov rdi,&val ; movzx edi,byte [rdi] ; syscall -- exit status = the data byte."""
    from vlib import objgen
    from ppci.api import link

    for i in range(spec["n"]):
        r = rng(spec["seed"], PROPERTY, "exec%d" % i)
        val = r.randrange(1, 256)
        pad_c = r.randbytes(r.choice([0, 3, 16, 100]))
        pad_d = r.randbytes(r.choice([0, 1, 7, 64, 5000]))
        ospec = {"arch": "x86_64", "images": [], "entry": None, "debug": None,
                 "sections": [{"name": "code", "alignment": r.choice([1, 4, 16]), "data": (EXIT_CODE + pad_c).hex(),
                               "address": 0},
                              {"name": "data", "alignment": r.choice([1, 4, 8]), "data": (pad_d + bytes([val])).hex(),
                               "address": 0}],
                 "symbols": [{"id": 0, "name": "start", "binding": "global", "value": 0, "section": "code",
                              "typ": "func", "size": len(EXIT_CODE)},
                             {"id": 1, "name": "val", "binding": r.choice(["local", "global"]), "value": len(pad_d),
                              "section": "data", "typ": "object", "size": 1}],
                 "relocations": [{"type": "abs64", "symbol_id": 1, "section": "code", "offset": 7, "addend": 0}]}
        aligned = F_CONGR in ctx.avoid or r.random() < 0.4
        cbase = 0x400000 + 0x1000 * r.randrange(0, 64) + (0 if aligned else r.choice([0x10, 0x234, 0x800, 0xFF0]))
        dbase = 0x800000 + 0x1000 * r.randrange(0, 64) + (0 if aligned else r.choice([0, 0x8, 0x100, 0xABC]))
        order = [["section", "code"]], [["section", "data"]]
        lay = {"memories": [{"name": "code", "location": cbase, "size": 0x4000, "inputs": order[0]},
                            {"name": "ram", "location": dbase, "size": 0x4000, "inputs": order[1]}],
               "entry": "start"}
        if r.random() < 0.3:
            lay["memories"].reverse()
        case = {"arch": "x86_64", "exit_value": val, "object": ospec, "layout": lay}
        try:
            out = link([objgen.build_object(ospec)], layout=objgen.build_layout(lay))
        except Exception as e:
            inc(ctx.disc, "link-error:%s" % type(e).__name__)
            continue
        path = write_file(ctx, out, "x86_64", "executable", case, "exec")
        if path is None:
            continue
        os.chmod(path, 0o755)
        ctx.evals += 1
        try:
            p = subprocess.run([path], capture_output=True, timeout=20, cwd=ctx.tmp)
        except subprocess.TimeoutExpired:
            inc(ctx.disc, "exec-timeout")
            continue
        except OSError as e:
            ctx.refute("x86_64 executable (code at %#x, data at %#x): the kernel refuses to exec it: %s"
                       % (cbase, dbase, e), case)
            continue
        inc(ctx.obs, "exec_runs")
        if p.returncode != val:
            ctx.refute("x86_64 executable (code at %#x, data at %#x): exit status %d, the program returns the data "
                       "byte %d" % (cbase, dbase, p.returncode, val), case)


# --------------------------------------------------------------------------
# probes


def _tmp():
    return os.environ.get("VERIF_TMP") or os.getcwd()


def _asm_obj(arch):
    from ppci.api import get_arch
    from ppci.binutils.objectfile import ObjectFile

    obj = ObjectFile(get_arch(arch))
    obj.get_section("code", create=True).add_data(bytes(range(1, 9)))
    obj.add_symbol(0, "foo", "global", 4, "code", "func", 0)
    return obj


def probe_big_endian():
    from ppci.format.elf import write_elf

    f = io.BytesIO()
    write_elf(_asm_obj("microblaze"), f, type="relocatable")
    raw = f.getvalue()
    try:
        mine = parse_elf(raw)
    except (ElfError, struct.error) as e:
        return "microblaze file says EI_DATA=2 (big endian) but its header fields are little-endian: %s" % e
    if mine["e_machine"] != 189:
        return "microblaze e_machine reads as %d" % mine["e_machine"]
    return None


def probe_congruence():
    from ppci.api import link
    from ppci.binutils import layout as L
    from ppci.format.elf import write_elf

    lay = L.Layout()
    m = L.Memory("code")
    m.location, m.size = 0x400100, 0x1000
    m.add_input(L.Section("code"))
    lay.add_memory(m)
    out = link([_asm_obj("x86_64")], layout=lay, entry="foo")
    f = io.BytesIO()
    write_elf(out, f, type="executable")
    p = parse_elf(f.getvalue())["phdrs"][0]
    if p["offset"] % p["align"] != p["vaddr"] % p["align"]:
        return ("image at 0x400100: PT_LOAD p_offset %#x, p_vaddr %#x, p_align %#x are not congruent (the kernel maps "
                "the segment at the wrong place; an exit(42) program built this way dies with SIGSEGV)"
                % (p["offset"], p["vaddr"], p["align"]))
    return None


def probe_abs():
    from ppci.api import link
    from ppci.format.elf import write_elf

    out = link([_asm_obj("x86_64")], extra_symbols={"ext": 0x1234})
    try:
        f = io.BytesIO()
        write_elf(out, f, type="executable")
    except Exception as e:
        return "write_elf of an object with the absolute symbol ext=0x1234 (from extra_symbols) raises %s: %s" % (
            type(e).__name__, e)
    syms = [s for s in parse_elf(f.getvalue())["symbols"] if s["name"] == "ext"]
    if not syms or syms[0]["shndx"] != 0xFFF1 or syms[0]["value"] != 0x1234:
        return "absolute symbol written as %r" % (syms,)
    return None


def probe_x86_types():
    from ppci.api import asm
    from ppci.format.elf import write_elf

    obj = asm(io.StringIO("section data\nglobal a\na:\ndcd =a\n"), "x86_64")
    try:
        write_elf(obj, io.BytesIO(), type="relocatable")
    except Exception as e:
        return ("x86_64 'dcd =a' (relocation %s): write_elf(relocatable) raises %s: %s"
                % (obj.relocations[0].reloc_type, type(e).__name__, e))
    return None


def probe_norel():
    from ppci.api import asm
    from ppci.format.elf import write_elf

    bad = []
    for arch in ("arm", "riscv", "xtensa"):
        obj = asm(io.StringIO("section data\nglobal a\na:\ndcd =a\n"), arch)
        try:
            write_elf(obj, io.BytesIO(), type="relocatable")
        except Exception as e:
            bad.append("%s: %s(%s)" % (arch, type(e).__name__, e))
    if bad:
        return "a relocatable ELF file of any object with a relocation cannot be written: " + "; ".join(bad)
    return None


def probe_jmp8():
    from ppci.api import get_arch
    from ppci.binutils.objectfile import RelocationEntry
    from ppci.format.elf import write_elf

    obj = _asm_obj("x86_64")
    obj.add_relocation(RelocationEntry("jmp8", 0, "code", 1, 0))
    try:
        write_elf(obj, io.BytesIO(), type="relocatable")
    except Exception as e:
        return "x86_64 object with a jmp8 relocation: write_elf(relocatable) raises %s: %s" % (type(e).__name__, e)
    return None


PROBES = {F_JMP8: probe_jmp8, F_BE: probe_big_endian, F_CONGR: probe_congruence, F_ABS: probe_abs, F_X86REL: probe_x86_types,
          F_NOREL: probe_norel}
