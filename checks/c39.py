"""C39 bit helpers == their mathematical definitions (DESIGN 4, C39)."""
from vlib.core import rng, h

PROPERTY = "C39"
RULE = ("every helper of ppci.utils.bitfun (and its re-exports in wasm/execution/runtime.py) is "
        "evaluated on all values x all rotation counts for widths 1..12 (exhaustive) and on "
        "boundary+random values for 16/32/64 bits and compared with a one-line reference; "
        "non-trivial = (helper, width, value[, count]) with value != 0; distinct by construction")
ASSUMPTIONS = ["Python big-integer arithmetic and bin() are correct",
               "helper inputs are kept inside each helper's documented domain (0 <= v < 2^bits)"]


MANIFEST_ENTRY = {
    "text": "Every bit helper (and its re-export in the wasm runtime) evaluated on all values x all rotation counts for "
            "widths 1..12 and on boundary/random 16/32/64-bit values, compared with one-line mathematical definitions.",
    "note": "Inputs stay inside each helper's documented domain; Python big-integer arithmetic is the trusted base.",
    "technique": "runtime monitoring: exhaustive small-width + boundary sweep of the real helpers against definitional oracles",
}


def EXHAUSTIVE(tier):
    return True


def plan(tier, seed, avoid):
    specs = [{"part": "rot", "widths": [w]} for w in range(1, 13)]
    specs += [{"part": "unary", "widths": list(range(1, 13))}]
    specs += [{"part": "imm32", "n": 20000 if tier == "quick" else 400000}]
    specs += [{"part": "wide", "n": 4000 if tier == "quick" else 100000, "bits": b} for b in (16, 32, 64)]
    specs += [{"part": "runtime", "n": 3000 if tier == "quick" else 100000}]
    return specs


def floors(tier):
    return {"evaluations": 100000, "observed.helpers": 14}


# ---- references -----------------------------------------------------------

def ref_rotl(v, c, bits):
    c %= bits
    m = (1 << bits) - 1
    return ((v << c) | (v >> (bits - c))) & m


def ref_rotr(v, c, bits):
    return ref_rotl(v, bits - (c % bits), bits)


def ref_reverse(v, bits):
    return int(format(v, "0%db" % bits)[::-1], 2)


def ref_signed(v, bits):
    v %= 1 << bits
    return v - (1 << bits) if v >= 1 << (bits - 1) else v


def ref_clz(v, bits):
    v %= 1 << bits
    return bits - v.bit_length()


def ref_ctz(v, bits):
    v %= 1 << bits
    if v == 0:
        return bits
    return len(format(v, "b")) - len(format(v, "b").rstrip("0"))


def ref_popcnt(v, bits):
    return bin(v % (1 << bits)).count("1")


class Mon:
    def __init__(self, spec):
        self.spec = spec
        self.evals = 0
        self.nontrivial = 0
        self.viol = []
        self.helpers = {}
        self.samples = []

    def cmp(self, helper, args, fn, expect):
        self.evals += 1
        self.helpers[helper] = self.helpers.get(helper, 0) + 1
        if args[0] != 0:
            self.nontrivial += 1
        try:
            got = fn(*args)
        except Exception as e:  # defined input must not raise
            got = "raised %s: %s" % (type(e).__name__, e)
        if got != expect:
            if len(self.viol) < 5:
                self.viol.append({"summary": "%s%r = %r, definition gives %r" % (helper, tuple(args), got, expect),
                                  "case": {"helper": helper, "args": list(args), "got": got, "expect": expect}})
        elif len(self.samples) < 3 and args[0] > 1:
            self.samples.append({"helper": helper, "args": list(args), "result": got})

    def result(self):
        return {"evaluations": self.evals, "nontrivial_count": self.nontrivial,
                "observed": {"helpers": self.helpers}, "violations": self.viol, "samples": self.samples[:2]}


def boundary(bits, r, n):
    vals = {0, 1, 2, (1 << bits) - 1, (1 << bits) - 2, 1 << (bits - 1), (1 << (bits - 1)) - 1, (1 << (bits - 1)) + 1}
    for k in range(bits):
        vals.add(1 << k)
        vals.add(((1 << bits) - 1) ^ (1 << k))
    if n >= 1 << bits:
        return list(range(1 << bits))      # the whole domain
    while len(vals) < n:
        vals.add(r.getrandbits(bits))
    return sorted(vals)


def run_shard(spec):
    from ppci.utils import bitfun as bf

    m = Mon(spec)
    part = spec["part"]
    r = rng(spec["seed"], PROPERTY, part + str(spec.get("bits", "")))
    if part == "rot":
        for bits in spec["widths"]:
            for v in range(1 << bits):
                for c in list(range(0, 2 * bits + 2)) + [5 * bits, 5 * bits + 1]:
                    m.cmp("rotl", (v, c, bits), bf.rotl, ref_rotl(v, c, bits))
                    m.cmp("rotr", (v, c, bits), bf.rotr, ref_rotr(v, c, bits))
    elif part == "unary":
        for bits in spec["widths"]:
            for v in range(1 << bits):
                unary(m, bf, v, bits)
            # to_signed/to_unsigned/correct accept any integer
            for v in range(-(1 << bits) - 3, (2 << bits) + 3):
                m.cmp("to_signed", (v, bits), bf.to_signed, ref_signed(v, bits))
                m.cmp("to_unsigned", (v, bits), bf.to_unsigned, v % (1 << bits))
    elif part == "wide":
        bits = spec["bits"]
        vals = boundary(bits, r, spec["n"])
        for v in vals:
            unary(m, bf, v, bits)
            for c in (0, 1, bits - 1, bits, bits + 1, r.randrange(0, 3 * bits)):
                m.cmp("rotl", (v, c, bits), bf.rotl, ref_rotl(v, c, bits))
                m.cmp("rotr", (v, c, bits), bf.rotr, ref_rotr(v, c, bits))
            for w in (v, -v, v - (1 << bits), v + (1 << bits)):
                m.cmp("to_signed", (w, bits), bf.to_signed, ref_signed(w, bits))
                m.cmp("to_unsigned", (w, bits), bf.to_unsigned, w % (1 << bits))
            if bits == 32:
                for c in (0, 1, 7, 16, 31, r.randrange(32)):
                    m.cmp("rotate_left", (v, c), bf.rotate_left, ref_rotl(v, c, 32))
                    m.cmp("rotate_right", (v, c), bf.rotate_right, ref_rotr(v, c, 32))
    elif part == "imm32":
        # representable iff exists even rotation r and 8-bit b with ror32(b, r) == v
        representable = {}
        for rot in range(16):
            for b in range(256):
                representable.setdefault(ref_rotr(b, 2 * rot, 32), []).append((rot, b))
        vals = set(representable)
        for v in list(representable):
            for d in (1, -1, 0x100, 0x101):
                vals.add((v + d) % (1 << 32))
                vals.add(v ^ (1 << r.randrange(32)))
        while len(vals) < len(representable) + spec["n"]:
            vals.add(r.getrandbits(32))
        for v in sorted(vals):
            m.evals += 1
            m.helpers["encode_imm32"] = m.helpers.get("encode_imm32", 0) + 1
            if v:
                m.nontrivial += 1
            try:
                x = bf.encode_imm32(v)
                ok = True
            except ValueError:
                ok = False
            except Exception as e:  # noqa
                m.viol.append({"summary": "encode_imm32(%#x) raised %r" % (v, e), "case": {"v": v}})
                continue
            want = v in representable
            if ok != want:
                m.viol.append({"summary": "encode_imm32(%#x) %s but value is %srepresentable" % (
                    v, "succeeds" if ok else "fails", "" if want else "not "), "case": {"v": v}})
            elif ok:
                rot, b = (x >> 8), x & 0xFF
                if x >> 12 or ref_rotr(b, 2 * rot, 32) != v:
                    m.viol.append({"summary": "encode_imm32(%#x) = %#x decodes to %#x" % (
                        v, x, ref_rotr(b, 2 * rot, 32)), "case": {"v": v, "x": x}})
                elif len(m.samples) < 2 and rot:
                    m.samples.append({"helper": "encode_imm32", "args": [v], "result": x})
        m.viol = m.viol[:5]
    elif part == "runtime":
        from ppci.wasm.execution import runtime as rt

        for bits in (32, 64):
            pre = "i%d_" % bits
            for v in boundary(bits, r, spec["n"]):
                sv = ref_signed(v, bits)
                for arg in (v, sv):  # the runtime sees signed or unsigned representations
                    m.cmp(pre + "clz", (arg,), getattr(rt, pre + "clz"), ref_clz(v, bits))
                    m.cmp(pre + "ctz", (arg,), getattr(rt, pre + "ctz"), ref_ctz(v, bits))
                    m.cmp(pre + "popcnt", (arg,), getattr(rt, pre + "popcnt"), ref_popcnt(v, bits))
                    for c in (0, 1, bits - 1, bits, bits + 3, r.randrange(0, 4 * bits), -1 % (1 << bits)):
                        m.cmp(pre + "rotl", (arg, c), getattr(rt, pre + "rotl"),
                              ref_signed(ref_rotl(v, c, bits), bits))
                        m.cmp(pre + "rotr", (arg, c), getattr(rt, pre + "rotr"),
                              ref_signed(ref_rotr(v, c, bits), bits))
    return m.result()


def unary(m, bf, v, bits):
    m.cmp("reverse_bits", (v, bits), bf.reverse_bits, ref_reverse(v, bits))
    m.cmp("sign_extend", (v, bits), bf.sign_extend, ref_signed(v, bits))
    m.cmp("clz", (v, bits), bf.clz, ref_clz(v, bits))
    m.cmp("ctz", (v, bits), bf.ctz, ref_ctz(v, bits))
    m.cmp("popcnt", (v, bits), bf.popcnt, ref_popcnt(v, bits))


def probe_reverse_bits():
    from ppci.utils import bitfun as bf

    got = bf.reverse_bits(0x80, 8)
    return None if got == 1 else "reverse_bits(0x80, 8) = %r, expected 1" % (got,)


PROBES = {"reverse-bits-drops-top-bit": probe_reverse_bits}
