"""C20 LEB128 encoding is the canonical specification encoding (DESIGN 4, C20).

Monitor: the four functions of ``ppci/utils/leb128.py`` are executed on every
value of the workload and compared with a reference written from the
definition in a *different* form than ppci's loop:

* length: the unsigned encoding of x has the smallest n >= 1 with x < 2^(7n)
  groups; the signed encoding the smallest n >= 1 with -2^(7n-1) <= x < 2^(7n-1);
* bytes: the 7-bit groups of x mod 2^(7n), least significant first, bit 7 set on
  all but the last (DWARF 5 section 7.6, WebAssembly core spec 5.2.2);
* a grammar check of ppci's output (continuation bits, value, minimality of the
  last group) as a second formulation.

Refuting events: encoder output != reference; decoder(reference encoding) != x;
a decoder consuming more or fewer bytes than the encoding (two sentinel bytes
are appended and must be left unread); the unsigned encoder returning (or
looping on) a negative number instead of raising.

Termination is observed by steps, not by time: encoders are first called with
an ``int`` subclass that counts right shifts and gives up after 10000.

Second oracle (V8 through /usr/bin/node, clause skipped when node is absent):
wasm modules are assembled by hand in this file - section sizes and indices with
the *reference* encoder, only the immediates under test with ppci's encoders -
``i64.const x`` / ``i32.const x`` functions must validate and return x, and a
table whose minimum size (<= 20000), or a custom section whose byte size (up to
3e6, 4-byte encodings), is written with ppci's unsigned encoder must report that
length.
"""
import json
import os
import shutil
import subprocess

from vlib.core import rng, h

PROPERTY = "C20"
LO, HI = -(1 << 16), 1 << 16
RULE = ("all integers in [-2^16, 2^16] exhaustively (131073 values, 16 shards); boundary values +-{0,1,2} around "
        "+-2^(7k) and +-2^(7k-1) for k <= 19 and around 2^31, 2^32, 2^63, 2^64, 2^128; random integers with a "
        "uniformly drawn bit length 1..128 (2 % up to 600 bits) and random sign, made distinct across shards by "
        "residue; V8: boundary and random values of the i64/i32/table-size ranges; non-trivial = value whose "
        "encoding needs at least two bytes (continuation and final-group sign handling matter); counted once "
        "(random values inside the exhaustive interval or the boundary list are not counted again)")
ASSUMPTIONS = ["the closed-form reference (group count from the value range, groups of x mod 2^(7n)) is the "
               "DWARF/WebAssembly LEB128 definition; it is cross-checked against a grammar-based checker at the "
               "start of every shard",
               "Python big-integer arithmetic is correct",
               "V8 (node v20) implements the WebAssembly 1.0 binary format: it rejects malformed LEB immediates and "
               "returns the decoded constant"]
MANIFEST_ENTRY = {
    "text": "ppci's signed/unsigned LEB128 encoders are compared with an independently formulated reference on every "
            "integer in [-2^16, 2^16], on all 7-bit group boundaries up to 2^133 and on random big integers; the "
            "decoders must return the value and consume exactly the encoding; negative input to the unsigned "
            "encoder must raise; V8 must accept and evaluate constants encoded by ppci.",
    "note": "decoders are only given canonical encodings (the statement does not speak about over-long input); the "
            "V8 clause covers the i32/i64 ranges and unsigned values up to 3e6 (table minimum / section size) only and is skipped when node is absent.",
    "technique": "runtime monitoring: reference encoder + grammar checker + V8 over an exhaustive interval, "
                 "boundary values and random big integers",
}
NODE = shutil.which("node") or ("/usr/bin/node" if os.path.exists("/usr/bin/node") else None)
SENTINEL = b"\xa5\x5a"
STEP_LIMIT = 10000


def EXHAUSTIVE(tier):
    return True  # the interval [-2^16, 2^16] named in RULE is enumerated completely on both tiers


N_RANGE_SHARDS = 16


def n_random_shards(tier):
    return 4 if tier == "quick" else 16


def plan(tier, seed, avoid):
    specs = []
    total = HI - LO + 1
    step = (total + N_RANGE_SHARDS - 1) // N_RANGE_SHARDS
    for i in range(N_RANGE_SHARDS):
        lo = LO + i * step
        hi = min(HI, lo + step - 1)
        specs.append({"part": "range", "lo": lo, "hi": hi})
    specs.append({"part": "boundary"})
    nr = n_random_shards(tier)
    per = 25000 if tier == "quick" else 400000
    specs += [{"part": "random", "shard": j, "of": nr, "n": per} for j in range(nr)]
    if tier == "quick":
        specs.append({"part": "v8", "shard": 0, "n": 4000})
    else:
        specs += [{"part": "v8", "shard": j, "n": 20000} for j in range(4)]
    return specs


def floors(tier):
    fl = {"evaluations": 131073 + 80000, "distinct_nontrivial": 131073 - 257 + 60000,
          "observed.class.exhaustive_interval": 131073, "observed.class.boundary": 400,
          "observed.class.random": 90000 if tier == "quick" else 5000000,
          "observed.negatives_rejected_by_unsigned_encoder": 65536 + 30000,
          "observed.decoder_runs.signed": 131073 + 80000, "observed.decoder_runs.unsigned": 65537 + 30000,
          "observed.signed_length": 19, "observed.unsigned_length": 19}
    if NODE:
        fl["observed.v8.i64_const"] = 2000
        fl["observed.v8.i32_const"] = 500
        fl["observed.v8.table_min"] = 60
        fl["observed.v8.section_size"] = 10
    return fl


# ---- reference (closed form) ------------------------------------------------------

def ref_uleb(x):
    assert x >= 0
    n = 1
    while x >= 1 << (7 * n):
        n += 1
    return bytes(((x >> (7 * i)) & 0x7F) | (0x80 if i < n - 1 else 0) for i in range(n))


def ref_sleb(x):
    n = 1
    while not -(1 << (7 * n - 1)) <= x < 1 << (7 * n - 1):
        n += 1
    u = x % (1 << (7 * n))  # two's complement on 7n bits
    return bytes(((u >> (7 * i)) & 0x7F) | (0x80 if i < n - 1 else 0) for i in range(n))


def grammar_value(enc, signed):
    """Value of a well-formed LEB128 byte string, or a string describing why it is not canonical."""
    if not isinstance(enc, (bytes, bytearray)) or len(enc) == 0:
        return "not a non-empty bytes object: %r" % (enc,)
    if any(b < 0x80 for b in enc[:-1]) or enc[-1] >= 0x80:
        return "continuation bits wrong"
    val = sum((b & 0x7F) << (7 * i) for i, b in enumerate(enc))
    if signed and enc[-1] & 0x40:
        val -= 1 << (7 * len(enc))
    if len(enc) > 1:
        last, prev = enc[-1], enc[-2]
        if not signed and last == 0:
            return "over-long: last group is zero"
        if signed and ((last == 0 and not prev & 0x40) or (last == 0x7F and prev & 0x40)):
            return "over-long: last group only repeats the sign"
    return val


def selfcheck():
    """The two formulations of the definition must agree with each other (else: harness bug)."""
    vals = boundary_values()[:400] + list(range(-300, 300))
    for x in vals:
        if grammar_value(ref_sleb(x), True) != x:
            return "reference signed encoder and grammar checker disagree on %d" % x
        if x >= 0 and grammar_value(ref_uleb(x), False) != x:
            return "reference unsigned encoder and grammar checker disagree on %d" % x
    known = {624485: "e58e26", 0: "00", 127: "ff00", -128: "807f", -123456: "c0bb78", 64: "c000", -65: "bf7f"}
    for x, hx in known.items():  # DWARF 5 figure 7.7/7.8 and Wikipedia examples
        if ref_sleb(x).hex() != hx and x != 624485:
            return "reference signed encoder: %d -> %s, published %s" % (x, ref_sleb(x).hex(), hx)
    if ref_uleb(624485).hex() != "e58e26" or ref_uleb(128).hex() != "8001" or ref_uleb(12857).hex() != "b964":
        return "reference unsigned encoder disagrees with published examples"
    return None


def boundary_values():
    vals = []
    exps = []
    for k in range(1, 20):
        exps += [7 * k, 7 * k - 1]
    exps += [31, 32, 63, 64, 128, 127]
    for e in exps:
        for sign in (1, -1):
            for d in (-2, -1, 0, 1, 2):
                vals.append(sign * (1 << e) + d)
    vals += [0, 1, -1, 2, -2]
    out, seen = [], set()
    for v in vals:
        if v not in seen:
            seen.add(v)
            out.append(v)
    return out


# ---- monitor ----------------------------------------------------------------------

class StepLimit(Exception):
    pass


class StepInt(int):
    """int that counts the shifts/divisions an encoder performs on it."""
    steps = 0

    def _tick(self):
        StepInt.steps += 1
        if StepInt.steps > STEP_LIMIT:
            raise StepLimit()

    def __rshift__(self, n):
        self._tick()
        return StepInt(int.__rshift__(self, n))

    def __floordiv__(self, n):
        self._tick()
        return StepInt(int.__floordiv__(self, n))


NOT_A_REJECTION = (StepLimit, MemoryError, RecursionError)


class Mon:
    def __init__(self, spec):
        import ppci.utils.leb128 as leb

        self.leb = leb
        self.spec = spec
        self.evals = 0
        self.viol = []
        self.samples = []
        self.nontrivial = 0
        self.obs = {"class": {}, "signed_length": {}, "unsigned_length": {},
                    "negatives_rejected_by_unsigned_encoder": 0, "rejection_exception": {},
                    "decoder_runs": {"signed": 0, "unsigned": 0},
                    "encodings_with_sign_extension_group": 0}

    def flag(self, x, what, **kw):
        if len(self.viol) < 5:
            case = {"value": str(x), "what": what}
            case.update(kw)
            self.viol.append({"summary": "%s (value %s)" % (what, x if abs(x) < 1 << 70 else hex(x)), "case": case,
                              "replay_spec": {"part": "values", "values": [str(x)], "tier": self.spec["tier"],
                                              "seed": self.spec["seed"], "avoid": self.spec["avoid"]}})

    def guarded(self, fn, x):
        """Call an encoder with a step-counting int first. -> ('ok', None) | ('raised', exc) | ('limit', None)"""
        StepInt.steps = 0
        try:
            fn(StepInt(x))
        except NOT_A_REJECTION as e:
            return "limit", e
        except Exception as e:  # noqa
            return "raised", e
        return "ok", None

    def encoder(self, name, fn, x, want, signed):
        st, exc = self.guarded(fn, x)
        if st == "limit":
            self.flag(x, "%s does not finish within %d shifts (%s)" % (name, STEP_LIMIT, type(exc).__name__))
            return None
        try:
            got = fn(x)
        except Exception as e:  # noqa
            self.flag(x, "%s raised %s: %s" % (name, type(e).__name__, e))
            return None
        if not isinstance(got, (bytes, bytearray)) or bytes(got) != want:
            g = grammar_value(got, signed)
            why = g if isinstance(g, str) else ("well formed but denotes %d" % g if g != x else "well formed")
            self.flag(x, "%s gives %s, the definition gives %s (%s)" % (
                name, got.hex() if isinstance(got, (bytes, bytearray)) else repr(got), want.hex(), why),
                got=repr(got), reference=want.hex())
            return None
        g = grammar_value(got, signed)
        if g != x:  # cannot happen when the two formulations agree (selfcheck); keep it loud
            self.flag(x, "%s output %s fails the grammar check: %s" % (name, got.hex(), g))
        return got

    def decoder(self, name, fn, x, enc):
        it = iter(enc + SENTINEL)
        try:
            got = fn(it)
        except Exception as e:  # noqa
            self.flag(x, "%s raised %s on %s followed by sentinel bytes" % (name, type(e).__name__, enc.hex()))
            return
        rest = bytes(it)
        if got != x or isinstance(got, bool) or not isinstance(got, int):
            self.flag(x, "%s(%s) = %r, expected %d" % (name, enc.hex(), got, x), encoding=enc.hex())
        elif rest != SENTINEL:
            self.flag(x, "%s consumed %d bytes of a %d byte encoding" % (
                name, len(enc) + len(SENTINEL) - len(rest), len(enc)), encoding=enc.hex())

    def value(self, x, cls, count_nontrivial=True):
        leb = self.leb
        self.evals += 1
        self.obs["class"][cls] = self.obs["class"].get(cls, 0) + 1
        want_s = ref_sleb(x)
        k = "%02d" % len(want_s)
        self.obs["signed_length"][k] = self.obs["signed_length"].get(k, 0) + 1
        if len(want_s) > 1 and want_s[-1] in (0x00, 0x7F):
            self.obs["encodings_with_sign_extension_group"] += 1
        self.encoder("signed_leb128_encode", leb.signed_leb128_encode, x, want_s, True)
        self.decoder("signed_leb128_decode", leb.signed_leb128_decode, x, want_s)
        self.obs["decoder_runs"]["signed"] += 1
        if x >= 0:
            want_u = ref_uleb(x)
            k = "%02d" % len(want_u)
            self.obs["unsigned_length"][k] = self.obs["unsigned_length"].get(k, 0) + 1
            self.encoder("unsigned_leb128_encode", leb.unsigned_leb128_encode, x, want_u, False)
            self.decoder("unsigned_leb128_decode", leb.unsigned_leb128_decode, x, want_u)
            self.obs["decoder_runs"]["unsigned"] += 1
        else:
            st, exc = self.guarded(leb.unsigned_leb128_encode, x)
            if st == "limit":
                self.flag(x, "unsigned_leb128_encode does not reject a negative number: no result within %d shifts (%s)"
                          % (STEP_LIMIT, type(exc).__name__))
            elif st == "ok":
                try:
                    got = leb.unsigned_leb128_encode(x)
                    self.flag(x, "unsigned_leb128_encode accepts a negative number and returns %r" % (got,))
                except Exception as e:  # noqa
                    self.flag(x, "unsigned_leb128_encode accepts a negative int subclass but raises %s for int" % type(e).__name__)
            else:
                try:
                    got = leb.unsigned_leb128_encode(x)
                    self.flag(x, "unsigned_leb128_encode accepts a negative number and returns %r" % (got,))
                except NOT_A_REJECTION as e:
                    self.flag(x, "unsigned_leb128_encode on a negative number: %s" % type(e).__name__)
                except Exception as e:  # noqa
                    self.obs["negatives_rejected_by_unsigned_encoder"] += 1
                    n = type(e).__name__
                    self.obs["rejection_exception"][n] = self.obs["rejection_exception"].get(n, 0) + 1
        if count_nontrivial and len(want_s) > 1:
            self.nontrivial += 1
        if len(self.samples) < 2 and len(want_s) in (3, 10) and x < 0:
            self.samples.append({"value": str(x), "signed_leb128": want_s.hex(), "class": cls})

    def result(self, extra_incon=()):
        return {"evaluations": self.evals, "nontrivial_count": self.nontrivial, "observed": self.obs,
                "violations": self.viol, "samples": self.samples, "inconclusive": list(extra_incon)}


def random_value(r, j, of):
    bits = r.randrange(1, 129) if r.random() >= 0.02 else r.randrange(129, 601)
    m = r.getrandbits(bits) | (1 << (bits - 1))
    if r.random() < 0.5:
        m = -m
    if r.random() < 0.1:  # runs of ones / zeros at group borders
        m = (m >> 7 << 7) | r.choice([0, 0x3F, 0x40, 0x7F])
    return m * of + j  # residue j modulo `of`: distinct from every other shard's values


def run_shard(spec):
    err = selfcheck()
    if err:
        return {"evaluations": 0, "inconclusive": ["reference self-check failed: " + err]}
    part = spec["part"]
    if part == "v8":
        return run_v8(spec)
    m = Mon(spec)
    if part == "range":
        for x in range(spec["lo"], spec["hi"] + 1):
            m.value(x, "exhaustive_interval")
    elif part == "boundary":
        for x in boundary_values():
            m.value(x, "boundary", count_nontrivial=not LO <= x <= HI)
    elif part == "random":
        bset = set(boundary_values())
        seen = set()
        for i in range(spec["n"]):
            r = rng(spec["seed"], PROPERTY, "rnd%d/%d" % (spec["shard"], i))
            x = random_value(r, spec["shard"], spec["of"])
            fresh = x not in seen and x not in bset and not LO <= x <= HI
            seen.add(x)
            m.value(x, "random", count_nontrivial=fresh)
    elif part == "values":  # replay of single values
        for s in spec["values"]:
            m.value(int(s), "replay")
    return m.result()


# ---- V8 ----------------------------------------------------------------------------

JS = r"""
const fs = require('fs');
const jobs = JSON.parse(fs.readFileSync(process.argv[2], 'utf8'));
const out = [];
for (const job of jobs) {
  const res = {};
  try {
    const mod = new WebAssembly.Module(Buffer.from(job.hex, 'hex'));
    const inst = new WebAssembly.Instance(mod, {});
    if (job.kind === 'table') {
      res.values = [String(inst.exports.t.length)];
    } else if (job.kind === 'custom') {
      const secs = WebAssembly.Module.customSections(mod, '');
      res.values = [secs.length === 1 ? String(secs[0].byteLength + 1) : 'custom sections found: ' + secs.length];
    } else {
      res.values = [];
      for (let i = 0; i < job.n; i++) res.values.push(String(inst.exports['f' + i]()));
    }
  } catch (e) {
    res.error = String(e);
  }
  out.push(res);
}
fs.writeFileSync(process.argv[3], JSON.stringify(out));
"""


def vec(items):
    return ref_uleb(len(items)) + b"".join(items)


def section(sid, payload):
    return bytes([sid]) + ref_uleb(len(payload)) + payload


def const_module(opcode, restype, immediates):
    """n exported functions f<i>: () -> restype, body = opcode immediate end."""
    n = len(immediates)
    types = vec([bytes([0x60]) + vec([]) + vec([bytes([restype])])])
    funcs = vec([ref_uleb(0)] * n)
    exports = vec([ref_uleb(len(b"f%d" % i)) + b"f%d" % i + b"\x00" + ref_uleb(i) for i in range(n)])
    bodies = []
    for imm in immediates:
        body = vec([]) + bytes([opcode]) + imm + b"\x0b"
        bodies.append(ref_uleb(len(body)) + body)
    return (b"\x00asm\x01\x00\x00\x00" + section(1, types) + section(3, funcs) + section(7, exports)
            + section(10, vec(bodies)))


def table_module(min_imm):
    table = vec([b"\x70\x00" + min_imm])
    exports = vec([ref_uleb(1) + b"t" + b"\x01" + ref_uleb(0)])
    return b"\x00asm\x01\x00\x00\x00" + section(4, table) + section(7, exports)


def custom_module(size_imm, size):
    """custom section (id 0) with empty name whose size field is the immediate under test, then an empty type section."""
    return b"\x00asm\x01\x00\x00\x00" + b"\x00" + size_imm + b"\x00" + bytes(size - 1) + section(1, vec([]))


def v8_values(spec):
    r = rng(spec["seed"], PROPERTY, "v8/%d" % spec["shard"])
    n = spec["n"]
    i64, i32, tab = [], [], []
    for x in boundary_values():
        if -(1 << 63) <= x < 1 << 63:
            i64.append(x)
        if -(1 << 31) <= x < 1 << 31:
            i32.append(x)
        if 0 <= x <= 300000 or x in ((1 << 20) - 1, 1 << 20, (1 << 21) - 1, 1 << 21, (1 << 21) + 1):
            tab.append(x)  # (modules of 1-2 MB cost V8 a second each: only the group borders)
    i64 += [-(1 << 63), (1 << 63) - 1]
    i32 += [-(1 << 31), (1 << 31) - 1]
    while len(i64) < n * 3 // 4:
        bits = r.randrange(1, 64)
        v = r.getrandbits(bits)
        i64.append(-v - 1 if r.random() < 0.5 else v)
    while len(i32) < n // 4:
        bits = r.randrange(1, 32)
        v = r.getrandbits(bits)
        i32.append(-v - 1 if r.random() < 0.5 else v)
    tab += list(range(0, 40)) + [r.randrange(0, 1 << r.randrange(1, 15)) for _ in range(100)]
    tab += [r.randrange(16384, 20001) for _ in range(10)] + [r.randrange(20001, 300000) for _ in range(12)]
    tab += [r.randrange(2097152, 3000000)]
    return i64, i32, sorted(set(tab))


def run_node(jobs, tmp, tag):
    script = os.path.join(tmp, "c20_v8.js")
    with open(script, "w") as f:
        f.write(JS)
    jin = os.path.join(tmp, "c20_in_%s.json" % tag)
    jout = os.path.join(tmp, "c20_out_%s.json" % tag)
    with open(jin, "w") as f:
        json.dump(jobs, f)
    p = subprocess.run([NODE, script, jin, jout], capture_output=True, text=True, timeout=900,
                       stdin=subprocess.DEVNULL, cwd=tmp)
    if p.returncode != 0 or not os.path.exists(jout):
        raise RuntimeError("node rc=%s: %s" % (p.returncode, (p.stderr or p.stdout)[-300:]))
    with open(jout) as f:
        res = json.load(f)
    for path in (jin, jout):
        os.unlink(path)
    return res


def run_v8(spec):
    import ppci.utils.leb128 as leb

    res = {"evaluations": 0, "observed": {"v8": {"i64_const": 0, "i32_const": 0, "table_min": 0, "section_size": 0, "modules": 0,
                                                 "node_runs": 0, "skipped_no_node": 0}},
           "violations": [], "samples": [], "inconclusive": []}
    ob = res["observed"]["v8"]
    if not NODE:
        ob["skipped_no_node"] = 1  # clause skipped; the other clauses still decide
        return res
    tmp = os.environ.get("VERIF_TMP") or os.getcwd()
    try:
        ob["node_version"] = subprocess.run([NODE, "--version"], capture_output=True, text=True, timeout=60).stdout.strip()
    except Exception as e:  # noqa
        res["inconclusive"].append("V8 clause: node --version failed: %s" % e)
        return res
    i64, i32, tab = v8_values(spec)

    def flag(summary, case):
        if len(res["violations"]) < 5:
            res["violations"].append({"summary": summary, "case": case})

    def encode(fn, vals, what):
        out = []
        for x in vals:
            try:
                e = fn(x)
                if not isinstance(e, (bytes, bytearray)) or not e:
                    raise TypeError("returned %r" % (e,))
                out.append((x, bytes(e)))
            except Exception as e:  # noqa  (also reported by the reference clauses)
                flag("%s(%d) raised %s: %s" % (what, x, type(e).__name__, e), {"value": str(x)})
        return out

    groups = []  # (kind, counter, [(x, imm)])
    enc64 = encode(leb.signed_leb128_encode, i64, "signed_leb128_encode")
    enc32 = encode(leb.signed_leb128_encode, i32, "signed_leb128_encode")
    enct = encode(leb.unsigned_leb128_encode, tab, "unsigned_leb128_encode")
    for i in range(0, len(enc64), 1000):
        groups.append(("i64", enc64[i:i + 1000]))
    for i in range(0, len(enc32), 1000):
        groups.append(("i32", enc32[i:i + 1000]))
    for item in enct:
        # big tables are slow to instantiate: sizes above 20000 are observed as the size of a custom section
        groups.append(("table" if item[0] <= 20000 else "custom", [item]))

    def job_of(kind, items):
        if kind == "table":
            return {"kind": "table", "hex": table_module(items[0][1]).hex(), "n": 1}
        if kind == "custom":
            return {"kind": "custom", "hex": custom_module(items[0][1], items[0][0]).hex(), "n": 1}
        op, rt = (0x42, 0x7E) if kind == "i64" else (0x41, 0x7F)
        return {"kind": kind, "hex": const_module(op, rt, [imm for _, imm in items]).hex(), "n": len(items)}

    def judge(kind, items, r, final):
        """-> list of groups to retry one by one (when a batch module was refused)."""
        if "error" in r:
            if len(items) > 1 and not final:
                return [(kind, [it]) for it in items]
            x, imm = items[0]
            flag("V8 refuses a module whose %s immediate %d is encoded by ppci as %s: %s" % (
                {"i64": "i64.const", "i32": "i32.const", "table": "table minimum", "custom": "section size"}[kind], x, imm.hex(), r["error"][:200]),
                {"value": str(x), "immediate_hex": imm.hex(), "kind": kind, "v8_error": r["error"]})
            res["evaluations"] += 1
            return []
        for (x, imm), got in zip(items, r["values"]):
            res["evaluations"] += 1
            ob[{"i64": "i64_const", "i32": "i32_const", "table": "table_min", "custom": "section_size"}[kind]] += 1
            if got != str(x):
                flag("V8 evaluates the %s immediate %s (ppci's encoding of %d) to %s" % (kind, imm.hex(), x, got),
                     {"value": str(x), "immediate_hex": imm.hex(), "kind": kind, "v8_value": got})
            elif len(res["samples"]) < 1 and kind == "i64" and len(imm) == 10:
                res["samples"].append({"v8": "i64.const", "value": str(x), "immediate_hex": imm.hex(), "returned": got})
        return []

    try:
        out = run_node([job_of(k, it) for k, it in groups], tmp, "a")
        ob["node_runs"] += 1
        ob["modules"] += len(groups)
        retry = []
        for (k, it), r in zip(groups, out):
            retry += judge(k, it, r, False)
        if retry:
            retry = retry[:3000]
            out = run_node([job_of(k, it) for k, it in retry], tmp, "b")
            ob["node_runs"] += 1
            ob["modules"] += len(retry)
            for (k, it), r in zip(retry, out):
                judge(k, it, r, True)
    except Exception as e:  # noqa
        res["inconclusive"].append("V8 clause: %s: %s" % (type(e).__name__, e))
    return res
